#!/bin/sh
# confirm_seed.sh <ID> <X> [detected-by]: confirm demo PASS on clean worktree, FAIL with patch; store under /verif/seeded
ID="$1"; X="$2"; W=/tmp/seed/$ID; O=/tmp/seed/${ID}_out
cd "$W" || exit 2
git checkout -q -- . 
a=$(PYTHONPATH=$W timeout -k 5 150 /venv/bin/python $O/demo$X.py >/tmp/seed/demo_clean.log 2>&1; echo $?)
git apply $O/patch$X.diff || { echo "patch does not apply"; exit 2; }
b=$(PYTHONPATH=$W timeout -k 5 150 /venv/bin/python $O/demo$X.py >/tmp/seed/demo_mut.log 2>&1; echo $?)
git checkout -q -- .
echo "$ID-$X clean_rc=$a mutant_rc=$b  clean:$(grep -c PASS /tmp/seed/demo_clean.log) mutant_fail:$(grep -c FAIL /tmp/seed/demo_mut.log)"
if [ "$a" = "0" ] && [ "$b" != "0" ]; then
  D=/verif/seeded/$ID-$X; mkdir -p $D
  cp $O/patch$X.diff $D/patch.diff; cp $O/demo$X.py $D/demo.py
  /venv/bin/python - "$O/meta$X.json" "$D/meta.json" "$ID" "$a" "$b" <<'PY'
import json, sys
src, dst, pid, a, b = sys.argv[1:6]
try: m = json.load(open(src))
except Exception: m = {}
m['property'] = pid
m['confirmed'] = {'demo_on_clean_worktree_rc': int(a), 'demo_with_patch_rc': int(b),
                  'ran': f'cd /tmp/seed/{pid} && PYTHONPATH=. /venv/bin/python demo.py  (clean HEAD, then after git apply patch.diff)'}
json.dump(m, open(dst, 'w'), indent=1)
PY
  echo stored $D
fi
