#!/usr/bin/env python3
"""sweep.py [-j N] [--tier quick|thorough] [--checks C01,C02] [seed-name ...]

Run the property's own check (or the given checks) against every seeded change under
/verif/seeded, in parallel, WITHOUT touching /repo: each seed gets a scratch git worktree of
/repo's HEAD with the patch applied and a scratch copy of /verif (so that the regenerated
Gen/*.lean files of concurrent runs do not collide); PYWORKERS_REPO points the harness there.
Everything is removed afterwards.  Result table -> stdout and seeded/SWEEP.json.
"""
import argparse
import concurrent.futures as cf
import json
import os
import re
import shutil
import subprocess
import sys
import time
from pathlib import Path

VERIF = Path(__file__).resolve().parent.parent
ROOT = Path('/tmp/pwv_sweep')


def sh(cmd, **kw):
    return subprocess.run(cmd, shell=True, capture_output=True, text=True, **kw)


def one(seed, checks, tier, patch=None):
    name = seed if isinstance(seed, str) else seed.name
    r = ROOT / f'r_{name}'
    v = ROOT / f'v_{name}'
    out = {'seed': name, 'results': {}}
    try:
        sh(f'git -C /repo worktree remove --force {r}; rm -rf {r} {v}')
        p = sh(f'git -C /repo worktree add --detach {r} HEAD')
        if p.returncode:
            out['error'] = 'worktree: ' + p.stderr[-300:]
            return out
        if patch is None and name != 'CLEAN':
            patch = VERIF / 'seeded' / name / 'patch.diff'
        if patch is not None:
            p = sh(f'git -C {r} apply {patch}')
            if p.returncode:
                out['error'] = 'patch does not apply: ' + p.stderr[-300:]
                return out
        sh(f'mkdir -p {v} && rsync -a --exclude .git --exclude replays --exclude seeded {VERIF}/ {v}/')
        for c in checks:
            t0 = time.time()
            env = dict(os.environ, PYWORKERS_REPO=str(r), VERIF_SEED=os.environ.get('VERIF_SEED', '0'))
            try:
                p = subprocess.run(['setsid', 'timeout', '-k', '10', '2400', str(v / 'bin' / 'check'), c, tier], cwd=v, env=env,
                                   capture_output=True, text=True, stdin=subprocess.DEVNULL)
                rc, txt = p.returncode, p.stdout
            except Exception as e:  # noqa
                rc, txt = 99, repr(e)
            lines = [l[:300] for l in txt.splitlines() if re.match(r'VIOLATION|KNOWN-FINDING|INFRA|note:', l)]
            what = []
            for l in txt.splitlines():
                m = re.match(r'VIOLATION property=\S+ replay=(\S+)', l)
                if m:
                    try:
                        d = json.loads(Path(m.group(1)).read_text())
                        if d.get('no_failing_input_found'):
                            what.append('NFI: ' + '; '.join(f"{b['kind']}:{b['name']}" for b in d['broken']))
                        else:
                            what.append((d.get('signature') or '') + ' :: ' + (d.get('what') or '')[:200])
                    except Exception as e:  # noqa
                        what.append('unreadable replay ' + repr(e))
            out['results'][c] = {'rc': rc, 'wall': round(time.time() - t0, 1), 'lines': lines, 'what': what}
    finally:
        sh(f'git -C /repo worktree remove --force {r}; rm -rf {r} {v}; git -C /repo worktree prune')
    return out


def main():
    ap = argparse.ArgumentParser()
    ap.add_argument('-j', type=int, default=4)
    ap.add_argument('--tier', default='quick')
    ap.add_argument('--checks', default='')
    ap.add_argument('--clean', action='store_true', help='also run the checks on an unpatched worktree')
    ap.add_argument('--out', default=str(VERIF / 'seeded' / 'SWEEP.json'))
    ap.add_argument('seeds', nargs='*')
    a = ap.parse_args()
    ROOT.mkdir(exist_ok=True)
    seeds = a.seeds or sorted(d.name for d in (VERIF / 'seeded').iterdir() if (d / 'patch.diff').exists())
    jobs = []
    for s in seeds:
        meta = json.loads((VERIF / 'seeded' / s / 'meta.json').read_text())
        if meta.get('obsolete') and not a.seeds:
            continue          # no longer a violation on the current HEAD (see meta.json: obsolete_why)
        # `caught_by`: the checks expected to catch the change when it is not (only) the check of its own property
        jobs.append((s, a.checks.split(',') if a.checks else meta.get('caught_by') or [meta['property']]))
    if a.clean:
        jobs.append(('CLEAN', a.checks.split(',')))
    res = {}
    with cf.ThreadPoolExecutor(a.j) as ex:
        futs = {ex.submit(one, s, c, a.tier): s for s, c in jobs}
        for f in cf.as_completed(futs):
            o = f.result()
            res[o['seed']] = o
            if 'error' in o:
                print(f"{o['seed']}: ERROR {o['error']}", flush=True)
            for c, r in o['results'].items():
                verdict = {0: 'missed', 1: 'CAUGHT', 2: 'infra'}.get(r['rc'], f"rc={r['rc']}")
                print(f"{o['seed']} {c}: {verdict} ({r['wall']}s) {' | '.join(r['what'])[:260]}", flush=True)
    try:
        old = json.loads(Path(a.out).read_text())
    except Exception:
        old = {}
    for k, o in res.items():
        old.setdefault(k, {}).setdefault('results', {}).update(o.get('results', {}))
        if 'error' in o:
            old[k]['error'] = o['error']
        else:
            old[k].pop('error', None)
    Path(a.out).write_text(json.dumps(old, indent=1, sort_keys=True) + '\n')
    shutil.rmtree(ROOT, ignore_errors=True)


if __name__ == '__main__':
    main()
