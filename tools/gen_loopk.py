#!/usr/bin/env python3
"""Writes lean/PwVerif/Lemmas/Loop<Kind>.lean and Whole<Kind>.lean for the three persistent kinds from one template
(the three proofs differ only in the program they evaluate, the events covered and the state condition at the loop)."""
from pathlib import Path
L = Path(__file__).resolve().parent.parent / 'lean' / 'PwVerif' / 'Lemmas'

LOOP = '''import PwVerif.Lemmas.PyLoopD
import PwVerif.Lemmas.EvalNat
import PwVerif.Gen.RunLoops
/-!
(written by `tools/gen_loopk.py` from one template for the three persistent kinds)

The loop of the regenerated `@RUN@` program under one asynchronous event (@EVENTS@) at an arbitrary landing point,
any number of items: the hypotheses of `loop_disturbed` (`Lemmas/PyLoopD.lean`) are discharged by symbolic evaluation
of the generated loop body - one evaluation per landing point inside a pass. The numbers of line events of a pass
are computed from the generated program (`eval_nat%`, then proved by the kernel); no line number is quoted.
-/
namespace PwVerif.LoopK
open PwVerif.Py PwVerif.Gen

def @K@W : Stmt := (firstWhileL @RUN@).getD (.brk 0)
def @K@L : Nat := eval_nat% (passLen (bodyOf @K@W) .item)
def @K@Lr : Nat := eval_nat% (passLen (bodyOf @K@W) .release)
theorem @K@L_eq : @K@L = passLen (bodyOf @K@W) .item := by decide +kernel
theorem @K@Lr_eq : @K@Lr = passLen (bodyOf @K@W) .release := by decide +kernel
/-- the events covered for this kind -/
def @K@Cov (a : Async) : Prop := @COV@
/-- what has to hold at the head of the loop -/
abbrev @K@Extra (st : St) : Prop := @EXTRA@

set_option maxRecDepth 8000 in
theorem @K@_item (env : Env) (he : Returns env) : ItemSpecC env 40 (lnOf @K@W) (bodyOf @K@W) @K@L := by
  intro st rest m hi hf hs
  simp [@K@L, lnOf, bodyOf, @K@W, firstWhileL, firstWhile, @RUN@, Option.orElse, exec, execBlock, execHandlers, lineEvent, doActs, doAct,
    evalCond, Catch.catches, hi, hf, hs, he.ret, he.tn, he.na]

set_option maxRecDepth 8000 in
theorem @K@_rel (env : Env) (he : Returns env) : RelSpecC env 40 (lnOf @K@W) (bodyOf @K@W) @K@Lr := by
  intro st rest m hi hf hs
  simp [@K@Lr, lnOf, bodyOf, @K@W, firstWhileL, firstWhile, @RUN@, Option.orElse, exec, execBlock, execHandlers, lineEvent, doActs, doAct,
    evalCond, Catch.catches, hi, hf, hs, he.ret, he.tn, he.na]

set_option maxRecDepth 8000 in
set_option maxHeartbeats 1000000 in
theorem @K@_fire_item (env : Env) (he : Returns env) (a : Async) (ha : @K@Cov a) :
    FireItem env 40 (.whileS (lnOf @K@W) (condOf @K@W) (bodyOf @K@W)) a @K@L @K@Extra := by
  intro st rest K hK hi hl hq hx
  have h1 := hq.inflight; have h2 := hq.stop; have h3 := hq.async
  unfold @K@L at hK
  unfold @K@Extra at hx
  generalize hr : exec env 40 st (.whileS (lnOf @K@W) (condOf @K@W) (bodyOf @K@W)) = r
  rcases ha with @RC@
  all_goals
    repeat' (first | omega | rcases K with _ | K)
  all_goals
    (simp [lnOf, condOf, bodyOf, @K@W, firstWhileL, firstWhile, @RUN@, Option.orElse, exec, execBlock, execHandlers, lineEvent, doActs,
       doAct, evalCond, Catch.catches, hi, hl, h1, h2, h3, hx, he.ret, he.tn, he.na] at hr
     subst hr
     constructor <;> simp [firedOut, firedReq, firedCtrl, h1, h2, h3, hx])

set_option maxRecDepth 8000 in
set_option maxHeartbeats 1000000 in
theorem @K@_fire_rel (env : Env) (he : Returns env) (a : Async) (ha : @K@Cov a) :
    FireRel env 40 (.whileS (lnOf @K@W) (condOf @K@W) (bodyOf @K@W)) a @K@Lr @K@Extra := by
  intro st rest K hK hi hl hq hx
  have h1 := hq.inflight; have h2 := hq.stop; have h3 := hq.async
  unfold @K@Lr at hK
  unfold @K@Extra at hx
  generalize hr : exec env 40 st (.whileS (lnOf @K@W) (condOf @K@W) (bodyOf @K@W)) = r
  rcases ha with @RC@
  all_goals
    repeat' (first | omega | rcases K with _ | K)
  all_goals
    (simp [lnOf, condOf, bodyOf, @K@W, firstWhileL, firstWhile, @RUN@, Option.orElse, exec, execBlock, execHandlers, lineEvent, doActs,
       doAct, evalCond, Catch.catches, hi, hl, h1, h2, h3, hx, he.ret, he.tn, he.na] at hr
     subst hr
     refine ⟨?_, by simp⟩
     constructor <;> simp [firedOut, firedReq, firedCtrl, h1, h2, h3, hx])

/-- **the loop of the regenerated program under one event, any number of items, any landing point** -/
theorem @K@_loop_disturbed (env : Env) (he : Returns env) (a : Async) (ha : @K@Cov a) :
    ∀ n : Nat, ∃ F, 40 ≤ F ∧ ∀ (st : St) (K : Nat), st.inputs = List.replicate n .item ++ [.release] → st.left = some K →
      QuietC a st → @K@Extra st → LoopOut a n @K@L @K@Lr K st (exec env F st @K@W) := by
  have hW : @K@W = .whileS (lnOf @K@W) (condOf @K@W) (bodyOf @K@W) := rfl
  rw [hW]
  apply loop_disturbed env 40 _ _ _ a @K@L @K@Lr @K@Extra
  · intro st hs; simp [condOf, @K@W, firstWhileL, firstWhile, @RUN@, Option.orElse, evalCond, hs]
  · exact @K@_item env he
  · exact @K@_rel env he
  · exact @K@_fire_item env he a ha
  · exact @K@_fire_rel env he a ha
  · intro st t l i e cn rs h; exact h

/-- line events of the program before the loop is reached / after it was left (run on the release marker alone) -/
def @K@P : Nat := eval_nat% ((lineTrace @RUN@ {} [.release]).idxOf (lnOf @K@W))
def @K@S : Nat := eval_nat% ((lineTrace @RUN@ {} [.release]).length - (lineTrace @RUN@ {} [.release]).idxOf (lnOf @K@W) - (passLen (bodyOf @K@W) .release + 1))
theorem @K@P_eq : @K@P = (lineTrace @RUN@ {} [.release]).idxOf (lnOf @K@W) := by decide +kernel
theorem @K@S_eq : @K@S = (lineTrace @RUN@ {} [.release]).length - (lineTrace @RUN@ {} [.release]).idxOf (lnOf @K@W) - (passLen (bodyOf @K@W) .release + 1) := by
  decide +kernel

end PwVerif.LoopK
'''

EARLY = '''import PwVerif.Lemmas.Loop@KIND@
import PwVerif.Props.C05Generated@CHAIN@
/-!
(written by `tools/gen_loopk.py` from one template; part @I@ of @N@ of the landing points before the loop)

The whole regenerated `@RUN@` program on `n` items and the release marker with one asynchronous event after `K` line
events, `K` smaller than the number `@K@P` of line events before the loop and `K % @N@ = @I@`: one symbolic evaluation
of the program per landing point. A request that nobody can deliver yet is lost, and the run is the undisturbed one
(loop summarised by `C05.@K@_loop`).
-/
namespace PwVerif.LoopK
open PwVerif.Py PwVerif.Gen

set_option maxRecDepth 8000 in
set_option maxHeartbeats 4000000 in
theorem @K@_early_@I@ (env : Env) (he : Returns env) (hc : C05.Returns env) (a : Async) (ha : @K@Cov a) (n : Nat) :
    ∀ K, K < @K@P → K % @N@ = @I@ →
      ∃ F, StreamShape n (execBlock env F { inputs := List.replicate n .item ++ [.release], left := some K, async := a } @RUN@) := by
  obtain ⟨F, hF⟩ := C05.@K@_loop env hc n
  have hW : C05.@K@W = .whileS _ _ _ := rfl
  have hrule := loop_rule env C05.@K@W n F hF
  rw [hW] at hrule
  unfold @K@P
  rcases ha with @RC@
  all_goals
    repeat' (first | exact forall_lt_zero' | refine forall_lt_succ' ?_ ?_)
  all_goals
    first
    | (intro h; exact absurd h (by decide))
    | (intro _
       refine ⟨F + 90, ?_⟩
       simp [@RUN@, exec_line, exec_ret, exec_brk, exec_call, exec_ifS, exec_tryS, execBlock, execHandlers, lineEvent, doActs, doAct,
         evalCond, Catch.catches, hrule, he.ret, he.tn, he.na]
       first
         | exact ⟨by simp, 0, Nat.zero_le _, Or.inl rfl⟩
         | exact ⟨by simp, 0, Nat.zero_le _, Or.inr ⟨_, rfl⟩⟩
         | exact ⟨by simp, n, Nat.le_refl _, Or.inr ⟨_, rfl⟩⟩
         | exact ⟨by simp, n, Nat.le_refl _, Or.inl rfl⟩)

end PwVerif.LoopK
'''

WHOLE = '''@IMPORTS@
/-!
(written by `tools/gen_loopk.py` from one template for the three persistent kinds)

The whole regenerated `@RUN@` program on `n` items and the release marker with one asynchronous event
(@EVENTS@) after `K` line events, for **every** `n` and **every** `K`:

* `@K@_early_*` (`Lemmas/Early@KIND@*.lean`): the event lands before the loop is reached,
* `@K@_late_fired`: the statements before the loop go by (`K = m + P`), the loop is left by the event
  (`loop_fire_rule`: the exit state is known but for the number `j ≤ n` of results written, `loop_fire_prefix`), the
  statements after the loop - handlers, `finally` blocks - are evaluated symbolically on that exit state,
* `@K@_late_passed`: the loop is passed completely (`loop_pass_rule`) and the event lands in the statements after it
  (one evaluation per landing point) or after the end of the run.
-/
namespace PwVerif.LoopK
open PwVerif.Py PwVerif.Gen

theorem @K@_early (env : Env) (he : Returns env) (hc : C05.Returns env) (a : Async) (ha : @K@Cov a) (n K : Nat) (hK : K < @K@P) :
    ∃ F, StreamShape n (execBlock env F { inputs := List.replicate n .item ++ [.release], left := some K, async := a } @RUN@) := by
  have hlt : K % @N@ < @N@ := Nat.mod_lt _ (by decide)
@EARLYCASES@
  omega

set_option maxRecDepth 8000 in
set_option maxHeartbeats 4000000 in
/-- a graceful stop that lands inside the loop - in any pass, at any line - still ends the stream with exactly one end marker -/
theorem @K@_late_fired_graceful (env : Env) (he : Returns env) (a : Async) (ha : @K@Cov a) (hk : a ≠ .kill) (n m : Nat)
    (hm : m < loopLen n @K@L @K@Lr) :
    ∃ F, StreamEnds n (execBlock env F { inputs := List.replicate n .item ++ [.release], left := some (m + @K@P), async := a } @RUN@) := by
  obtain ⟨F, hF40, hF⟩ := @K@_loop_disturbed env he a ha n
  have hW : @K@W = .whileS _ _ _ := rfl
  have hrule := loop_fire_rule env a n @K@L @K@Lr F @K@W @K@Extra hF
  have hpre := loop_fire_prefix env a n @K@L @K@Lr F @K@W @K@Extra hF
  rw [hW] at hrule hpre
  have hp : ∀ (g st : St), loopEx env F st (.whileS (lnOf @K@W) (condOf @K@W) (bodyOf @K@W)) = g →
      st.inputs = List.replicate n .item ++ [.release] → st.left = some m → QuietC a st → @K@Extra st →
      ∃ j, j ≤ n ∧ g.results = st.results ++ itemsFrom st.counter j := by
    intro g st h hi hl hq hx; rw [← h]; exact hpre st m hi hl hm hq hx
  clear hpre hF
  refine ⟨F + 90, ?_⟩
  unfold @K@P
  rcases ha with @RC@
  all_goals
    first
    | exact absurd rfl hk
    | (simp [@RUN@, @K@Extra, firedOut, firedReq, firedCtrl, exec_line, exec_ret, exec_brk, exec_call, exec_ifS, exec_tryS, execBlock, execHandlers,
         lineEvent, doActs, doAct, evalCond, Catch.catches, hrule, hm, he.ret, he.tn, he.na]
       generalize hg : loopEx env F _ _ = g
       obtain ⟨j, hj, hres⟩ := hp _ _ hg rfl rfl ⟨rfl, rfl, rfl⟩ (by unfold @K@Extra; first | rfl | trivial)
       simp only [List.nil_append] at hres
       exact ⟨by simp, j, hj, _, by rw [hres]⟩)

set_option maxRecDepth 8000 in
set_option maxHeartbeats 4000000 in
theorem @K@_late_fired_kill (env : Env) (he : Returns env) (n m : Nat) (hm : m < loopLen n @K@L @K@Lr) :
    ∃ F, StreamShape n (execBlock env F { inputs := List.replicate n .item ++ [.release], left := some (m + @K@P), async := .kill } @RUN@) := by
  obtain ⟨F, hF40, hF⟩ := @K@_loop_disturbed env he .kill (by simp [@K@Cov]) n
  have hW : @K@W = .whileS _ _ _ := rfl
  have hrule := loop_fire_rule env .kill n @K@L @K@Lr F @K@W @K@Extra hF
  have hpre := loop_fire_prefix env .kill n @K@L @K@Lr F @K@W @K@Extra hF
  rw [hW] at hrule hpre
  have hp : ∀ (g st : St), loopEx env F st (.whileS (lnOf @K@W) (condOf @K@W) (bodyOf @K@W)) = g →
      st.inputs = List.replicate n .item ++ [.release] → st.left = some m → QuietC .kill st → @K@Extra st →
      ∃ j, j ≤ n ∧ g.results = st.results ++ itemsFrom st.counter j := by
    intro g st h hi hl hq hx; rw [← h]; exact hpre st m hi hl hm hq hx
  clear hpre hF
  refine ⟨F + 90, ?_⟩
  unfold @K@P
  simp [@RUN@, @K@Extra, firedOut, firedReq, firedCtrl, exec_line, exec_ret, exec_brk, exec_call, exec_ifS, exec_tryS, execBlock, execHandlers,
    lineEvent, doActs, doAct, evalCond, Catch.catches, hrule, hm, he.ret, he.tn, he.na]
  generalize hg : loopEx env F _ _ = g
  obtain ⟨j, hj, hres⟩ := hp _ _ hg rfl rfl ⟨rfl, rfl, rfl⟩ (by unfold @K@Extra; first | rfl | trivial)
  simp only [List.nil_append] at hres
  first
    | exact ⟨by simp, j, hj, Or.inl hres⟩
    | exact ⟨by simp, j, hj, Or.inr ⟨_, by rw [hres]⟩⟩

theorem @K@_late_fired (env : Env) (he : Returns env) (a : Async) (ha : @K@Cov a) (n m : Nat) (hm : m < loopLen n @K@L @K@Lr) :
    ∃ F, StreamShape n (execBlock env F { inputs := List.replicate n .item ++ [.release], left := some (m + @K@P), async := a } @RUN@) := by
  by_cases hk : a = .kill
  · subst hk; exact @K@_late_fired_kill env he n m hm
  · obtain ⟨F, h⟩ := @K@_late_fired_graceful env he a ha hk n m hm
    exact ⟨F, h.shape⟩

/-- a graceful stop landing inside the loop, for every fuel from some point on -/
theorem @K@_ends_in_loop (env : Env) (he : Returns env) (a : Async) (ha : @K@Cov a) (hk : a ≠ .kill) (n K : Nat)
    (h1 : @K@P ≤ K) (h2 : K < @K@P + loopLen n @K@L @K@Lr) :
    ∃ F0, ∀ F, F0 ≤ F →
      StreamEnds n (execBlock env F { inputs := List.replicate n .item ++ [.release], left := some K, async := a } @RUN@) := by
  obtain ⟨m, rfl⟩ : ∃ m, K = m + @K@P := ⟨K - @K@P, by omega⟩
  obtain ⟨F, h⟩ := @K@_late_fired_graceful env he a ha hk n m (by omega)
  exact ⟨F, streamEnds_mono env _ _ n F h⟩

@PASSED@
@WHOLETHM@
end PwVerif.LoopK
'''

PASSED_FLAT = '''import PwVerif.Lemmas.Loop@KIND@
/-!
(written by `tools/gen_loopk.py` from one template; event @I@ of the events covered)

The whole regenerated `@RUN@` program when the loop is passed completely (`loop_pass_rule`) and the event
`@ASYNC@` lands in the statements after it - one symbolic evaluation of the program per landing point - or after the
end of the run.
-/
namespace PwVerif.LoopK
open PwVerif.Py PwVerif.Gen

set_option maxRecDepth 8000 in
set_option maxHeartbeats 4000000 in
theorem @K@_late_passed_@I@ (env : Env) (he : Returns env) (n m2 : Nat) :
    ∃ F, StreamShape n (execBlock env F { inputs := List.replicate n .item ++ [.release], left := some (m2 + loopLen n @K@L @K@Lr + @K@P), async := @ASYNC@ } @RUN@) := by
  obtain ⟨F, hF40, hF⟩ := @K@_loop_disturbed env he (@ASYNC@) (by simp [@K@Cov]) n
  have hW : @K@W = .whileS _ _ _ := rfl
  have hrule := loop_pass_rule env (@ASYNC@) n @K@L @K@Lr F @K@W @K@Extra hF
  rw [hW] at hrule
  refine ⟨F + 90, ?_⟩
  unfold @K@P
  generalize loopLen n @K@L @K@Lr = C at hrule
  clear hF
  by_cases hm2 : m2 < @K@S
  · revert m2
    unfold @K@S
    repeat' (first | exact forall_lt_zero' | refine forall_lt_succ' ?_ ?_)
    all_goals
      (simp [@RUN@, @K@Extra, exec_line, exec_ret, exec_brk, exec_call, exec_ifS, exec_tryS, execBlock, execHandlers, lineEvent, doActs, doAct,
         evalCond, Catch.catches, hrule, he.ret, he.tn, he.na]
       first
         | exact ⟨by simp, n, Nat.le_refl _, Or.inr ⟨_, rfl⟩⟩
         | exact ⟨by simp, n, Nat.le_refl _, Or.inl rfl⟩)
  · obtain ⟨m3, rfl⟩ : ∃ m3, m2 = m3 + @K@S := ⟨m2 - @K@S, by omega⟩
    unfold @K@S
    simp [@RUN@, @K@Extra, exec_line, exec_ret, exec_brk, exec_call, exec_ifS, exec_tryS, execBlock, execHandlers, lineEvent, doActs, doAct,
         evalCond, Catch.catches, hrule, he.ret, he.tn, he.na]
    exact ⟨by simp, n, Nat.le_refl _, Or.inr ⟨_, rfl⟩⟩

end PwVerif.LoopK
'''

PASSED_DISPATCH = '''theorem @K@_late_passed (env : Env) (he : Returns env) (a : Async) (ha : @K@Cov a) (n m2 : Nat) :
    ∃ F, StreamShape n (execBlock env F { inputs := List.replicate n .item ++ [.release], left := some (m2 + loopLen n @K@L @K@Lr + @K@P), async := a } @RUN@) := by
  rcases ha with @RC@
@DISPATCH@
'''

PASSED_TREE = '''set_option maxRecDepth 8000 in
set_option maxHeartbeats 4000000 in
theorem @K@_late_passed (env : Env) (he : Returns env) (a : Async) (ha : @K@Cov a) (n m2 : Nat) :
    ∃ F, StreamShape n (execBlock env F { inputs := List.replicate n .item ++ [.release], left := some (m2 + loopLen n @K@L @K@Lr + @K@P), async := a } @RUN@) := by
  obtain ⟨F, hF40, hF⟩ := @K@_loop_disturbed env he a ha n
  have hW : @K@W = .whileS _ _ _ := rfl
  have hrule := loop_pass_rule env a n @K@L @K@Lr F @K@W @K@Extra hF
  rw [hW] at hrule
  refine ⟨F + 90, ?_⟩
  unfold @K@P
  generalize loopLen n @K@L @K@Lr = C at hrule
  clear hF
  rcases ha with @RC@
  all_goals
    -- the statements before the loop and the loop go by; what is left is the decision tree of the statements after the
    -- loop over the line events `m2` still to go
    (simp [@RUN@, @K@Extra, exec_line, exec_ret, exec_brk, exec_call, exec_ifS, exec_tryS, execBlock, execHandlers, lineEvent, doActs, doAct,
       evalCond, Catch.catches, hrule, he.ret, he.tn, he.na]
     clear hrule
     by_cases hm2 : m2 < @K@S
     · revert m2
       unfold @K@S
       repeat' (first | exact forall_lt_zero' | refine forall_lt_succ' ?_ ?_)
       all_goals
         (simp
          first
            | exact ⟨by simp, n, Nat.le_refl _, Or.inr ⟨_, rfl⟩⟩
            | exact ⟨by simp, n, Nat.le_refl _, Or.inl rfl⟩)
     · obtain ⟨m3, rfl⟩ : ∃ m3, m2 = m3 + @K@S := ⟨m2 - @K@S, by omega⟩
       unfold @K@S
       simp
       exact ⟨by simp, n, Nat.le_refl _, Or.inr ⟨_, rfl⟩⟩)

'''

WHOLE_FULL = '''/-- **the whole regenerated program, any number of items, any landing point of the event** -/
theorem @K@_whole (env : Env) (he : Returns env) (hc : C05.Returns env) (a : Async) (ha : @K@Cov a) (n K : Nat) :
    ∃ F0, ∀ F, F0 ≤ F →
      StreamShape n (execBlock env F { inputs := List.replicate n .item ++ [.release], left := some K, async := a } @RUN@) := by
  by_cases hK : K < @K@P
  · obtain ⟨F, h⟩ := @K@_early env he hc a ha n K hK
    exact ⟨F, streamShape_mono env _ _ n F h⟩
  · obtain ⟨m, rfl⟩ : ∃ m, K = m + @K@P := ⟨K - @K@P, by omega⟩
    by_cases hm : m < loopLen n @K@L @K@Lr
    · obtain ⟨F, h⟩ := @K@_late_fired env he a ha n m hm
      exact ⟨F, streamShape_mono env _ _ n F h⟩
    · obtain ⟨m2, rfl⟩ : ∃ m2, m = m2 + loopLen n @K@L @K@Lr := ⟨m - loopLen n @K@L @K@Lr, by omega⟩
      obtain ⟨F, h⟩ := @K@_late_passed env he a ha n m2
      exact ⟨F, streamShape_mono env _ _ n F h⟩

'''

WHOLE_PARTIAL = '''/-- **the whole regenerated program, any number of items, any landing point of the event up to the end of the loop**
    (partial: an event that lands in the statements after the loop is covered for two items only, by the finite tables
    `C06_generated_remote`) -/
theorem @K@_whole_partial (env : Env) (he : Returns env) (hc : C05.Returns env) (a : Async) (ha : @K@Cov a) (n K : Nat)
    (hlate : K < @K@P + loopLen n @K@L @K@Lr) :
    ∃ F0, ∀ F, F0 ≤ F →
      StreamShape n (execBlock env F { inputs := List.replicate n .item ++ [.release], left := some K, async := a } @RUN@) := by
  by_cases hK : K < @K@P
  · obtain ⟨F, h⟩ := @K@_early env he hc a ha n K hK
    exact ⟨F, streamShape_mono env _ _ n F h⟩
  · obtain ⟨m, rfl⟩ : ∃ m, K = m + @K@P := ⟨K - @K@P, by omega⟩
    obtain ⟨F, h⟩ := @K@_late_fired env he a ha n m (by omega)
    exact ⟨F, streamShape_mono env _ _ n F h⟩

'''

KINDS = [
    ('pthread', 'Thread', 'pthreadRun', 'a = .raiseWte false ∨ a = .kill', 'rfl | rfl', 'True',
     '`terminate()` raising in the working thread, or a kill', 1, True),
    ('pprocess', 'Process', 'pprocessRun', 'a = .raiseWte false ∨ a = .kill ∨ a = .raiseWte true', 'rfl | rfl | rfl', 'st.ctrlAlive = true',
     '`terminate()` delivered by either mechanism, or a kill', 2, True),
    ('premote', 'Remote', 'premoteRun', 'a = .raiseWte false ∨ a = .kill ∨ a = .raiseWte true', 'rfl | rfl | rfl', 'st.ctrlAlive = true',
     '`terminate()` delivered by either mechanism, or a kill', 12, False),
]
for k, kind, run, cov, rc, extra, ev, nch, tree in KINDS:
    def fill(t, **kw):
        t = (t.replace('@K@', k).replace('@KIND@', kind).replace('@RUN@', run).replace('@COV@', cov).replace('@RC@', rc)
             .replace('@EXTRA@', extra).replace('@EVENTS@', ev).replace('@N@', str(nch)))
        for a_, b_ in kw.items():
            t = t.replace('@' + a_ + '@', b_)
        return t
    (L / f'Loop{kind}.lean').write_text(fill(LOOP))
    for i in range(nch):
        # at most six of these files are built at a time (memory: several GB each): file i waits for file i - 6
        (L / f'Early{kind}{i}.lean').write_text(fill(EARLY, I=str(i), CHAIN=(f'\nimport PwVerif.Lemmas.Early{kind}{i - 6}' if i >= 6 else '')))
    imports = '\n'.join(f'import PwVerif.Lemmas.Early{kind}{i}' for i in range(nch))
    asyncs = ['.raiseWte false', '.kill', '.raiseWte true'][:len(rc.split('|'))]
    if tree:
        passed = fill(PASSED_TREE)
    else:
        # the evaluation of the statements after the loop is too expensive for this kind (see DESIGN 0.6): the theorem
        # is stated for events that land before the loop is left
        passed = ''
    cases = '\n'.join(f'  by_cases h{i} : K % {nch} = {i}\n  · exact {k}_early_{i} env he hc a ha n K hK h{i}' for i in range(nch))
    (L / f'Whole{kind}.lean').write_text(fill(WHOLE, IMPORTS=imports, EARLYCASES=cases, PASSED=passed, WHOLETHM=fill(WHOLE_FULL if tree else WHOLE_PARTIAL)))
print('written')
