#!/usr/bin/env python3
"""Regenerates MANIFEST.json from the table below (kept here so that it stays consistent)."""
import json
from pathlib import Path

V = Path(__file__).resolve().parent.parent
PROPS = [json.loads(l) for l in (V / 'properties.jsonl').read_text().splitlines() if l.strip()]

# id -> (technique, level text, level note, design ref)
CHECKS = {
    'C10': ('Lean 4 proof (induction over message list and read fuel) + model/impl correspondence over scripted sockets',
            'Theorems C10_roundtrip / C10_truncation / C10_no_spin prove, for every message list, every body < 2^32 bytes, every cut list and every truncation offset, that the model of recv_msg returns exactly the sent messages and then reports a closed connection, and never spins. The model is hand-written; every run drives the real send_msg/recv_msg and the compiled Lean model over the same streams and cut lists (exhaustive segmentations of short streams, all boundary truncations, random cuts, garbage) and diffs them, and evaluates the property itself on the real observations.',
            'Trusted: Lean kernel, axioms {propext, Classical.choice, Quot.sound}, the scripted-socket harness, sticky EOF on stream sockets (probed on a socketpair each run). Pickling of bodies is the real code on both sides, not modelled.',
            '§7 C10'),
    'C19': ('Lean 4 proof (invariant by induction over operation histories) + model/impl correspondence on real workers',
            'Theorems C19_inv / C19_exact / C19_bounded / C19_autoclose prove for every history of create / finish / restart / active_children / autoclose operations that the registry has no duplicates and contains every live worker, so active_children() yields exactly the live workers once each and retains nothing dead afterwards. Every run replays seeded histories (up to 300 operations, thread-heavy, some process workers) on real workers and on the compiled model and compares yielded sets and registry sizes, and checks the property directly against is_alive() of every created worker.',
            'Trusted: Lean kernel + standard axioms, the harness; registry operations are atomic under Worker._children_lock (stress-probed with concurrent readers); autoclose theorem is about cooperative workers (uncooperative ones are C04).',
            '§7 C19'),
}
NOT_YET = 'check not built yet in this session (work in progress; see DESIGN.md §13 for the order)'

m = {
    'version': 1,
    'setup_cmd': 'bin/setup',
    'hooks': {
        'guard': 'PYWORKERS_VERIF',
        'enable': 'none needed: the checks drive /repo through sys.settrace / sitecustomize injection and scripted peers living under /verif; PYWORKERS_VERIF=1 is exported by bin/check only to switch that injection on in spawned children',
        'baseline_off_cmd': 'cd /repo && /venv/bin/python -m pytest -ra -q -p no:cacheprovider --timeout=900 --continue-on-collection-errors',
        'source_commits': [],
        'add_only': True,
    },
    'engines': [
        {'name': 'lean-proof', 'path': 'lean/', 'serves_properties': sorted(CHECKS), 'kind_free_text': 'Lean 4.33 library PwVerif: executable models (Model/, Gen/), lemmas, one theorem file per property (Props/), compiled model driver (pwdriver)'},
        {'name': 'harness', 'path': 'harness/', 'serves_properties': sorted(CHECKS), 'kind_free_text': 'Python: translators /repo -> Lean, real-code drivers (line-level injection, scripted sockets/peers, fake pool workers), oracles, correspondence diff, verdict + evidence writer'},
    ],
    'checks': [],
    'not_applicable': [],
    'notes': 'Technique: machine-checked proof in Lean 4 about executable models, tied to /repo on every run by regeneration (Gen/) and/or a model-vs-implementation correspondence check; see DESIGN.md. Genuine defects found are in known_findings.json (fixed: entries name the fix: commit).',
}
for p in PROPS:
    i = p['id']
    if i in CHECKS:
        tech, text, note, ref = CHECKS[i]
        m['checks'].append({
            'property_id': i,
            'quick_cmd': f'bin/check {i} quick',
            'thorough_cmd': f'bin/check {i} thorough',
            'evidence_file': f'evidence/{i}.json',
            'replay_cmd_template': f'bin/check {i} --replay {{path}}',
            'engine': 'lean-proof',
            'level_claimed': {'category': 'proof', 'text': text, 'design_ref': ref},
            'level_note': note,
            'technique': tech,
        })
    else:
        m['not_applicable'].append({'property_id': i, 'reason': NOT_YET})
(V / 'MANIFEST.json').write_text(json.dumps(m, indent=1) + '\n')
print('checks:', [c['property_id'] for c in m['checks']])
