#!/usr/bin/env python3
"""Regenerates MANIFEST.json from the table below (kept here so that it stays consistent)."""
import json
from pathlib import Path

V = Path(__file__).resolve().parent.parent
PROPS = [json.loads(l) for l in (V / 'properties.jsonl').read_text().splitlines() if l.strip()]

# id -> (technique, level text, level note, design ref)
CHECKS = {
    'C10': ('Lean 4 proof (induction over message list and read fuel) + model/impl correspondence over scripted sockets',
            'Theorems C10_roundtrip / C10_truncation / C10_no_spin prove, for every message list, every body < 2^32 bytes, every cut list and every truncation offset, that the model of recv_msg returns exactly the sent messages and then reports a closed connection, and never spins. The model is hand-written; every run drives the real send_msg/recv_msg and the compiled Lean model over the same streams and cut lists (exhaustive segmentations of short streams, all boundary truncations, random cuts, garbage) and diffs them, and evaluates the property itself on the real observations.',
            'Trusted: Lean kernel, axioms {propext, Classical.choice, Quot.sound}, the scripted-socket harness, sticky EOF on stream sockets (probed on a socketpair each run). Pickling of bodies is the real code on both sides, not modelled.',
            '§7 C10'),
    'C19': ('Lean 4 proof (invariant by induction over operation histories) + model/impl correspondence on real workers',
            'Theorems C19_inv / C19_exact / C19_bounded / C19_autoclose prove for every history of create / finish / restart / active_children / autoclose operations that the registry has no duplicates and contains every live worker, so active_children() yields exactly the live workers once each and retains nothing dead afterwards. Every run replays seeded histories (up to 300 operations, thread-heavy, some process workers) on real workers and on the compiled model and compares yielded sets and registry sizes, and checks the property directly against is_alive() of every created worker.',
            'Trusted: Lean kernel + standard axioms, the harness; registry operations are atomic under Worker._children_lock (stress-probed with concurrent readers); autoclose theorem is about cooperative workers (uncooperative ones are C04).',
            '§7 C19'),
    'C13': ('Lean 4 proof (list induction for the MRO rule; complete finite table for the reducer choice) + correspondence with the real metaclass and byte-level comparison with pickle',
            'C13_mro_spec proves, for MROs of any length, that the metaclass check equals its declarative reading (Warning iff a plain __getstate__ shadows a remote-aware one; opt-in iff no class defines a reduce method and some class is remote-aware); C13_nonoptin_same / C13_remote_false / C13_flag_only_optin / C13_std_unaffected decide the complete feature table of the reducer choice. Each run feeds generated class hierarchies (chains, diamonds) to the real issubclass check and to the model, and requires remote_pickle.dumps of generated non-opt-in graphs and a menu of stdlib values to be byte-identical to pickle.dumps for protocols 2-5 and both flags.',
            'Trusted: Lean kernel + standard axioms; CPython pickle itself (traversal, lookup order) is trusted, the reducer-choice model mirrors its documented order; harness generators.',
            '§7 C13'),
    'C14': ('Lean 4 proof (mutual structural induction over object graphs, invariant over hook events) + correspondence on generated graphs; known finding for opt-in siblings',
            'The frame stack of state.py is modelled as it is. C14_loads_partial proves for graphs of any size and shape in which no opt-in object names more than one opt-in direct child that a load never trips an assertion, leaves the stack empty, and hands every opt-in object exactly its own remote state; C14_counterexample_siblings/_cycle and C14_full_false prove that the full statement fails (two opt-in siblings), which the harness reproduces on the real code and reports as KNOWN-FINDING. Each run compares model and real loads on enumerated shapes and random graphs (sharing, cycles, dict/non-dict state, with/without __setstate__, marker/duck-typed) and checks once-only remote __getstate__, restoration and graph shape.',
            'Partial: proof covers the loadable class only; the dumps side (memo: one reduce per object) and the hook order are CPython behaviour, exercised by every case, not proved. Known finding: >= 2 opt-in direct children -> AssertionError.',
            '§7 C14'),
    'C15': ('Lean 4 proof (independence, top-level delivery, counterexamples by kernel evaluation) + correspondence on generated graphs x patches, failing-load sequences and threads; known findings for positional delivery',
            'C15_independent: a load does not depend on residue of earlier loads (context.__init__ overwrites the per-thread fields); C15_top_only: an opt-in top-level object without opt-in descendants receives exactly the patches, for any patches and fields; C15_counterexample / C15_delivery_false / C15_counterexample_exit prove that delivery is positional in the current code. Each run compares the model with real loads over graphs x nested patch dicts, checks the property on every reachable object, replays failing loads (truncated stream, raising __setstate__, assertion) followed by normal loads on one thread, and runs 4 threads concurrently.',
            'Partial: the delivery clause is false for non-chain graphs (two KNOWN-FINDING classes); the general chain-delivery theorem is not proved yet (chains are covered by correspondence only). threading.local semantics trusted.',
            '§7 C15'),
    'C01': ('Lean 4 proof over run-loop programs REGENERATED from /repo on every run (complete landing-point tables decided by kernel evaluation; induction for the accessor cache) + real-code injection at every landing point',
            'The child-side run functions of the six classes are translated from the Python AST into a small statement language on every run (Gen/RunLoops.lean); C01_shape_thread/_process/_remote decide, for every target behaviour, every kind of asynchronous event (exception at the line, real terminate through the control thread, SIGKILL) and every landing point of the run, that the parent-side decode yields one of the two shapes and never has_error=None; C01_definite_thread_process and C01_stable/C01_drain_definite (induction over accessor sequences, any pipe content incl. undecodable/truncated messages) give definiteness and stability. The semantics is validated each run against real workers: traced line events and the post-mortem observation must agree at every landing point exercised (hook-raised exception, real terminate() arriving at that line, SIGKILL at that line), plus undecodable exceptions, kill while sending 8 MB, and a delayed frontend thread.',
            'Partial for the persistent kinds (their loops are unbounded: outcome shape covered by correspondence, streams by C05/C06). Trusted: Lean kernel + standard axioms; the translator pattern table (validated by the line-event correspondence); E-L1 (trace-hook delivery = asynchronous delivery at that line). Main-script-defined classes not exercised.',
            '§7 C01'),
    'C03': ('Lean 4 proof over regenerated run-loop programs (complete landing tables by kernel evaluation; counterexample theorems for the handler window) + real terminate() landed at every line event',
            'C03_in_target_* : a request landing while the target runs is reported as WorkerTerminatedError; C03_dichotomy_* : at every reachable landing point outside the run loop\'s own except handlers the outcome is either "terminated" or exactly what the worker reports when left alone; C03_full_remote: for the remote backend this holds everywhere; C03_counterexample_thread/_process: the full dichotomy is false on the current code (known finding). Every run lands a real terminate() (and, for threads, a hook-raised exception) at each line event of the six real workers and checks trace, return value of terminate, outcome, and that a try/finally inside the target runs.',
            'Partial: persistent loops by correspondence only; delivery latency between the control thread taking the request and raising is not modelled (a request is delivered at the landing point itself). Known finding: handler window.',
            '§7 C03'),
    'C07': ('executable Lean model of Pool.run\'s bookkeeping + model/implementation correspondence on the real Pool.run driven by fake workers (seeded scripts + exhaustive DFS of small configurations); invariant proofs in progress',
            'PwVerif.Pool models next_inputs / try_enqueue / handle_death (incl. its nested re-dispatch loop) / handle_new_result / first_enqueue / the event loop against an adversary (work, die with marker or EOF, poll batches, pre-run deaths, refusing enqueue_fn). Every run drives the REAL Pool.run deterministically with the same scripts and diffs outcome, result list, enqueue sequence and closed set; the property oracle (no internal error, no livelock, exactly-once results, no deadlock while something is enabled) is evaluated on every real leaf, and small configurations are explored exhaustively.',
            'The unbounded invariant theorems (conservation, FIFO agreement) are not finished: the Lean side currently contributes the executable model and witness theorems; assurance for all schedules beyond the explored ones rests on the correspondence. Known finding: enqueue_fn refusal livelock. Fake workers implement assumption E-Q1.',
            '§7 C07'),
    'C08': ('same model and driver as C07 with the failure-report oracle',
            'PoolError only with every worker dead or closed; partial/normal results duplicate-free subsets of the inputs; with retry off every missing input was handed to a worker that died - evaluated on every real leaf of the seeded and exhaustive script exploration, retry on/off, return_results on/off, pre-run deaths, poison inputs.',
            'As C07. Known finding: with retry off an input refused by the user enqueue_fn is dropped silently.',
            '§7 C08'),
    'C05': ('Lean 4 proof (induction over the enqueue list; list lemmas for the argument merge) + model/impl correspondence on real persistent workers',
            'C05_stream / C05_ends_once / C05_pristine prove for any defaults, any target function and any number of accepted enqueues that the delivered values are the target applied to the defaults overlaid with each enqueue, in order, exactly once, with counters 1..n, final counter n and exactly one end marker; merge_fewer / merge_more / kwmerge_lookup characterise the overlay for fewer / as many / more extras and for keyword overrides. Every run compares the merge with the real do_work on generated (defaults list|tuple, kwargs, mixed-shape enqueues) for thread/process/remote kinds with echo and argument-mutating targets, and exercises op sequences (enqueue/next_result/call/close/wait), enqueue after close, after wait and after the worker died on its own.',
            'The child loop of the model is hand-written (its line-level behaviour is validated through the regenerated programs in C01/C06). Values are tokens; deepcopy/pickling of values is CPython.',
            '§7 C05'),
    'C06': ('Lean 4 proof (induction over inputs for every stop point; kernel-decided tables over regenerated loop programs) + real terminate/SIGKILL landed at every line event of the three persistent kinds',
            'C06_prefix and C06_ends prove on the stream model, for any inputs and any stop (iteration, phase, graceful or SIGKILL), that the obtainable values are the first j expected ones with counters 1..j and that the message sequence is items followed by one end marker or (SIGKILL) EOF. C06_generated_* / C06_graceful_ends_* decide the same on the programs regenerated from /repo (two items) at every landing point; C06_counterexample_thread proves the lost-end-marker case (known finding). Every run lands real terminate()/SIGKILL at every line event, with results read after death, with a consumer blocked before the death, and through a raw results pipe as the Pool does.',
            'Partial: the unbounded theorems are about the hand-written stream model; the regenerated programs are covered for two items (finite instance) and by correspondence. Known finding: thread kind, terminate landing inside _cleanup with a blocked consumer.',
            '§7 C06'),
    'C16': ('Lean 4 proof over regenerated run-loop programs (complete landing tables) + real landing runs with state-assigning workers, restart chains, delayed state message',
            'C16_carried_*: whenever the parent receives a final report the state it stores is the child\'s state at the end of its life, and without a report it keeps the initial value - for every target behaviour, event kind and landing point; C16_graceful_reports_*: return, exception and graceful terminate at every reachable landing point outside the loop\'s own handlers do deliver the state. Every run uses state-assigning subclasses of the six classes: user_state read while the child is held alive at the landing point and after death is compared with the model; chains of restarts / re-creations, restart of a busy worker, assignment from the parent, and a frontend delayed between result and state message are exercised.',
            'Partial: persistent loops by correspondence; values abstracted to initial/last. Known finding: remote kind shows the final state slightly before is_alive() turns False.',
            '§7 C16'),
    'C04': ('Lean 4 proof over the blocking structure REGENERATED from /repo (T-block) + flag-machine induction + measured runs on uncooperative real children',
            'Gen/Blocking.lean lists, for every parent-side wait/terminate, each blocking call with what bounds it, the guard deriving the remote timeout, the returned expression and the negative-timeout check. C04_bounded_* / C04_factor: every blocking call is timeout-bounded, poll-guarded or a reply of the (itself bounded) server control thread, at most three timeouts in a row; C04_remote_timeout: for every timeout including 0 the server is asked to wait a finite time <= timeout, and the generated guard is the one for which this holds; C04_truthful; C04_idempotent (induction over arbitrary call sequences on dead / never-run workers). Every run executes histories of wait/terminate/is_alive/close with timeouts 0 and 0.3 on real thread/process/remote workers whose target is cooperative, swallows exceptions, sleeps, holds the GIL in C or is SIGSTOPped, each scenario in its own process, checking duration, return value against /proc liveness, immediacy on dead/never-run workers and death after a forced terminate.',
            'Partial: wall-clock behaviour, signal delivery and the kernel are measured, not proved (bound checked as 3 x timeout + 2.5 s). The T-block translator recognises join/poll/get/recv_msg/accept patterns only.',
            '§7 C04'),
    'C02': ('Lean 4 proof over regenerated run-loop programs (undisturbed run) + finite tables for the factory and the never-run rule + model/impl comparison against direct calls',
            'C02_direct_* / C02_kinds_agree: on the programs regenerated from /repo an undisturbed run of a target that returns / raises an Exception is observed by the parent exactly as the direct call\'s outcome, for thread, process and remote kinds, hence the kinds agree; C02_notrun and C02_create_table cover the never-run rule and Worker.create. The size clause is modelled by a capacity protocol: C02_delivered_thread_remote for every size, C02_process_counterexample / C02_process_partial for the process kind (known finding). Every run executes a menu of module-level targets (positional/keyword/varargs, None and falsy values, nested containers, custom class, byte strings of 0 B..1 MB (4 MB thorough) around the measured pipe capacity, four exception classes) directly and in the three kinds through the constructor and Worker.create, plus run=None/True/False and target None.',
            'Values are abstract in the Lean model (pickling is CPython). Known finding: ProcessWorker result larger than the pipe buffer deadlocks wait(). Main-script-defined classes not exercised.',
            '§7 C02'),
    'C11': ('Lean 4 proof (induction over client sessions) over the accept loop\'s exception policy REGENERATED from /repo (T-srv) + recorded client streams cut at byte offsets against a real server',
            'Gen.serverLoop lists every client-facing step of RemoteServer.run with what the enclosing try blocks do with a ConnectionClosedError; C11_policy: each is caught and the loop continues; C11_survives / C11_survives_generated / C11_serves_after: for every sequence of sessions, each vanishing at any step, the server is still accepting and serves the next client. Every run records the byte streams of the five request kinds from the real client code, cuts them at byte offsets (every 7th + all message boundaries; all in thorough) with FIN and RST, fails the control handshake at each step, also against a server whose first client is the faulty one, and after every 1-3 faulty clients checks server liveness, a fresh round trip and the healthy client\'s plain and in-context workers.',
            'Partial: what happens inside a step (the pickled worker\'s server-side __setstate__, the context helper process) is covered by the real-server runs, not by the theorem. Kernel timing of FIN/RST trusted.',
            '§7 C11'),
    'C17': ('Lean 4 proof (restart state machine, induction over later enqueues and over restart chains) + restart-argument table REGENERATED from /repo (T-tab) + real restarts from eight states',
            'C17_fresh / C17_no_old_results / C17_raises_if_stuck / C17_ok_otherwise / C17_chain: from any state a restart that does not raise gives a live open worker with the same constructor data, a new identity, counter 0 and an empty stream whose later results all belong to the new incarnation; it raises, changing nothing, exactly when the old child cannot be stopped; C17_restart_args checks the regenerated list of constructor arguments restart carries over. Every run restarts real thread/process/remote persistent workers from {never used, results unread, inputs queued, closed, died by exception, SIGKILLed, uncooperative target, killed while sending its final message} 1-3 times with own and caller-supplied pipes and with the old frontend thread still receiving.',
            'The restart machine is hand-written (tied by the real runs); pid freshness is an OS fact.',
            '§7 C17'),
    'C20': ('Lean 4 proof over the client-side handshake structure REGENERATED from /repo (T-front) + scripted fake server cutting every server-to-client byte + real-server faults',
            'Gen.frontend lists the handshake steps of RemoteWorker._run_frontend, whether each is inside the try, what the handler catches, whether it records the error and sets the start-up event and whether _start re-raises. C20_never_hangs: every step x every failure it can produce ends in the constructor raising; C20_general: the same for any handshake of any length under the generated handler properties; C20_server_answers_or_closes ties in the server side. Every run plays the server side with a scripted peer (control-address and runtime-info messages cut at byte offsets with FIN/RST, refused control connection, undecodable info), uses a real server for unknown context ids, a server SIGKILLed during construction and a backend child that dies before reporting, and kills a ProcessWorker child at line events before it reports.',
            'A peer that stays connected and silent for ever is outside the property. Model of the constructor is structural (no timing).',
            '§7 C20'),
    'C09': ('real-pool histories (model/impl judged by the property oracle); Lean side: the single-run Pool model of C07/C08 - multi-run theorems not finished',
            'Every run executes seeded histories over add_worker (ok / failing constructor / failing registration), run (incl. poison inputs), restart_workers (forced and unforced), SIGKILL / terminate of a worker, a worker stuck in an uncooperative target, and the four ways of leaving a pool, on real mixed thread/process (and remote) pools; judged: no child process outlives the pool, every run returns results of its own inputs only, a worker dead before a run is never enqueued to, restarted workers are alive, a failed add_worker leaks nothing and registers nothing.',
            'Lean coverage is partial: the bookkeeping of one run is the model of C07/C08; cross-run theorems (closed set persists, per-run reset) are not proved yet - this property currently rests on the exploration of histories. Process death is an OS fact.',
            '§7 C09'),
    'C12': ('Lean 4 proof (any registry of children, induction-free map argument) over the two shutdown paths REGENERATED from /repo + real servers with children in mixed states stopped by terminate() and SIGTERM',
            'Gen.finallyPath / Gen.sigtermPath record for the finally block of RemoteServer.run and for the SIGTERM handler whether every child and context is visited on the live registry, each child is guarded by its own try, the stop is forced and survivors are SIGTERMed. C12_reaped(_finally/_sigterm): for every registry every child is dead afterwards and every parent-side worker dead with a definite outcome; C12_parent_learns: running/idle children report WorkerTerminatedError, killed ones an error without it, finished ones keep their outcome. Every run starts real servers with 0-4 children (cooperative, swallowing, idle/busy persistent, finished, in a context), stops them by terminate(), by SIGTERM and by SIGTERM arriving during a terminate()-initiated cleanup, and checks /proc for descendants and every parent-side worker (dead, has_error, error type, no blocking).',
            'Signal delivery, reaping, the orphaned context helper noticing EOF: measured, not proved. Child states are abstract.',
            '§7 C12'),
    'C18': ('Lean 4 proof (refinement of a dictionary specification, induction over operation histories) + the same histories on a real server',
            'C18_refines: for every history of create / delete / start-worker-in-context operations the replies of the server\'s context table equal those of a dictionary of ids and the registered set is the dictionary\'s; C18_duplicate, C18_reregister, C18_unknown_harmless are its named corollaries. Every run executes seeded histories (ids 1-3, duplicates, deletes of unknown ids, workers in known and unknown contexts, faulty clients that drop inside a worker-in-context request) on a real server: replies compared with the model, workers must compute their context\'s target with its defaults (tagged per context generation), a deleted context\'s workers must end, bystanders must keep working, the server must stay alive.',
            'Context payloads are abstract in the model; "runs the context\'s target with its defaults" is established on the real server only.',
            '§7 C18'),
}
NOT_YET = 'check not built yet in this session (work in progress; see DESIGN.md §13 for the order)'

m = {
    'version': 1,
    'setup_cmd': 'bin/setup',
    'hooks': {
        'guard': 'PYWORKERS_VERIF',
        'enable': 'none needed: the checks drive /repo through sys.settrace / sitecustomize injection and scripted peers living under /verif; PYWORKERS_VERIF=1 is exported by bin/check only to switch that injection on in spawned children',
        'baseline_off_cmd': 'cd /repo && /venv/bin/python -m pytest -ra -q -p no:cacheprovider --timeout=900 --continue-on-collection-errors',
        'source_commits': [],
        'add_only': True,
    },
    'engines': [
        {'name': 'lean-proof', 'path': 'lean/', 'serves_properties': sorted(CHECKS), 'kind_free_text': 'Lean 4.33 library PwVerif: executable models (Model/, Gen/), lemmas, one theorem file per property (Props/), compiled model driver (pwdriver)'},
        {'name': 'harness', 'path': 'harness/', 'serves_properties': sorted(CHECKS), 'kind_free_text': 'Python: translators /repo -> Lean, real-code drivers (line-level injection, scripted sockets/peers, fake pool workers), oracles, correspondence diff, verdict + evidence writer'},
    ],
    'checks': [],
    'not_applicable': [],
    'notes': 'Technique: machine-checked proof in Lean 4 about executable models, tied to /repo on every run by regeneration (Gen/) and/or a model-vs-implementation correspondence check; see DESIGN.md. Genuine defects found are in known_findings.json (fixed: entries name the fix: commit).',
}
for p in PROPS:
    i = p['id']
    if i in CHECKS:
        tech, text, note, ref = CHECKS[i]
        m['checks'].append({
            'property_id': i,
            'quick_cmd': f'bin/check {i} quick',
            'thorough_cmd': f'bin/check {i} thorough',
            'evidence_file': f'evidence/{i}.json',
            'replay_cmd_template': f'bin/check {i} --replay {{path}}',
            'engine': 'lean-proof',
            'level_claimed': {'category': 'proof', 'text': text, 'design_ref': ref},
            'level_note': note,
            'technique': tech,
        })
    else:
        m['not_applicable'].append({'property_id': i, 'reason': NOT_YET})
(V / 'MANIFEST.json').write_text(json.dumps(m, indent=1) + '\n')
print('checks:', [c['property_id'] for c in m['checks']])
