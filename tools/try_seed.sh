#!/bin/bash
# try_seed.sh <patch> <check-id>... : apply a seeded change to /repo, run the quick checks, undo it (always)
P="$1"; shift
cd /repo || exit 2
trap 'git -C /repo checkout -- . ; git -C /repo status --short' EXIT
git apply "$P" || { echo "patch does not apply"; exit 2; }
for id in "$@"; do
  (cd /verif && timeout -k 5 900 setsid bin/check "$id" quick > /tmp/seed_try.log 2>&1 < /dev/null; grep -E "^VIOLATION|^KNOWN|INFRA|seed=" /tmp/seed_try.log | cut -c1-260)
done
