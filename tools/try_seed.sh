#!/bin/sh
# try_seed.sh <patch> <check-id>... : apply a seeded change to /repo, run the quick checks, undo it
P="$1"; shift
cd /repo || exit 2
git apply "$P" || { echo "patch does not apply"; exit 2; }
for id in "$@"; do
  (cd /verif && timeout -k 5 1500 bin/check "$id" quick 2>&1 | grep -E "^VIOLATION|^KNOWN|INFRA|seed=" | cut -c1-260)
done
git -C /repo checkout -- . && git -C /repo status --short
