#!/usr/bin/env python3
"""subst.py FILE OLDFILE NEWFILE — replace exactly one occurrence, preserving CRLF/LF line endings."""
import sys
p, oldf, newf = sys.argv[1:4]
s = open(p, newline='').read()
old = open(oldf).read()
new = open(newf).read()
if '\r\n' in s:
    old = old.replace('\n', '\r\n')
    new = new.replace('\n', '\r\n')
assert s.count(old) == 1, f'{s.count(old)} occurrences'
open(p, 'w', newline='').write(s.replace(old, new))
