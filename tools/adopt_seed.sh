#!/bin/bash
# adopt_seed.sh <ID> <letter> <outdir>: confirm a sub-agent's change in a FRESH scratch worktree of /repo HEAD
# (demo exit 0 clean, non-zero with the patch) and, if confirmed, store it as /verif/seeded/<ID>-<letter>.
ID="$1"; L="$2"; O="$3"
W=/tmp/pwv_adopt/${ID}_$$
mkdir -p /tmp/pwv_adopt
git -C /repo worktree add -q --detach "$W" HEAD || exit 2
trap 'git -C /repo worktree remove --force "$W"; git -C /repo worktree prune' EXIT
a=$(cd $W && PYTHONPATH=$W timeout -k 5 200 /venv/bin/python $O/demo.py > /tmp/pwv_adopt/clean.log 2>&1; echo $?)
git -C "$W" apply "$O/patch.diff" || { echo "patch does not apply"; exit 2; }
git -C "$W" diff --stat | tail -1
b=$(cd $W && PYTHONPATH=$W timeout -k 5 200 /venv/bin/python $O/demo.py > /tmp/pwv_adopt/mut.log 2>&1; echo $?)
b2=$(cd $W && PYTHONPATH=$W timeout -k 5 200 /venv/bin/python $O/demo.py > /tmp/pwv_adopt/mut2.log 2>&1; echo $?)
echo "$ID-$L clean_rc=$a mutant_rc=$b,$b2 | clean: $(tail -1 /tmp/pwv_adopt/clean.log | cut -c1-80) | mutant: $(tail -1 /tmp/pwv_adopt/mut.log | cut -c1-80)"
if [ "$a" = "0" ] && [ "$b" != "0" ] && [ "$b2" != "0" ]; then
  D=/verif/seeded/$ID-$L; mkdir -p $D
  cp $O/patch.diff $D/patch.diff; cp $O/demo.py $D/demo.py
  /venv/bin/python - "$O/meta.json" "$D/meta.json" "$ID" "$a" "$b" <<'PY'
import json, sys
src, dst, pid, a, b = sys.argv[1:6]
try: m = json.load(open(src))
except Exception: m = {}
m['property'] = pid
m['confirmed'] = {'demo_on_clean_worktree_rc': int(a), 'demo_with_patch_rc': int(b),
                  'ran': 'fresh scratch worktree of /repo HEAD: PYTHONPATH=<worktree> /venv/bin/python demo.py (clean, then twice after git apply patch.diff)'}
json.dump(m, open(dst, 'w'), indent=1)
PY
  echo stored $D
fi
