#!/usr/bin/env python3
"""Rewrite section 14 of DESIGN.md (between the SEEDS markers) from seeded/*/meta.json and seeded/SWEEP.json."""
import json
import os
import re
from pathlib import Path
V = Path(__file__).resolve().parent.parent
sw = json.loads((V / 'seeded' / 'SWEEP.json').read_text())
rows = []
for d in sorted((V / 'seeded').iterdir()):
    if not (d / 'patch.diff').exists():
        continue
    m = json.loads((d / 'meta.json').read_text())
    files = ','.join(os.path.basename(f) for f in m.get('files', [])) or ','.join(sorted(set(re.findall(r'^\+\+\+ b/pyworkers/(\S+)', (d / 'patch.diff').read_text(), re.M))))
    res = sw.get(d.name, {}).get('results', {})
    cells = []
    for c, v in sorted(res.items()):
        verdict = {0: 'MISSED', 1: 'caught', 2: 'infra'}.get(v['rc'], f"rc={v['rc']}")
        sigs = []
        for w in v.get('what', [])[:2]:
            sigs.append(w.split(' :: ')[0][:70])
        cells.append(f"{c} {verdict}" + (f" ({'; '.join(sigs)})" if sigs else ''))
    what = re.sub(r'\s+', ' ', m.get('what', ''))[:150].replace('|', '/')
    rows.append(f"| {d.name} | {files} | {what}... | {'<br>'.join(cells) or 'not swept'} |")
txt = ("| seed | file | change (first words of meta.json) | quick check of the property -> result (signature of the first replays; NFI = no-failing-input-found) |\n|---|---|---|---|\n"
       + '\n'.join(rows) + '\n')
p = V / 'DESIGN.md'
s = p.read_text()
a, b = '<!-- SEEDS-BEGIN -->\n', '<!-- SEEDS-END -->'
s = s[:s.index(a) + len(a)] + txt + s[s.index(b):]
p.write_text(s)
print(len(rows), 'seeds')
