#!/bin/bash
# run_all.sh [quick|thorough] [parallelism]: run every property's check against /repo itself (rewrites evidence/*.json)
T=${1:-quick}; J=${2:-4}
cd "$(dirname "$0")/.."
printf '%s\n' C01 C02 C03 C04 C05 C06 C07 C08 C09 C10 C11 C12 C13 C14 C15 C16 C17 C18 C19 C20 | xargs -P $J -I{} sh -c "bin/check {} $T > ${TMPDIR:-/tmp}/pwv_all_$$_{}.log 2>&1; echo {} rc=\$? \$(grep -c '^VIOLATION' ${TMPDIR:-/tmp}/pwv_all_$$_{}.log) violations \$(grep -c '^KNOWN' ${TMPDIR:-/tmp}/pwv_all_$$_{}.log) known; tail -1 ${TMPDIR:-/tmp}/pwv_all_$$_{}.log | cut -c1-160"
