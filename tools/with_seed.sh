#!/bin/bash
# with_seed.sh <seed-name|patch-file> <command...>: run a command with PYWORKERS_REPO pointing at a scratch
# worktree of /repo HEAD with the seeded change applied (never touches /repo); removes the worktree afterwards.
S="$1"; shift
P="$S"; [ -f "$P" ] || P="/verif/seeded/$S/patch.diff"
W=/tmp/pwv_ws/$(basename "$S" .diff)_$$
mkdir -p /tmp/pwv_ws
git -C /repo worktree add -q --detach "$W" HEAD || exit 2
trap 'git -C /repo worktree remove --force "$W"; git -C /repo worktree prune' EXIT
git -C "$W" apply "$P" || { echo "patch does not apply"; exit 2; }
PYWORKERS_REPO="$W" "$@"
