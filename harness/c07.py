"""C07 — Pool.run yields exactly one result per input under every schedule and death."""
from common import Ctx
import poolcheck as PC
import pool_driver as D

PROP = 'C07'

CORPUS = [
    # the schedule behind the fixed IndexError (late results of a worker declared dead while enqueueing, extra pending 1)
    (dict(n=2, inputs=[1, 2, 3, 4, 5], extra=1, retry=True, rr=True, deaths=1, refused=set(), poison=set()),
     [('w', 0), ('w', 1), ('w', 1), ('d', 1, False), ('w', 0), ('p', [1]), ('p', [0]), ('p', [0]), ('p', [1]), ('p', [1]), ('w', 0), ('p', [0]), ('w', 0), ('p', [0])]),
    # the enqueue_fn livelock (known finding): W0 dies holding 1, idle W1 refuses 1
    (dict(n=2, inputs=[1], extra=0, retry=True, rr=True, deaths=1, refused={(1, 1)}, poison=set()),
     [('d', 0, True), ('p', [0])]),
]


def main(ctx: Ctx, prop=PROP):
    ctx.assumptions += [
        'E-Q1: enqueue on a dead worker raises and is_alive() is then false; a live worker accepts; results arrive FIFO per worker; a dead worker\'s pipe ends with the end marker or EOF (fake workers implement exactly this; real workers are checked against it by C05/C06 and the thorough-tier real-pool runs)',
        'the idle-worker choice next(iter(set)) is the smallest index for the integer ids used by the fake workers; the model takes the choice as a parameter',
        'fairness: "every worker eventually answers or dies" = an enabled work/poll event is eventually taken; the deadlock oracle checks that something is enabled whenever the pool waits',
    ]
    ctx.cov['rule'] = ('adversary scripts over {work k, die k (marker|EOF), poll batch} driving the REAL Pool.run through fake workers; seeded random scripts over 1-3 workers, 0-6 inputs, '
                       'extra pending 0-2, <=3 deaths, poison inputs, refusing enqueue_fn, retry on/off + exhaustive DFS of small configurations; '
                       'non-trivial = script contains a death or a batch poll; distinct by (configuration, script)')
    ctx.lean()
    T = ctx.thorough
    rng = ctx.rng
    cases = list(CORPUS)
    for _ in range(500 if not T else 6000):
        case = PC.gen_case(rng)
        script, _ = PC.random_script(rng, case)
        cases.append((case, script))
    model = ctx.model([PC.line(c, s) for c, s in cases])
    for i, (case, script) in enumerate(cases):
        r = PC.run(case, script)
        nontrivial = any(e[0] == 'd' or (e[0] == 'p' and len(e[1]) > 1) for e in script)
        ctx.case((PC.line(case, script),), nontrivial, sample={'case': PC.line(case, script), 'outcome': r['outcome'], 'ret': r['ret']} if i % 97 == 0 else None)
        ctx.count(r['outcome'])
        ctx.count('retry' if case['retry'] else 'noretry')
        PC.oracle(ctx, prop, case, script, r)
        if model is not None:
            ctx.cov['traces_validated_against_impl'] += 1
            PC.correspond(ctx, case, script, r, model[i])
    # exhaustive DFS of small configurations on the real code
    configs = [dict(n=2, inputs=[1, 2, 3], extra=0, retry=True, rr=True, deaths=1, refused=set(), poison=set(), single_polls=True),
               dict(n=2, inputs=[1, 2, 3], extra=1, retry=prop == 'C07', rr=True, deaths=1, refused=set(), poison=set(), single_polls=True)]
    configs.append(dict(n=2, inputs=[1, 2, 3], extra=1, retry=prop == 'C07', rr=True, deaths=0, refused=set(), poison=set(), single_polls=True, pre=[('d', 0, False)]))
    # transient enqueue failures on live workers (enqueue raises once, the worker stays alive)
    configs.append(dict(n=2, inputs=[1, 2, 3], extra=0, retry=prop == 'C07', rr=True, deaths=1, refused=set(), poison=set(), single_polls=True, flaky={(0, 1), (1, 3)}))
    if T:
        configs += [dict(n=2, inputs=[1, 2, 3, 4], extra=1, retry=True, rr=True, deaths=2, refused=set(), poison=set(), single_polls=True),
                    dict(n=2, inputs=[1, 2, 3], extra=0, retry=False, rr=True, deaths=2, refused=set(), poison=set()),
                    dict(n=3, inputs=[1, 2, 3], extra=0, retry=True, rr=True, deaths=2, refused=set(), poison=set(), single_polls=True),
                    dict(n=2, inputs=[1, 2, 3, 4, 5], extra=1, retry=True, rr=True, deaths=1, refused=set(), poison=set(), single_polls=True)]
    complete_all = True
    leaves_total = 0
    leaf_cases = []
    for cfg in configs:
        def on_leaf(script, r, cfg=cfg):
            ctx.case((PC.line(cfg, script),), any(e[0] == 'd' for e in script))
            PC.oracle(ctx, prop, cfg, script, r)
            if len(leaf_cases) < 4000 and (len(leaf_cases) < 300 or ctx.rng.random() < 0.02):
                leaf_cases.append((cfg, script, r))
        leaves, complete = PC.dfs(ctx, cfg, 25 if not T else 240, on_leaf)
        leaves_total += leaves
        complete_all = complete_all and complete
        ctx.count('dfs_leaves', leaves)
    ctx.cov['dfs_complete'] = complete_all
    ctx.cov['dfs_leaves'] = leaves_total
    # correspondence on a sample of DFS leaves
    model = ctx.model([PC.line(c, s) for c, s, _ in leaf_cases])
    if model is not None:
        for (c, s, r), m in zip(leaf_cases, model):
            ctx.cov['traces_validated_against_impl'] += 1
            PC.correspond(ctx, c, s, r, m)


def _events(tokens):
    script = []
    for t in tokens:
        if t[0] == 'w':
            script.append(('w', int(t[1:])))
        elif t[0] == 'd':
            script.append(('d', int(t[1:-1]), t[-1] == 'm'))
        else:
            script.append(('p', [int(x) for x in t[1:].split('.')]))
    return script


def replay(case):
    script = _events(case['script'])
    c = dict(case)
    c['pre'] = _events(case.get('pre', []))
    c['refused'] = {tuple(x) for x in case.get('refused', [])}
    c['poison'] = set(case.get('poison', []))
    c['flaky'] = {tuple(x) for x in case.get('flaky', [])}
    r = PC.run(c, script)
    print(PC.line(c, script))
    print('real:', r['outcome'], 'ret', r['ret'], 'enq', r['enq'], 'closed', r['closed'])
