"""C09 — no worker outlives its pool; a pool stays usable across runs and restarts."""
import os
import signal
import time

from common import Ctx, watchdog
import inject
import remote_peer as RP
import pwv_targets as TG


class Boom(Exception):
    pass


def fake_chains(ctx):
    """consecutive run() calls on one pool of fake workers (the deterministic driver of C07) vs Pool.nextRun:
    what the second run does must not depend on the first one's bookkeeping"""
    import poolcheck as PC
    import pool_driver as D
    rng = ctx.rng
    chains = []
    for _ in range(120 if not ctx.thorough else 1500):
        n = rng.choice([1, 2, 2, 3])
        extra = rng.choice([0, 0, 1])
        case = dict(n=n, inputs=list(range(1, rng.randint(0, 5) + 1)), extra=extra, retry=True, rr=True,
                    deaths=rng.choice([0, 0, 1, 2]), refused=set(), poison=set(), pre=[])
        script1, r1 = PC.random_script(rng, case)
        runs = [(case['inputs'], [], script1)]
        if r1['outcome'] not in ('returned', 'poolerror'):
            continue
        for _k in range(rng.choice([1, 1, 2])):
            inputs2 = [10 * (len(runs)) + i for i in range(1, rng.randint(0, 4) + 1)]
            pre2 = []
            if rng.random() < 0.3:
                pre2 = [('d', rng.randrange(n), rng.random() < 0.5)]
            script2 = []
            deaths_left = rng.choice([0, 0, 1])
            for _ in range(40):
                outs = D.run_chain(n, runs + [(inputs2, pre2, script2)], extra=extra)
                r2 = outs[-1]
                if len(outs) < len(runs) + 1 or r2['outcome'] != 'running':
                    break
                evs = r2['env'].enabled(r2.get('present', set()), deaths_left)
                if not evs:
                    break
                ev = rng.choices(evs, [3 if e[0] == 'p' else 2 if e[0] == 'w' else 1 for e in evs])[0]
                if ev[0] == 'd':
                    deaths_left -= 1
                script2.append(ev)
            runs.append((inputs2, pre2, script2))
        chains.append((n, extra, runs))
    model = ctx.model([D.chain_line(n, runs, extra=extra) for n, extra, runs in chains])
    for i, (n, extra, runs) in enumerate(chains):
        outs = D.run_chain(n, runs, extra=extra)
        real = []
        for r in outs:
            o = 'noworkers' if (r['outcome'] == 'returned' and r.get('none') and not r['ret'] and not r['enq']) else r['outcome']
            real.append((o, r['ret'], r['enq'], r['closed']))
        line = D.chain_line(n, runs, extra=extra)
        ctx.case(('chain', line), len(runs) > 1, sample={'case': line, 'outcomes': [x[0] for x in real]} if i % 23 == 0 else None)
        ctx.count('chain-run2:' + (real[1][0] if len(real) > 1 else 'none'))
        for k, (r, (inputs, pre, script)) in enumerate(zip(outs, runs)):
            if k >= 1 and r['outcome'] == 'returned' and not r.get('none') and sorted(r['ret']) != sorted(inputs):
                ctx.fail('run-results-not-its-inputs', f'run #{k + 1} on the same pool returned {r["ret"]} for inputs {inputs} (previous runs: {[x[0] for x in real[:k]]})',
                         {'scenario': 'fake-chain', 'line': line})
            if k >= 1 and r['outcome'] == 'poolerror' and any(r['env'].alive[j] and j not in r['closed'] for j in range(n)):
                ctx.fail('later-run-poolerror-with-live-worker', f'run #{k + 1} on the same pool raised PoolError although a usable worker is alive', {'scenario': 'fake-chain', 'line': line})
            if r['outcome'].startswith('internal') or r['outcome'] == 'livelock':
                ctx.fail(f'later-run-{r["outcome"]}', f'run #{k + 1} on the same pool ended with {r["outcome"]}', {'scenario': 'fake-chain', 'line': line})
        if model is not None:
            ctx.cov['traces_validated_against_impl'] += 1
            ms = [D.parse_model(x) for x in model[i].split(' || ')]
            got = [(o, ret, enq, closed) for o, ret, enq, closed in real]
            exp = [(o, ret, enq, closed) for o, ret, enq, closed in ms][:len(got)]
            if got != exp:
                ctx.broke('correspondence', 'Pool.nextRun vs consecutive Pool.run calls', f'{line}\n model={model[i]}\n impl ={real}')


def gen_history(rng, remote_ok):
    kinds = ['thread', 'process', 'process'] + (['remote'] if remote_ok else [])
    h = ([('run', [rng.randint(0, 9)])] if rng.random() < 0.15 else []) + [('add', rng.choice(kinds), 'ok') for _ in range(rng.randint(1, 3))]
    for _ in range(rng.randint(1, 4)):
        r = rng.random()
        if r < 0.35:
            n = rng.randint(0, 6)
            poison = rng.random() < 0.25
            h.append(('run', [rng.randint(0, 9) for _ in range(n)] + ([rng.choice([-1, -2])] if poison else [])))
        elif r < 0.5:
            h.append(('restart',) if rng.random() < 0.6 else ('restart', 'noforce'))
        elif r < 0.62:
            h.append(('kill', rng.randrange(3)))
        elif r < 0.72:
            h.append(('stuck', rng.randrange(3)))
        elif r < 0.86:
            h.append(('add', rng.choice(kinds), rng.choice(['ok', 'ctor-fails', 'registration-fails'])))
        else:
            h.append(('run', [rng.randint(0, 9) for _ in range(rng.randint(1, 4))]))
    # a run() while a worker is stuck in an uncooperative target never ends - legitimately: C07/C09 presuppose that every
    # worker eventually answers or dies. Such a run is replaced by a forced restart (which must get rid of the stuck child).
    stuck_pending = False
    for i, op in enumerate(h):
        if op[0] == 'stuck':
            stuck_pending = True
        elif op[0] == 'restart' and len(op) == 1:
            stuck_pending = False
        elif op[0] == 'run' and stuck_pending:
            h[i] = ('restart',)
            stuck_pending = False
    h.append(('exit', rng.choice(['normal', 'exception', 'close', 'terminate'])))
    return h


def run_history(hist, sess):
    from pyworkers.pool import Pool, PoolError
    from pyworkers.worker import WorkerType

    class P(Pool):
        fail_next = False

        def handle_new_worker(self, worker):
            if self.fail_next:
                self.fail_next = False
                raise Boom('registration refused')
    fails = []
    pids = []          # (kind, pid) of every child process ever started for this pool
    all_workers = []
    pool = P(TG.t_pool, close_timeout=0.5)
    stuck = set()
    killed = set()
    exit_how = hist[-1][1]

    def note_pids():
        for w in list(pool.workers):
            if not w.is_thread and w not in all_workers:
                pass
        for w in list(pool.workers):
            if w not in all_workers:
                all_workers.append(w)
            if not w.is_thread and (w.pid, w) not in pids:
                pids.append((w.pid, w))
    try:
        try:
            for step, op in enumerate(hist[:-1]):
                if op[0] == 'add':
                    wt = {'thread': WorkerType.THREAD, 'process': WorkerType.PROCESS, 'remote': WorkerType.REMOTE}[op[1]]
                    kw = {'host': sess.addr(), 'main_path': ''} if op[1] == 'remote' else {}
                    before = set(map(id, pool.workers))
                    if op[2] == 'ok':
                        pool.add_worker(wt, **kw)
                    elif op[2] == 'ctor-fails':
                        try:
                            pool.add_worker(wt, target=5, **kw)        # not callable: the constructor raises
                            fails.append(('add-accepted-bad-target', 'add_worker with a non-callable target succeeded', step))
                        except ValueError:
                            pass
                    else:
                        pool.fail_next = True
                        children_before = set(RP.descendants(os.getpid()))
                        try:
                            pool.add_worker(wt, **kw)
                            fails.append(('registration-failure-ignored', 'handle_new_worker raised but add_worker returned', step))
                        except Boom:
                            pass
                        time.sleep(0.3)
                        leaked = [p for p in set(RP.descendants(os.getpid())) - children_before]
                        # (a remote worker's child lives under the server, a process worker's under us)
                        if leaked and op[1] == 'process':
                            fails.append((f'failed-add-leaks:{op[1]}', f'add_worker whose registration failed left child processes {leaked} behind', step))
                        if set(map(id, pool.workers)) != before:
                            fails.append(('failed-add-registered', 'a worker whose registration failed is still in the pool', step))
                    note_pids()
                elif op[0] == 'run':
                    inputs = op[1]
                    dead_before = {id(w) for w in pool.workers if not w.is_alive()}
                    fed = []
                    st, r = watchdog(lambda: pool.run(iter(inputs), worker_callback=lambda w, ev, *a: fed.append((id(w), ev)) if ev == 'enqueued' else None), 40)
                    if st == 'hang':
                        fails.append(('run-hangs', f'run({inputs}) did not return within 40 s', step))
                        break
                    alive_now = [w for w in pool.workers if w.is_alive() and w not in stuck]
                    if st == 'exc' and not isinstance(r, PoolError):
                        fails.append((f'run-raised:{type(r).__name__}', f'run({inputs}) raised {type(r).__name__}: {r}', step))
                    elif st == 'exc':
                        got = sorted(r.partial_results or [])
                        if not set(got) <= {x * x for x in inputs if x >= 0}:
                            fails.append(('partial-results-foreign', f'run({inputs}): partial results {got} contain values of other runs', step))
                        if any(w.is_alive() and w not in stuck for w in pool.workers) and min(inputs, default=0) >= 0:
                            fails.append(('poolerror-with-live-workers', f'run({inputs}) raised PoolError although usable workers are alive', step))
                    elif r is not None:
                        exp = sorted(x * x for x in inputs if x >= 0)
                        # a poison input kills every worker it reaches: it is retried until nobody is left -> PoolError expected instead
                        if sorted(r) != exp:
                            fails.append(('results-of-other-run' if not set(r) <= set(exp) else 'results-missing', f'run({inputs}) returned {sorted(r)}, expected {exp}', step))
                    for wid, ev in fed:
                        if wid in dead_before:
                            fails.append(('dead-worker-fed', f'run({inputs}) enqueued to a worker that was dead before the run started', step))
                            break
                elif op[0] == 'restart':
                    noforce = len(op) > 1
                    st, r = watchdog(lambda: pool.restart_workers(timeout=0.5, **({'force': False} if noforce else {})), 40)
                    if st == 'exc' and noforce and stuck and isinstance(r, RuntimeError):
                        pass          # a stuck worker cannot be restarted without force: raising is the documented outcome
                    elif st == 'exc' and not any(w in stuck and w.is_thread for w in pool.workers):
                        fails.append((f'restart-raised:{type(r).__name__}', f'restart_workers raised {type(r).__name__}: {r}', step))
                    if st == 'ok':
                        stuck.clear()
                        killed.clear()
                        for w in pool.workers:
                            if not w.is_alive():
                                fails.append(('restarted-worker-dead', 'a worker is dead right after restart_workers()', step))
                    note_pids()
                elif op[0] in ('kill', 'stuck'):
                    ws = list(pool.workers)
                    if not ws:
                        continue
                    w = ws[op[1] % len(ws)]
                    if op[0] == 'kill':
                        if w.is_thread:
                            w.terminate(1)
                        elif w.is_alive():
                            try:
                                os.kill(w.pid, signal.SIGKILL)
                            except ProcessLookupError:
                                pass
                            time.sleep(0.2)
                        killed.add(w)
                    elif w.is_alive() and not w.is_thread:       # (a stuck thread worker cannot be stopped by anybody)
                        try:
                            w.enqueue('hang')
                            stuck.add(w)
                            time.sleep(0.2)
                        except Exception:
                            pass
            if exit_how == 'exception':
                try:
                    with pool:
                        raise Boom('in the with body')
                except Boom:
                    pass
            elif exit_how == 'normal':
                with pool:
                    pass
            elif exit_how == 'close':
                watchdog(pool.close, 60)
            else:
                watchdog(pool.terminate, 60)
        except Exception as e:  # noqa
            fails.append((f'history-raised:{type(e).__name__}', f'{type(e).__name__}: {e}', -1))
        # ---- nobody outlives the pool
        time.sleep(0.3)
        for pid, w in pids:
            if RP.pid_alive(pid):
                fails.append((f'child-outlives-pool:{"remote" if w.is_remote else "process"}:{exit_how}', f'child process {pid} of a pool worker is still running after the pool was left by {exit_how}', len(hist) - 1))
        for w in all_workers:
            st, alive = watchdog(w.is_alive, 10)
            if (st != 'ok' or alive) and not w.is_thread:
                fails.append((f'worker-alive-after-exit:{exit_how}', f'{w} is_alive() -> {alive} ({st}) after the pool was left by {exit_how}', len(hist) - 1))
    finally:
        for pid, w in pids:
            try:
                os.kill(pid, signal.SIGKILL)
            except Exception:
                pass
    return fails


def interrupted_close(ctx):
    """Ctrl-C while close() is waiting for busy workers (inside a with-block): nobody may outlive the pool"""
    import json
    import subprocess
    import sys
    from pathlib import Path
    for how in ('with', 'close-again'):
        from common import run_isolated
        rc_, out_, err_, timed_out_ = run_isolated([sys.executable, str(Path(__file__).resolve().parent / 'c09_case.py'), 'interrupted-close', how], 90)
        lines = [l for l in out_.splitlines() if l.startswith('RESULT ')]
        res = json.loads(lines[-1][7:]) if lines else ({'hang': True} if timed_out_ else {'crash': (out_ + err_)[-300:]})
        ctx.case(('interrupted-close', how), True, sample={'case': 'KeyboardInterrupt during Pool.close() with busy workers', 'then': how, 'observed': res})
        if res.get('hang') or res.get('crash'):
            ctx.fail(f'interrupted-close-{"hangs" if res.get("hang") else "crashed"}:{how}', f'close() interrupted by Ctrl-C ({how}): {res}', {'scenario': 'interrupted-close', 'how': how})
        elif not res.get('interrupted'):
            ctx.notes.append(f'interrupted-close ({how}): the interrupt did not arrive during close() - scenario not exercised')
        elif res.get('alive_pids') or res.get('alive_workers'):
            ctx.fail(f'child-outlives-pool:process:interrupted-close:{how}', f'Ctrl-C arrived while close() was waiting for busy workers; after '
                     f'{"the with-block was left through the exception" if how == "with" else "the with-block was left and terminate() was called again"} '
                     f'worker processes {res.get("alive_pids")} are still running', {'scenario': 'interrupted-close', 'how': how})


def main(ctx: Ctx):
    ctx.assumptions += [
        'process death and reaping are OS facts: checked in /proc 0.3 s after the pool was left',
        'an uncooperative thread worker cannot be stopped by anybody: histories make only process/remote workers stuck',
        'bookkeeping of a single run is C07/C08\'s subject (fake workers); here real workers are used and only per-run result sets, liveness and leaks are judged',
    ]
    ctx.cov['rule'] = ('seeded histories (<= 8 ops) over {add_worker ok / constructor fails / registration fails, run(inputs incl. poison), restart_workers, SIGKILL or terminate a worker, make a worker stuck in an uncooperative target, '
                       'leave the with-block normally / by exception, close(), terminate()} on real mixed thread/process pools (remote in some histories); non-trivial = history contains a death, a stuck worker, a failed add or a restart; distinct by history')
    import translate
    errors, _ = translate.regenerate_poolreset()      # T-reset: Gen/PoolReset.lean from the prologue of Pool.run
    for e in errors:
        ctx.broke('translation', 'harness/translate.py (T-reset)', e)
    errors, _ = translate.regenerate_registry()       # T-reg: Gen/PoolRegistry.lean from add_worker / restart_workers / _close
    for e in errors:
        ctx.broke('translation', 'harness/translate.py (T-reg)', e)
    ctx.lean()
    fake_chains(ctx)
    T = ctx.thorough
    rng = ctx.rng
    hists = [
        [('add', 'process', 'ok'), ('add', 'thread', 'ok'), ('run', [1, 2, 3]), ('kill', 0), ('run', [4, 5]), ('restart',), ('run', [6, 7, 8]), ('exit', 'normal')],
        [('add', 'process', 'ok'), ('add', 'process', 'ok'), ('stuck', 0), ('exit', 'exception')],
        [('add', 'process', 'ok'), ('add', 'process', 'registration-fails'), ('run', [1, 2]), ('exit', 'close')],
        [('add', 'process', 'ok'), ('add', 'process', 'ok'), ('run', [1, 2]), ('stuck', 1), ('restart', 'noforce'), ('exit', 'normal')],
        [('add', 'process', 'ok'), ('add', 'process', 'ok'), ('run', [0, 0, -1]), ('restart',), ('run', [1, 2, 4]), ('exit', 'terminate')],
        # run() on a pool that has no usable worker (none added yet / everybody dead) returns at once - and leaves the pool usable
        [('run', [1, 2]), ('add', 'process', 'ok'), ('run', [1, 2]), ('restart',), ('run', [3]), ('exit', 'normal')],
        [('add', 'process', 'ok'), ('kill', 0), ('run', [1]), ('run', [2]), ('add', 'process', 'ok'), ('run', [4, 5]), ('restart',), ('exit', 'close')],
        # a restarted worker is SIGKILLed in the middle of a run (no end marker): the run must still come to an end
        [('add', 'process', 'ok'), ('add', 'process', 'ok'), ('add', 'process', 'ok'), ('restart',), ('run', [1, -2, 3]), ('exit', 'normal')],
        [('add', 'process', 'ok'), ('add', 'process', 'ok'), ('run', [5, -2]), ('exit', 'close')],
    ]
    hists += [gen_history(rng, remote_ok=(i % 4 == 0)) for i in range(8 if not T else 80)]
    interrupted_close(ctx)
    sess = inject.Session()
    try:
        for hi, h in enumerate(hists):
            sess.write_conf(None)
            st, fails = watchdog(lambda: run_history(h, sess), 180)
            nontrivial = any(o[0] in ('kill', 'stuck', 'restart') or (o[0] == 'add' and o[2] != 'ok') for o in h)
            ctx.case(repr(h), nontrivial, sample={'history': h, 'failures': fails if st == 'ok' else st} if hi < 3 else None)
            ctx.count('ops', len(h))
            if st != 'ok':
                ctx.fail('history-hangs', f'history {h} did not finish within 180 s', {'history': h})
                continue
            for sig, what, step in fails:
                ctx.fail(sig, f'history {h}: {what} (op #{step})', {'history': h, 'step': step})
    finally:
        sess.close()


def replay(case):
    if case.get('scenario') == 'interrupted-close':
        class C:
            def case(self, *a, **k): print('observed', k.get('sample'))
            def fail(self, sig, what, desc): print('FAIL', sig, what)
            notes = []
        interrupted_close(C())
        return
    sess = inject.Session()
    try:
        print(run_history([tuple(o) if not isinstance(o, tuple) else o for o in map(lambda o: tuple(o), case['history'])], sess))
    finally:
        sess.close()
