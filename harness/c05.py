"""C05 — persistent workers process each enqueue exactly once, in order, merged args."""
import os
import queue
import time

from common import Ctx, watchdog
import inject
import pwv_targets as TG

KINDS = {'thread': ('pyworkers.persistent_thread', 'PersistentThreadWorker'),
         'process': ('pyworkers.persistent_process', 'PersistentProcessWorker'),
         'remote': ('pyworkers.persistent_remote', 'PersistentRemoteWorker')}


_ctx_ids = iter(range(7000, 10**9))


def mk(kind, sess, target, **kw):
    """kind 'remote-ctx': a PersistentRemoteWorker created inside a RemoteContext that carries the target and the
    defaults (the worker is rebuilt on the server by RemoteContext._create_worker, not by its own constructor)"""
    sess.write_conf(None)
    if kind == 'remote-ctx':
        from pyworkers.remote_context import RemoteContext
        from pyworkers.persistent_remote import PersistentRemoteWorker
        cid = next(_ctx_ids)
        ctx = RemoteContext(cid, host=sess.addr(), target=target, args=kw.get('args'), kwargs=kw.get('kwargs'))
        try:
            w = PersistentRemoteWorker(None, host=sess.addr(), context=cid, main_path='')
        except BaseException:
            watchdog(ctx.wait, 10)
            raise
        w._pwv_ctx = ctx
        return w
    mod, name = KINDS[kind]
    cls = getattr(__import__(mod, fromlist=[name]), name)
    if kind == 'remote':
        kw.update(host=sess.addr(), main_path='')
    return cls(target, **kw)


def drop(w):
    """end a worker made by mk() and the context it may live in"""
    try:
        if w.is_alive():
            w.terminate(0.5)
    except Exception:
        pass
    c = getattr(w, '_pwv_ctx', None)
    if c is not None:
        watchdog(c.wait, 10)


def expected(d, kd, e_args, e_kw):
    return (list(e_args) + list(d)[len(e_args):], {**kd, **e_kw})


def gen_case(rng):
    d = [rng.randint(1, 9) for _ in range(rng.randint(0, 3))]
    as_tuple = rng.random() < 0.4
    kd = {k: rng.randint(1, 9) for k in rng.sample([1, 2, 3], rng.randint(0, 2))}
    enqs = []
    for _ in range(rng.randint(1, 8)):
        a = [rng.randint(10, 99) for _ in range(rng.choice([0, 0, 1, 1, 2, 3, 4]))]
        k = {kk: rng.randint(10, 99) for kk in rng.sample([1, 2, 3, 4], rng.choice([0, 0, 1, 2]))}
        enqs.append((a, k))
    return d, as_tuple, kd, enqs


def model_line(d, kd, enqs):
    def csv(l):
        return ','.join(map(str, l)) or '-'

    def kv(m):
        return ','.join(f'{k}:{v}' for k, v in m.items()) or '-'
    return 'c05 %s %s %s' % (csv(d), kv(kd), ' '.join(f'{csv(a)};{kv(k)}' for a, k in enqs))


def parse_model(line):
    out = []
    for part in line.split('|'):
        a, _, k = part.partition(';')
        out.append(([int(x) for x in a.split(',') if x], {int(x.split(':')[0]): int(x.split(':')[1]) for x in k.split(',') if x}))
    return out


def run_preempted_reader(sess, kind, point):
    """enqueue(7); close(); then successive next_result(timeout=5) calls, the first of which is preempted at `point` until the
    child is gone. Returns the list of values / 'END' obtained by up to four calls."""
    import queue
    gate = os.path.join(sess.dir, f'gate{next(_ctx_ids)}')
    w = mk(kind, sess, TG.f_gate)
    state = {'armed': False}

    def preempt():
        if not state['armed']:
            return
        state['armed'] = False
        open(gate, 'w').close()
        watchdog(lambda: w.wait(8), 12)

    ep = w.results_endpoint
    if point == 'is_alive':
        orig = w.is_alive
        w.is_alive = lambda *a, **k: (preempt(), orig(*a, **k))[1]
    else:
        orig = getattr(ep, point)
        try:
            setattr(ep, point, lambda *a, **k: (preempt(), orig(*a, **k))[1])
        except AttributeError:
            drop(w)
            return None
    got = []
    try:
        w.enqueue(gate, 7)
        w.close()
        state['armed'] = True
        for _ in range(4):
            st, v = watchdog(lambda: w.next_result(timeout=1.5 if state['armed'] else 5), 12)
            got.append(v if st == 'ok' else ('END' if st == 'exc' and isinstance(v, queue.Empty) else (st if st != 'exc' else repr(v))))
            if state['armed']:
                # the first call did not make this observation (e.g. it waited in a blocking read): nothing to judge
                return 'not-reached'
            if len(got) >= 3:
                break
    finally:
        open(gate, 'w').close()
        try:
            if point == 'is_alive':
                del w.is_alive
        except Exception:
            pass
        drop(w)
    return got


def preempted_reader(ctx, sess, kind, point):
    got = run_preempted_reader(sess, kind, point)
    if got is None or got == 'not-reached':
        ctx.count(f'preempted-reader-not-reached:{point}')
        return
    ctx.case(('preempted-reader', kind, point), True, sample={'case': 'next_result() preempted until the child is gone', 'kind': kind, 'at': point, 'successive_calls': got})
    if got[:2] != [49, 'END'] or any(g != 'END' for g in got[2:]):
        ctx.fail(f'stream-ends-early:{kind}:preempted-reader', f'{kind}: enqueue(7), close(), then next_result() preempted at its `{point}` observation until the child had ended: successive calls gave {got} instead of [49, END, END...]',
                 {'kind': kind, 'scenario': 'preempted-reader', 'point': point})


def main(ctx: Ctx):
    ctx.assumptions += [
        'arguments are tokens (ints): deepcopy / pickling of the values themselves is CPython\'s business',
        'the child loop of Stream.lean is the hand-written shape of the three do_work loops; their line-level behaviour is validated by the injection harness (C01/C06)',
    ]
    ctx.cov['rule'] = ('seeded (defaults list|tuple of length 0-3, default kwargs, 1-8 enqueues with 0-4 positional and 0-2 keyword extras) on thread and process kinds (remote: fewer in quick, all in thorough); '
                       'op sequences interleaving enqueue / next_result / close / wait / call; argument-mutating target; enqueue after close and after death; '
                       'non-trivial = enqueues of different shapes in one sequence; distinct by (defaults, enqueues)')
    import translate
    errors, _ = translate.regenerate_consumer()      # T-next: Gen/Consumer.lean from PersistentWorker.next_result
    for e in errors:
        ctx.broke('translation', 'harness/translate.py (T-next)', e)
    ctx.lean()
    T = ctx.thorough
    rng = ctx.rng
    sess = inject.Session()
    try:
        cases = [gen_case(rng) for _ in range(45 if not T else 400)]
        # corpus: tuple defaults (fixed defect); shrinking extras after larger ones (stale-override mutants)
        cases.insert(0, ([1, 2], True, {}, [([5], {})]))
        cases.insert(1, ([1, 2, 3], False, {1: 0}, [([10, 20], {1: 7}), ([5], {}), ([], {})]))
        model = ctx.model([model_line(d, kd, e) for d, _, kd, e in cases])
        for ci, (d, as_tuple, kd, enqs) in enumerate(cases):
            kinds = ['thread', 'process'] + (['remote'] if (T or ci % 6 == 0) else []) + (['remote-ctx'] if (T or ci % 6 in (0, 3)) else [])
            exp = [expected(d, kd, a, k) for a, k in enqs]
            shapes = len({(len(a), tuple(sorted(k))) for a, k in enqs})
            for kind in kinds:
                target = TG.t_echo_mutating if ci % 3 == 0 else TG.t_echo
                w = mk(kind, sess, target, args=(tuple(d) if as_tuple else list(d)), kwargs={f'k{k}': v for k, v in kd.items()})
                got, err = [], None
                try:
                    for a, k in enqs:
                        w.enqueue(*a, **{f'k{kk}': v for kk, v in k.items()})
                    st, r = watchdog(lambda: w.wait(10), 20)
                    st2, got = watchdog(lambda: list(w.results_iter()), 10)
                    count = w.result
                    herr = w.has_error
                except Exception as e:  # noqa
                    err = f'{type(e).__name__}: {e}'
                    count, herr, st, r, st2 = None, None, None, None, None
                finally:
                    drop(w)
                ctx.case((kind, tuple(d), as_tuple, tuple(sorted(kd.items())), repr(enqs)), shapes >= 2,
                         sample={'kind': kind, 'defaults': d, 'tuple': as_tuple, 'kwdefaults': kd, 'enqueues': enqs, 'got': repr(got)[:200]} if (ci * 3) % 37 == 0 else None)
                ctx.count(kind)
                desc = {'kind': kind, 'defaults': d, 'tuple_defaults': as_tuple, 'kwdefaults': kd, 'enqueues': enqs, 'mutating_target': target is TG.t_echo_mutating}
                norm = None
                if err or st != 'ok' or r is not True or st2 != 'ok':
                    ctx.fail(f'run-failed:{kind}', f'{kind}: defaults {d} enqueues {enqs}: {err or (st, r, st2)}', desc)
                else:
                    norm = [(list(a), {int(k[1:]): v for k, v in kw.items() if k != 'mutated'}) for a, kw in got]
                    if norm != exp:
                        why = 'count' if len(norm) != len(exp) else 'values'
                        ctx.fail(f'stream-{why}:{kind}', f'{kind}: defaults {d} {kd}, enqueues {enqs}: results {norm} instead of {exp}', desc)
                    if count != len(enqs) or herr is not False:
                        ctx.fail(f'final-count:{kind}', f'{kind}: result={count} has_error={herr} after {len(enqs)} enqueues', desc)
                if model is not None and norm is not None:
                    ctx.cov['traces_validated_against_impl'] += 1
                    if parse_model(model[ci]) != norm:
                        ctx.broke('correspondence', 'Stream.merge/kwmerge vs do_work', f'{model_line(d, kd, enqs)}\n model={model[ci]}\n impl ={norm}')
        # ---- op sequences: enqueue / next_result / call / close / wait
        for kind in ['thread', 'process'] + (['remote'] if T else ['remote']):
            for rep in range(3 if not T else 20):
                w = mk(kind, sess, TG.t_fail_on_neg)
                log, outstanding, sent, recvd = [], 0, [], []
                desc = {'kind': kind, 'scenario': 'op-sequence', 'seq': log}
                try:
                    for _ in range(rng.randint(4, 10)):
                        op = rng.choice(['enq', 'enq', 'next', 'call'])
                        if op == 'enq':
                            x = rng.randint(0, 9)
                            w.enqueue(x)
                            sent.append(x)
                            outstanding += 1
                            log.append(('enq', x))
                        elif op == 'next' and outstanding:
                            st, v = watchdog(w.next_result, 10)
                            recvd.append(v)
                            outstanding -= 1
                            log.append(('next', v))
                        elif op == 'call' and outstanding == 0:
                            x = rng.randint(0, 9)
                            st, v = watchdog(lambda: w.call(x), 10)
                            sent.append(x)
                            recvd.append(v)
                            log.append(('call', x, v))
                    w.close()
                    try:
                        w.enqueue(1)
                        ctx.fail(f'enqueue-after-close:{kind}', f'{kind}: enqueue after close() was accepted', desc)
                    except Exception as e:
                        if type(e).__name__ != 'WorkerClosedError':
                            ctx.fail(f'enqueue-after-close:{kind}', f'{kind}: enqueue after close() raised {type(e).__name__}', desc)
                    watchdog(lambda: w.wait(10), 20)
                    st, rest = watchdog(lambda: list(w.results_iter()), 10)
                    recvd += rest if st == 'ok' else ['HANG']
                    ctx.case(('seq', kind, tuple(log)), True)
                    if recvd != [x * x for x in sent] or w.result != len(sent):
                        ctx.fail(f'op-sequence:{kind}', f'{kind}: sequence {log}: got {recvd} for inputs {sent}, result={w.result}', desc)
                    try:
                        w.enqueue(1)
                        ctx.fail(f'enqueue-after-death:{kind}', f'{kind}: enqueue after wait() was accepted', desc)
                    except Exception as e:
                        if type(e).__name__ != 'WorkerClosedError':
                            ctx.fail(f'enqueue-after-death:{kind}', f'{kind}: enqueue after death raised {type(e).__name__}', desc)
                finally:
                    try:
                        if w.is_alive():
                            w.terminate(0.5)
                    except Exception:
                        pass
            # reads issued after close() / after a wait() that timed out, while the worker is still busy with accepted inputs
            for how in ('close', 'wait-timeout'):
                w = mk(kind, sess, TG.t_slow_sq)
                try:
                    for x in (1, 2, 3):
                        w.enqueue(x)
                    if how == 'close':
                        w.close()
                    else:
                        watchdog(lambda: w.wait(0.05), 10)
                    st, first = watchdog(lambda: list(w.results_iter()), 15)
                    watchdog(lambda: w.wait(10), 20)
                    st2, late = watchdog(lambda: list(w.results_iter()), 10)
                    ctx.case(('read-after-' + how, kind), True, sample={'case': f'results_iter() right after {how} while the worker is busy', 'kind': kind, 'first': first, 'later': late})
                    if st != 'ok' or first != [1, 4, 9] or late != [] or w.result != 3:
                        ctx.fail(f'read-after-{how}:{kind}', f'{kind}: 3 slow inputs enqueued, then {how}: results_iter() gave {first if st == "ok" else st}, after wait() a second results_iter() gave {late}, result={w.result} '
                                 f'(expected [1, 4, 9], then nothing, 3)', {'kind': kind, 'scenario': 'read-after-' + how})
                finally:
                    try:
                        if w.is_alive():
                            w.terminate(0.5)
                    except Exception:
                        pass
            # a reader preempted inside next_result(): wherever the call observes the worker (is it alive? is there a message?),
            # the caller is held until the child has delivered its last result, written the end marker and ended
            for point in ('is_alive', 'get_nowait', 'get'):
                preempted_reader(ctx, sess, kind, point)
            # the worker dies on its own (target raises): the owner only drains results_iter(), then enqueues again
            w = mk(kind, sess, TG.t_fail_on_neg)
            for x in (1, 2, -1):
                w.enqueue(x)
            st, vals = watchdog(lambda: list(w.results_iter()), 15)
            time.sleep(0.8)
            try:
                w.enqueue(5)
                accepted = True
            except Exception as e:
                accepted = type(e).__name__
            ctx.case(('enqueue-after-own-death', kind), True, sample={'case': 'enqueue after the worker died on its own', 'kind': kind, 'drained': vals, 'enqueue': accepted})
            if accepted != 'WorkerClosedError' or vals != [1, 4]:
                ctx.fail(f'enqueue-after-own-death:{kind}', f'{kind}: worker died on input -1 (drained {vals}); a later enqueue gave {accepted} instead of WorkerClosedError', {'kind': kind, 'scenario': 'enqueue-after-own-death'})
            try:
                w.terminate(0.5)
            except Exception:
                pass
    finally:
        sess.close()


def replay(case):
    print(case)
    if case.get('scenario') == 'preempted-reader':
        sess = inject.Session()
        try:
            print('successive next_result() calls:', run_preempted_reader(sess, case['kind'], case['point']), '(expected [49, END, END...])')
        finally:
            sess.close()
