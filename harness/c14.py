"""C14 — every opt-in object is serialised remotely exactly once and restored; loading always succeeds."""
from common import Ctx
import frames as F


def check_graph(ctx, spec, model_line, idx):
    res = F.run_real(spec)
    opts = F.opt_nodes(spec)
    sib = F.has_siblings(spec)
    shape_class = 'siblings' if sib else ('nondict' if any(o[2] == 'T' for o in opts) else 'plain')
    nontrivial = len(opts) >= 1
    ctx.case(F.model_graph(spec), nontrivial, sample={'graph': F.model_graph(spec), 'status': res['status'], 'error': res.get('error')} if idx % 211 == 0 else None)
    ctx.count('opt_nodes=%d' % len(opts))
    ctx.count('class=' + shape_class)
    case = {'graph': spec}
    # ---- oracle
    if res['status'] != 'ok':
        ctx.fail(f'load-fails:{shape_class}:{res.get("error", res["status"]).split(":")[0]}',
                 f'remote_pickle round trip of {F.model_graph(spec)} fails with {res.get("error")}', case)
    else:
        ids = [o[1] for o in opts]
        gets = res['gets']
        if sorted(i for i, _ in gets) != sorted(ids) or not all(r is True for _, r in gets):
            ctx.fail(f'getstate-calls:{shape_class}', f'__getstate__ calls {gets} for opt-in objects {ids}', case)
        with_set = {o[1] for o in opts if o[2] in ('T', 0, 2)}
        set_ids = [i for i, _ in res['sets']]
        if sorted(set_ids) != sorted(with_set):
            ctx.fail(f'setstate-calls:{shape_class}', f'__setstate__ called for {set_ids}, expected once for each of {sorted(with_set)}', case)
        for o in opts:
            own = F.own_state(o)
            for i, st in res['sets']:
                if i == o[1] and st != own:
                    ctx.fail(f'setstate-state:{shape_class}', f'object {i} restored from {st} instead of its own state {own}', case)
        if not res.get('shape_ok'):
            ctx.fail(f'shape:{shape_class}', 'restored graph differs in structure/sharing from the original', case)
    # ---- correspondence
    if model_line is not None:
        ctx.cov['traces_validated_against_impl'] += 1
        m = F.parse_model(model_line)
        if m[0] == 'err':
            ok = res['status'] == 'load-error' and res['error'] in ('AssertionError', 'IndexError')
        else:
            with_set = {o[1] for o in opts if o[2] in ('T', 0, 2)}
            ok = res['status'] == 'ok' and [i for i, _ in m[1] if i in with_set] == [i for i, _ in res['sets']]
        if not ok and not (sib and res['status'] == 'ok'):   # inside the known-finding class only 'fails as recorded or passes' is checked
            ctx.broke('correspondence', 'Frames.load vs remote_pickle.loads', f'graph={F.model_graph(spec)} model={model_line} impl={res["status"]} {res.get("error")} sets={res.get("sets")}')


class Recorder:
    """opt-in class whose state (plain and remote) is whatever `VALUE` says; __setstate__ records what it was given"""
    VALUE = None

    def __getstate__(self, remote=False):
        return type(self).VALUE

    def __setstate__(self, state):
        self.got = ('set', state)


class RecorderNoSet:
    """the same without a __setstate__ (dict states only)"""
    VALUE = None

    def __getstate__(self, remote=False):
        return type(self).VALUE


class WithSetterProp(F.SupportRemoteGetState):
    """no __setstate__; a property with a setter is named like a key of the instance dictionary: standard unpickling
    puts the dictionary part of a state straight into __dict__ and never goes through the setter"""

    def __init__(self, percent):
        self.rate = percent

    @property
    def rate(self):
        return self.__dict__['rate']

    @rate.setter
    def rate(self, percent):
        self.__dict__['rate'] = percent / 100.0

    def __getstate__(self, remote=False):
        return dict(self.__dict__)


class WithReadOnlyProp(F.SupportRemoteGetState):
    def __init__(self, v):
        self.__dict__['limit'] = v

    @property
    def limit(self):
        return self.__dict__['limit']

    def __getstate__(self, remote=False):
        return dict(self.__dict__)


def descriptor_states(ctx):
    """opt-in classes without __setstate__ whose attributes are guarded by descriptors"""
    import pickle
    from pyworkers import remote_pickle
    for make in (lambda: WithSetterProp(25), lambda: WithReadOnlyProp(3), lambda: [WithSetterProp(50), WithReadOnlyProp(4)]):
        g = make()
        for remote in (True, False):
            def canon(x):
                xs = x if isinstance(x, list) else [x]
                return [(type(o).__name__, sorted(vars(o).items())) for o in xs]
            want = canon(pickle.loads(pickle.dumps(g, protocol=4)))
            try:
                got = canon(remote_pickle.loads(remote_pickle.dumps(g, remote=remote)))
            except BaseException as e:  # noqa
                got = ('error', type(e).__name__, str(e)[:80])
            ctx.case(('descriptor-state', repr(want), remote), True, sample={'case': 'opt-in class without __setstate__, attribute guarded by a property', 'remote': remote, 'restored': repr(got)[:120]} if remote else None)
            if got != want:
                ctx.fail('restore-differs:descriptor', f'remote_pickle (remote={remote}) restores {got!r}, standard pickle restores {want!r}', {'kind': 'descriptor_state', 'remote': remote})


MIX_LOG = []


class PlainFirstBase:
    pass


class RemoteAwareMixin:
    def __getstate__(self, remote=False):
        MIX_LOG.append(remote)
        return dict(self.__dict__)


class MarkedBase(F.SupportRemoteGetState):
    pass


class JobDuck(PlainFirstBase, RemoteAwareMixin):
    pass


class JobMarked(MarkedBase, RemoteAwareMixin):
    pass


def mixin_cases(ctx):
    """the remote-aware __getstate__ comes from a base that is not the first one; the first base was looked at before"""
    from pyworkers import remote_pickle
    for cls, first in ((JobDuck, PlainFirstBase), (JobMarked, MarkedBase)):
        remote_pickle.dumps(first())              # the pickler has seen (and cached its verdict about) the first base
        for where in ('top', 'in-list', 'attr-of-opt'):
            o = cls()
            o.x = 1
            if where == 'top':
                g = o
            elif where == 'in-list':
                g = [o, 2]
            else:
                g = F.OptSet.__new__(F.OptSet)
                g._id = 1
                g.k1 = o
            MIX_LOG.clear()
            try:
                remote_pickle.loads(remote_pickle.dumps(g))
                flags = list(MIX_LOG)
            except BaseException as e:  # noqa
                flags = ['error:' + type(e).__name__]
            ctx.case(('mixin', cls.__name__, where), True, sample={'case': 'remote-aware __getstate__ inherited from a second base', 'class': cls.__name__, 'where': where, 'getstate_remote_flags': flags} if where == 'top' else None)
            if flags != [True]:
                ctx.fail('getstate-calls:mixin', f'{cls.__name__} ({where}): __getstate__ was called with remote={flags} instead of exactly once with remote=True', {'kind': 'mixin', 'class': cls.__name__, 'where': where})


def _plain(v):
    """ordered dictionaries compare equal to plain ones: the kind of mapping handed to __setstate__ is not observable by =="""
    if isinstance(v, dict):
        return {k: _plain(x) for k, x in v.items()}
    if isinstance(v, tuple):
        return tuple(_plain(x) for x in v)
    if isinstance(v, list):
        return [_plain(x) for x in v]
    return v


def unusual_states(ctx):
    """states that are falsy, None, or not a dict: the object must come back exactly as standard unpickling restores it
    (pickle protocol >= 2 calls __setstate__ for every state that is not None)"""
    import pickle
    from pyworkers import remote_pickle
    values = [{}, 0, (), '', False, None, {'a': 1}, [1], (0,), 7]
    holders = {'top': lambda o: o, 'in-list': lambda o: [o, 1], 'attr-of-plain': lambda o: type('H', (), {})}
    for cls in (Recorder, RecorderNoSet):
        for v in values:
            if cls is RecorderNoSet and not isinstance(v, dict) and v is not None:
                continue      # (standard pickle cannot restore a non-dict state without __setstate__ either)
            for where in ('top', 'in-list', 'in-dict'):
                cls.VALUE = v
                o = cls()
                g = o if where == 'top' else [o, 1] if where == 'in-list' else {'x': o}

                def pick(loaded):
                    x = loaded if where == 'top' else loaded[0] if where == 'in-list' else loaded['x']
                    return (type(x).__name__, sorted((k, repr(_plain(val))) for k, val in vars(x).items()))
                try:
                    want = pick(pickle.loads(pickle.dumps(g, protocol=4)))
                except BaseException as e:  # noqa
                    want = ('std-error', type(e).__name__)
                try:
                    got = pick(remote_pickle.loads(remote_pickle.dumps(g)))
                except BaseException as e:  # noqa
                    got = ('error', type(e).__name__)
                ctx.case(('unusual-state', cls.__name__, repr(v), where), True,
                         sample={'case': 'falsy / None / non-dict state', 'class': cls.__name__, 'state': repr(v), 'where': where, 'restored': got} if (where, repr(v)) == ('top', '{}') else None)
                if got != want:
                    ctx.fail(f'restore-differs:{"falsy" if not v and v is not None else "other"}-state', f'{cls.__name__} with state {v!r} ({where}): remote_pickle restores {got}, standard pickle restores {want}',
                             {'kind': 'unusual_state', 'class': cls.__name__, 'state': repr(v), 'where': where})


def main(ctx: Ctx):
    ctx.assumptions += [
        'E-P1: pickle calls the recreate hook of an object before loading its state and its __setstate__ after everything inside the state was restored (CPython pickle; exercised by every correspondence case)',
        'dumps side (memo: each object reduced once) is CPython pickle; checked by the oracle (one __getstate__(remote=True) per opt-in object), not modelled',
    ]
    ctx.cov['rule'] = ('object graphs: enumerated shapes over {opt-in object with 0-2 fields, list holder} + seeded random graphs (0-4 opt-in instances; list/tuple/dict/plain holders; '
                       'shared refs and cycles; dict / non-dict state; with/without __setstate__; marker base / duck-typed); non-trivial = at least one opt-in object; distinct by shape')
    ctx.lean()
    T = ctx.thorough
    graphs = list(F.all_shapes(3 if not T else 4, 2 if not T else 3))
    if len(graphs) > (1500 if not T else 20000):
        graphs = ctx.rng.sample(graphs, 1500 if not T else 20000)
    ctx.cov['enumerated_shapes'] = len(graphs)
    for _ in range(400 if not T else 4000):
        graphs.append(F.gen_graph(ctx.rng))
    model = ctx.model(['frames %s {}' % F.model_graph(g) for g in graphs])
    for i, g in enumerate(graphs):
        check_graph(ctx, g, model[i] if model else None, i)
    unusual_states(ctx)
    descriptor_states(ctx)
    mixin_cases(ctx)


def replay(case):
    if case.get('kind') == 'mixin':
        class C:
            def case(self, *a, **k): print('observed', k.get('sample'))
            def fail(self, sig, what, desc): print('FAIL', sig, what)
        mixin_cases(C())
        return
    if case.get('kind') == 'descriptor_state':
        class C:
            def case(self, *a, **k): print('observed', k.get('sample'))
            def fail(self, sig, what, desc): print('FAIL', sig, what)
        descriptor_states(C())
        return
    if case.get('kind') == 'unusual_state':
        class C:
            def case(self, *a, **k): pass
            def fail(self, sig, what, desc): print('FAIL', sig, what)
        unusual_states(C())
        print('done')
        return
    def tup(x):
        return tuple(tup(y) for y in x) if isinstance(x, list) and x and isinstance(x[0], str) else ([tup(y) for y in x] if isinstance(x, list) else x)
    spec = tup(case['graph'])
    print(F.model_graph(spec), F.run_real(spec))
