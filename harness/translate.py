"""T-run: regenerate lean/PwVerif/Gen/RunLoops.lean from the Python AST of /repo's current
working tree. Called by every check of family L (and by bin/setup).

For each of the six worker classes the child-side run function (`_run` / `_run_backend`) is
translated statement by statement into the `PwVerif.Py.Stmt` language; calls to the hooks
`_init_child`, `do_work`, `run`, `_send_result`, `_cleanup` are resolved through the real
class's MRO and inlined. A statement that matches no pattern is *untranslatable*: the
translation fails (broken tie), it is never skipped silently.
"""
import ast
import importlib
import inspect
import re
import sys
from pathlib import Path

sys.path.insert(0, str(Path(__file__).resolve().parent))
from common import LEAN, REPO, write_if_changed  # noqa: E402


class Untranslatable(Exception):
    pass


INLINE = {'_init_child', 'do_work', 'run', '_send_result', '_cleanup'}

# (regex on ast.unparse(stmt), acts)
SIMPLE = [
    (r"assert .*", ['nop']),
    (r"self\._tid = gettid\(\)", ['setTid']),
    (r"self\._ident = threading\.get_ident\(\)", ['nop']),
    (r"self\._pid = os\.getpid\(\)", ['nop']),
    (r"self\._host = get_hostname\(\)", ['nop']),
    (r"self\._is_child = True", ['nop']),
    (r"self\._is_backend = True", ['nop']),
    (r"self\._child = None", ['nop']),
    (r"set(thread|proc)title\(.*\)", ['nop']),
    (r"self\._startup_sync\.set\(\)", ['startupSet']),
    (r"logger\.\w+\(.*\)", ['log']),
    (r"self\._result = \(False, e\)", ['setErrCur']),
    (r"self\._terminate_req = False", ['nop']),
    (r"self\._ctrl_thread_sync = threading\.Event\(\)", ['nop']),
    (r"self\._ctrl_thread = threading\.Thread\(target=self\._ctrl_fn, .*\)", ['nop']),
    (r"self\._ctrl_thread\.start\(\)", ['startCtrl']),
    (r"self\._ctrl_thread_sync\.wait\(\)", ['nop']),
    (r"self\._comms\.parent_end\.close\(\)", ['closeParentComms']),
    (r"self\._comms\.child_end\.put\(\(self\._pid, self\._tid, self\._ident\)\)", ['sendInfo']),
    (r"self\._comms\.child_end\.send\(\(self\._host, self\._pid, self\._tid, self\._ident\)\)", ['sendInfo']),
    (r"self\._comms\.child_end\.put\(\(\(True, result\), self\._user_state\)\)", ['sendFinalOk']),
    (r"self\._comms\.child_end\.put\(\(\(False, e\), self\._user_state\)\)", ['sendFinalErrCur']),
    (r"self\._ctrl_comms\.parent_end\.send\(None\)", ['releaseCtrl']),
    (r"self\._ctrl_thread(_loc)?\.join\(\)", ['joinCtrl']),
    (r"self\._comms\.child_end\.close\(\)", ['closeComms']),
    # remote backend
    (r"signal\.signal\(signal\.SIGTERM, signal\.SIG_DFL\)", ['nop']),
    (r"set_linger\(self\._socket, True, 5\)", ['nop']),
    (r"self\._aux_socket_my, self\._aux_socket_ctrl = \(None, None\)", ['nop']),
    (r"self\._aux_socket_my, self\._aux_socket_ctrl = socket\.socketpair\(\)", ['nop']),
    (r"result = None", ['varNone']),
    (r"result = \(False, None\)", ['varUnreported']),
    (r"self\._ctrl_thread_loc = threading\.Thread\(target=self\._ctrl_fn_local, .*\)", ['nop']),
    (r"self\._ctrl_thread_loc\.start\(\)", ['startCtrl']),
    (r"self\._target, self\._args, self\._kwargs = remote_pickle\.loads\(self\._payload\)", ['loadPayload']),
    (r"self\._payload = None", ['nop']),
    (r"unused_sync = self\._comms\.child_end\.recv\(\)", ['recvSync']),
    (r"result = \(True, result\)", ['varOk']),
    (r"result = \(False, e\)", ['varErrCur']),
    (r"send_msg\(self\._socket, result, 'data: result'\)", ['sendVar']),
    (r"send_msg\(self\._socket, self\._user_state, 'data: user state'\)", ['sendUserState']),
    (r"self\._socket\.shutdown\(socket\.SHUT_WR\)", ['shutdownSock']),
    (r"self\._socket\.close\(\)", ['closeSock']),
    (r"self\._aux_socket_my\.close\(\)", ['nop']),
    (r"main_module = .*", ['nop']), (r"main_content = .*", ['nop']), (r"main_module\.__dict__\.update\(main_content\)", ['nop']),
    (r"sys\.modules\['__main__'\] = .*", ['nop']),
    (r"pass", ['nop']),
    # persistent
    (r"self\._counter = 0", ['initCounter']),
    (r"self\._stop = False", ['nop']),
    (r"self\._results_pipe\.parent_end\.close\(\)", ['nop']),
    (r"self\._args_pipe\.parent_end\.close\(\)", ['nop']),
    (r"args = list\(copy\.deepcopy\(self\._args\)\)", ['copyDefaults']),
    (r"kwargs = copy\.deepcopy\(self\._kwargs\)", ['nop']),
    (r"extra = self\._args_pipe\.child_end\.get\(\)", ['recvArgs']),
    (r"extra = recv_msg\(self\._socket, comment='data: new args'\)", ['recvArgs']),
    (r"mp\.connection\.wait\(\[self\._args_pipe\.child_end\]\)", ['nop']),
    (r"mp\.connection\.wait\(\[self\._socket, self\._aux_socket_my\]\)", ['nop']),
    (r"extra_args, extra_kwargs = extra", ['nop']),
    (r"args\[0:len\(extra_args\)\] = extra_args", ['mergeArgs']),
    (r"kwargs\.update\(extra_kwargs\)", ['nop']),
    (r"self\._counter \+= 1", ['bumpCounter']),
    (r"self\._results_pipe\.child_end\.put\(\(self\._counter, True, result, self\.id\)\)", ['sendItem']),
    (r"send_msg\(self\._socket, \(self\._counter, True, result, self\.id\), comment=.*\)", ['sendItem']),
    (r"self\._results_pipe\.child_end\.put\(\(self\._counter, False, None, self\.id\)\)", ['sendEnd']),
    (r"send_msg\(self\._socket, \(self\._counter, False, None, self\.id\)\)", ['sendEnd']),
    (r"self\._results_pipe\.child_end\.close\(\)", ['closeResults']),
    (r"self\._args_pipe\.child_end\.close\(\)", ['nop']),
    (r"self\._cleaned_up = True", ['setCleaned']),
]

CONDS = [
    (r"self\._set_names", 'setNames'),
    (r"self\._target is None", 'targetNone'),
    (r"not self\._stop", 'notStop'),
    (r"extra is None", 'extraNone'),
    (r"self\._cleaned_up", 'cleanedUp'),
    (r"self\._ctrl_thread\.is_alive\(\) and \(?not self\._terminate_req\)?", 'ctrlAliveNoReq'),
    (r"self\._ctrl_thread_loc\.is_alive\(\)", 'ctrlAlive'),
    (r"hasattr\(self, '_ctrl_thread_loc'\) and self\._ctrl_thread_loc\.is_alive\(\)", 'hasCtrlAlive'),
    (r"not hasattr\(self, '_target'\)", 'noTarget'),
    (r"self\._main_path", 'mainPath'),
    (r"is_windows\(\)", 'windows'),
    (r"is_windows\(\) and self\._aux_socket_my is not None", 'windows'),
    (r"hasattr\(self\._results_pipe\.child_end, 'close'\)", 'hasClose'),
    (r"self\._reset_sigterm_hnd", 'resetSigterm'),
]

CATCH = {
    'Exception': '.exception', 'BaseException': '.baseException', None: '.baseException',
    'queue.Empty': '(.only [.empty, .closed])', 'ConnectionClosedError': '(.only [.empty, .closed])',
}


class Translator:
    def __init__(self, cls):
        self.cls = cls
        self.files = {}

    def func_ast(self, name):
        fn = getattr(self.cls, name)
        fn = inspect.unwrap(fn)
        path = Path(inspect.getsourcefile(fn)).resolve()
        if path not in self.files:
            self.files[path] = ast.parse(path.read_text())
        first = fn.__code__.co_firstlineno
        for node in ast.walk(self.files[path]):
            if isinstance(node, ast.FunctionDef) and node.name == name and (node.lineno == first or any(d.lineno == first for d in node.decorator_list)):
                return node, path
        raise Untranslatable(f'cannot find source of {self.cls.__name__}.{name}')

    def body_of(self, name, depth):
        if depth > 6:
            raise Untranslatable('inlining too deep')
        node, path = self.func_ast(name)
        body = node.body
        if body and isinstance(body[0], ast.Expr) and isinstance(getattr(body[0], 'value', None), ast.Constant) and isinstance(body[0].value.value, str):
            body = body[1:]          # docstring
        return self.block(body, path, depth)

    def inline_call(self, expr):
        """if expr contains exactly one call self.<inlinable>(...), return its name"""
        names = []
        for n in ast.walk(expr):
            if isinstance(n, ast.Call) and isinstance(n.func, ast.Attribute) and isinstance(n.func.value, ast.Name) and n.func.value.id == 'self' and n.func.attr in INLINE:
                names.append(n.func.attr)
        if len(names) > 1:
            raise Untranslatable(f'two inlined calls in one statement: {ast.unparse(expr)}')
        return names[0] if names else None

    def cond(self, test, where):
        txt = ast.unparse(test)
        for rx, name in CONDS:
            if re.fullmatch(rx, txt):
                return '.' + name
        raise Untranslatable(f'{where}: unknown condition `{txt}`')

    def acts(self, txt, where):
        for rx, a in SIMPLE:
            if re.fullmatch(rx, txt, re.S):
                return a
        raise Untranslatable(f'{where}: no pattern for statement `{txt}`')

    def block(self, stmts, path, depth):
        return '[' + ', '.join(self.stmt(s, path, depth) for s in stmts) + ']'

    def stmt(self, s, path, depth):
        where = f'{path.name}:{s.lineno}'
        ln = s.lineno
        if isinstance(s, ast.Try):
            handlers = []
            for h in s.handlers:
                key = ast.unparse(h.type) if h.type is not None else None
                if key not in CATCH:
                    raise Untranslatable(f'{where}: unknown exception class in except clause `{key}`')
                handlers.append(f'({CATCH[key]}, {h.lineno}, {self.block(h.body, path, depth)})')
            if s.orelse:
                raise Untranslatable(f'{where}: try/else is not modelled')
            return f'.tryS {ln} {self.block(s.body, path, depth)} [{", ".join(handlers)}] {self.block(s.finalbody, path, depth)}'
        if isinstance(s, ast.If):
            return f'.ifS {ln} {self.cond(s.test, where)} {self.block(s.body, path, depth)} {self.block(s.orelse, path, depth)}'
        if isinstance(s, ast.While):
            if s.orelse:
                raise Untranslatable(f'{where}: while/else')
            return f'.whileS {ln} {self.cond(s.test, where)} {self.block(s.body, path, depth)}'
        if isinstance(s, ast.Break):
            return f'.brk {ln}'
        if isinstance(s, ast.Return):
            if s.value is None:
                return f'.ret {ln} []'
            name = self.inline_call(s.value)
            txt = ast.unparse(s)
            if name:
                if not re.fullmatch(r"return self\.run\(\*self\._args, \*\*self\._kwargs\)|return self\.do_work\(\)", txt):
                    raise Untranslatable(f'{where}: no pattern for `{txt}`')
                return f'.call {ln} {self.body_of(name, depth + 1)} []'      # tail call: the callee's return is ours
            if re.fullmatch(r"return self\._target\(\*args, \*\*kwargs\)", txt):
                return f'.ret {ln} [.callTarget]'
            if re.fullmatch(r"return self\._counter", txt):
                return f'.ret {ln} [.retCounter]'
            raise Untranslatable(f'{where}: no pattern for `{txt}`')
        if isinstance(s, (ast.Expr, ast.Assign, ast.AugAssign, ast.Assert, ast.Pass)):
            txt = ast.unparse(s)
            name = self.inline_call(s)
            if name:
                after = {
                    r"self\._init_child\(\)": [], r"self\._cleanup\(\)": [], r"self\._send_result\(result\)": [],
                    r"super\(\)\._init_child\(\)": [],
                    r"self\._result = \(True, self\.do_work\(\)\)": ['setOk'],
                    r"result = self\.do_work\(\)": [],
                    r"result = self\.run\(\*args, \*\*kwargs\)": [],
                }
                for rx, a in after.items():
                    if re.fullmatch(rx, txt):
                        return f'.call {ln} {self.body_of(name, depth + 1)} [{", ".join("." + x for x in a)}]'
                raise Untranslatable(f'{where}: no pattern for `{txt}`')
            if re.fullmatch(r"super\(\)\._init_child\(\)", txt):
                # resolve through the MRO after the class that defines the current function
                return f'.call {ln} {self.super_init_child(depth)} []'
            a = self.acts(txt, where)
            return f'.line {ln} [{", ".join("." + x for x in a)}]'
        raise Untranslatable(f'{where}: statement kind {type(s).__name__} is not modelled')

    def super_init_child(self, depth):
        # PersistentProcessWorker._init_child calls super()._init_child() -> PersistentWorker._init_child
        for c in self.cls.__mro__:
            if '_init_child' in c.__dict__ and c.__name__ == 'PersistentWorker':
                t = Translator(c)
                t.files = self.files
                return t.body_of('_init_child', depth + 1)
        raise Untranslatable('super()._init_child() not resolvable')


PROGRAMS = [
    ('threadRun', 'pyworkers.thread', 'ThreadWorker', '_run'),
    ('processRun', 'pyworkers.process', 'ProcessWorker', '_run'),
    ('remoteRun', 'pyworkers.remote', 'RemoteWorker', '_run_backend'),
    ('pthreadRun', 'pyworkers.persistent_thread', 'PersistentThreadWorker', '_run'),
    ('pprocessRun', 'pyworkers.persistent_process', 'PersistentProcessWorker', '_run'),
    ('premoteRun', 'pyworkers.persistent_remote', 'PersistentRemoteWorker', '_run_backend'),
]


def generate():
    """returns (lean_text, errors, meta). Never raises for untranslatable source."""
    sys.path.insert(0, str(REPO))
    for m in [m for m in sys.modules if m == 'pyworkers' or m.startswith('pyworkers.')]:
        pass
    out = ['import PwVerif.Model.Py', '/-! GENERATED by harness/translate.py from /repo - do not edit. -/', 'namespace PwVerif.Gen', 'open PwVerif.Py', '']
    errors = []
    meta = {}
    for name, mod, cls, fn in PROGRAMS:
        try:
            c = getattr(importlib.import_module(mod), cls)
            t = Translator(c)
            body = t.body_of(fn, 0)
            node, path = t.func_ast(fn)
            meta[name] = {'class': cls, 'function': fn, 'file': str(path.relative_to(REPO)), 'first_line': node.lineno}
            # the line after which the constructor can return (the parent cannot terminate() before that)
            key = {'_run': ('.startupSet' if 'thread' in name.lower() else '.sendInfo'), '_run_backend': '.recvSync'}[fn]
            m = re.search(r'\.line (\d+) \[[^\]]*' + re.escape(key), body)
            meta[name]['startup_line'] = int(m.group(1)) if m else None
            m = re.search(r'\.line (\d+) \[\.shutdownSock\]', body)
            meta[name]['shutdown_line'] = int(m.group(1)) if m else None
            out.append(f'/-- `{cls}.{fn}` ({path.name}:{node.lineno}) with its hooks inlined -/')
            out.append(f'def {name} : List Stmt :=\n  {body}\n')
            out.append(f'/-- line of the statement after which the constructor of the parent can return -/')
            out.append(f'def {name}Start : Nat := {meta[name]["startup_line"] or 0}\n')
        except Untranslatable as e:
            errors.append(f'{name}: {e}')
            out.append(f'/-- UNTRANSLATABLE: {str(e).replace("-/", "- /")} -/')
            out.append(f'def {name} : List Stmt := []\ndef {name}Start : Nat := 0\n')
        except Exception as e:  # import errors etc.
            errors.append(f'{name}: {type(e).__name__}: {e}')
            out.append(f'def {name} : List Stmt := []\ndef {name}Start : Nat := 0\n')
    out.append('end PwVerif.Gen')
    return '\n'.join(out) + '\n', errors, meta


START_RX = {'_run:thread': r'self\._startup_sync\.set\(\)', '_run:process': r'child_end\.put\(\(self\._pid', '_run_backend:remote': r'unused_sync = self\._comms\.child_end\.recv\(\)'}


def startup_line_fallback(prog):
    """start-up line found textually (used when the program itself could not be translated)"""
    name, mod, cls, fn = next(p for p in PROGRAMS if p[0] == prog)
    kind = 'thread' if 'thread' in prog.lower() else 'process' if 'process' in prog.lower() else 'remote'
    c = getattr(importlib.import_module(mod), cls)
    f = inspect.unwrap(getattr(c, fn))
    src, first = inspect.getsourcelines(f)
    for i, l in enumerate(src):
        if re.search(START_RX[f'{fn}:{kind}'], l):
            return first + i
    return None


def regenerate():
    text, errors, meta = generate()
    changed = write_if_changed(LEAN / 'PwVerif' / 'Gen' / 'RunLoops.lean', text)
    return errors, meta, changed




# ======================================================================================= T-block
# Parent-side blocking structure of wait()/terminate(): every call that can block, with the expression
# that bounds it, the guard that normalises the remote timeout, and the shape of the returned value.
BLOCK_METHODS = [
    ('threadWait', 'pyworkers.thread', 'ThreadWorker', 'wait'),
    ('threadTerminate', 'pyworkers.thread', 'ThreadWorker', 'terminate'),
    ('processWait', 'pyworkers.process', 'ProcessWorker', 'wait'),
    ('processTerminate', 'pyworkers.process', 'ProcessWorker', 'terminate'),
    ('remoteWait', 'pyworkers.remote', 'RemoteWorker', 'wait'),
    ('remoteTerminate', 'pyworkers.remote', 'RemoteWorker', 'terminate'),
    ('pthreadWait', 'pyworkers.persistent_thread', 'PersistentThreadWorker', 'wait'),
    ('pprocessWait', 'pyworkers.persistent_process', 'PersistentProcessWorker', 'wait'),
]
BOUND_NAMES = {'timeout', 'remote_timeout'}


def _blocking_ops(fn_node):
    """list of (kind, bound) in source order; bound in {'timeout', 'none', 'peer', 'guarded'}"""
    ops = []
    guarded_get_lines = set()
    for n in ast.walk(fn_node):
        # `if X.poll(timeout): X.get()`  -> the get is guarded by a bounded poll
        if isinstance(n, ast.If) and isinstance(n.test, ast.Call) and isinstance(n.test.func, ast.Attribute) and n.test.func.attr == 'poll':
            for b in ast.walk(ast.Module(body=n.body, type_ignores=[])):
                if isinstance(b, ast.Call) and isinstance(b.func, ast.Attribute) and b.func.attr in ('get', 'recv'):
                    guarded_get_lines.add(b.lineno)
    calls = sorted((n for n in ast.walk(fn_node) if isinstance(n, ast.Call)), key=lambda c: (c.lineno, c.col_offset))
    for c in calls:
        f = c.func
        name = f.attr if isinstance(f, ast.Attribute) else (f.id if isinstance(f, ast.Name) else None)
        if name in ('join', 'poll'):
            arg = c.args[0] if c.args else (c.keywords[0].value if c.keywords else None)
            if arg is None:
                ops.append((name, 'none'))
            elif isinstance(arg, ast.Name) and arg.id in BOUND_NAMES:
                ops.append((name, 'timeout'))
            else:
                ops.append((name, 'other'))
        elif name in ('get', 'recv') and isinstance(f, ast.Attribute) and 'parent_end' in ast.unparse(f.value):
            ops.append(('get', 'guarded' if c.lineno in guarded_get_lines else 'none'))
        elif name == 'recv_msg':
            ops.append(('recvMsg', 'peer'))
        elif name == 'wait' and isinstance(f, ast.Attribute) and ast.unparse(f.value).endswith('_startup_sync'):
            ops.append(('eventWait', 'none'))
        elif name == 'accept':
            ops.append(('accept', 'none'))
    return ops


def _timeout_guard(fn_node):
    """the test of the `if` that derives remote_timeout from timeout: 'isNotNone' | 'truthy' | 'other' | 'absent'"""
    for n in ast.walk(fn_node):
        if isinstance(n, ast.If) and any(isinstance(t, ast.Assign) and ast.unparse(t.targets[0]) == 'remote_timeout' for t in ast.walk(ast.Module(body=n.body, type_ignores=[]))):
            txt = ast.unparse(n.test)
            if txt == 'timeout is not None':
                # and inside: remote_timeout = timeout if remote_timeout is None else min(remote_timeout, timeout)
                inner = ast.unparse(ast.Module(body=n.body, type_ignores=[]))
                if 'min(remote_timeout, timeout)' in inner and 'remote_timeout = timeout' in inner:
                    return 'isNotNone'
                return 'other'
            if txt == 'timeout':
                return 'truthy'
            return 'other'
    return 'absent'


def _returns_not_alive(fn_node):
    """every `return <expr>` of the method is `True`, `False`/`not alive` (alive read from the child right before)"""
    ok = True
    for n in ast.walk(fn_node):
        if isinstance(n, ast.Return) and n.value is not None:
            txt = ast.unparse(n.value)
            if txt not in ('True', 'False', 'not alive', 'super().wait(*args, **kwargs)'):
                ok = False
    src = ast.unparse(fn_node)
    if 'return not alive' in src and 'alive = self._child.is_alive()' not in src:
        ok = False
    return ok


def generate_blocking():
    sys.path.insert(0, str(REPO))
    out = ['import PwVerif.Model.Blocking', '/-! GENERATED by harness/translate.py (T-block) from /repo - do not edit. -/', 'namespace PwVerif.Gen', 'open PwVerif.Blocking', '']
    errors = []
    for name, mod, cls, fn in BLOCK_METHODS:
        try:
            c = getattr(importlib.import_module(mod), cls)
            t = Translator(c)
            node, path = t.func_ast(fn)
            ops = _blocking_ops(node)
            out.append(f'/-- `{cls}.{fn}` ({path.name}:{node.lineno}) -/')
            out.append(f'def {name} : Method :=\n  {{ ops := [' + ', '.join(f'⟨.{k}, .{b}⟩' for k, b in ops) + f'],\n    guard := .{_timeout_guard(node)}, returnsNotAlive := {"true" if _returns_not_alive(node) else "false"},\n    checksNegative := {"true" if "Negative timeout" in ast.unparse(node) else "false"} }}\n')
        except Exception as e:
            errors.append(f'{name}: {type(e).__name__}: {e}')
            out.append(f'def {name} : Method := {{ ops := [⟨.join, .none⟩], guard := .other, returnsNotAlive := false, checksNegative := false }}\n')
    out.append('end PwVerif.Gen')
    return '\n'.join(out) + '\n', errors


def regenerate_blocking():
    text, errors = generate_blocking()
    changed = write_if_changed(LEAN / 'PwVerif' / 'Gen' / 'Blocking.lean', text)
    return errors, changed


# ======================================================================================= T-tab
def generate_tables():
    """small literal facts: which constructor arguments restart() carries over"""
    sys.path.insert(0, str(REPO))
    out = ['/-! GENERATED by harness/translate.py (T-tab) from /repo - do not edit. -/', 'namespace PwVerif.Gen', '']
    errors = []

    def keys_of(mod, cls):
        c = getattr(importlib.import_module(mod), cls)
        t = Translator(c)
        node, path = t.func_ast('_get_restart_args')
        # the function must have exactly the known shape: everything it returns is in the literal dict(s) -
        # a filter, a default or a conditional on top of them would change which options survive a restart
        body = [b for b in node.body if not (isinstance(b, ast.Expr) and isinstance(getattr(b, 'value', None), ast.Constant))]
        txts = [ast.unparse(b) for b in body]
        if cls == 'Worker':
            ok = (len(body) == 1 and isinstance(body[0], ast.Return) and isinstance(body[0].value, ast.Tuple) and len(body[0].value.elts) == 2
                  and isinstance(body[0].value.elts[0], ast.List) and isinstance(body[0].value.elts[1], ast.Dict)
                  and all(isinstance(k, ast.Constant) for k in body[0].value.elts[1].keys))
        else:
            ok = (len(body) == 3 and txts[0] == 'args, kwargs = super()._get_restart_args()' and txts[2] == 'return (args, kwargs)'
                  and isinstance(body[1], ast.Expr) and isinstance(body[1].value, ast.Call) and ast.unparse(body[1].value.func) == 'kwargs.update'
                  and len(body[1].value.args) == 1 and isinstance(body[1].value.args[0], ast.Dict) and not body[1].value.keywords)
        if not ok:
            raise Untranslatable(f'{path.name}:{node.lineno}: {cls}._get_restart_args does not have the known shape: {txts}')
        keys = []
        for n in ast.walk(node):
            if isinstance(n, ast.Dict):
                for k, v in zip(n.keys, n.values):
                    if isinstance(k, ast.Constant):
                        keys.append((k.value, ast.unparse(v)))
        positional = [ast.unparse(e) for n in ast.walk(node) if isinstance(n, ast.Return) and isinstance(n.value, ast.Tuple) and isinstance(n.value.elts[0], ast.List) for e in n.value.elts[0].elts]
        return keys, positional
    try:
        base, pos = keys_of('pyworkers.worker', 'Worker')
        remote, _ = keys_of('pyworkers.remote', 'RemoteWorker')
        def lit(l):
            return '[' + ', '.join(f'("{k}", "{v}")' for k, v in l) + ']'
        out.append(f'/-- `Worker._get_restart_args`: positional arguments -/\ndef restartPositional : List String := [{", ".join(chr(34) + p + chr(34) for p in pos)}]\n')
        out.append(f'/-- `Worker._get_restart_args`: keyword -> attribute it is taken from -/\ndef restartKeys : List (String × String) := {lit(base)}\n')
        out.append(f'/-- what `RemoteWorker._get_restart_args` adds -/\ndef remoteRestartKeys : List (String × String) := {lit(remote)}\n')
    except Exception as e:
        errors.append(f'restart args: {type(e).__name__}: {e}')
        out.append('def restartPositional : List String := []\ndef restartKeys : List (String × String) := []\ndef remoteRestartKeys : List (String × String) := []\n')
    out.append('end PwVerif.Gen')
    return '\n'.join(out) + '\n', errors


def regenerate_tables():
    text, errors = generate_tables()
    changed = write_if_changed(LEAN / 'PwVerif' / 'Gen' / 'Tables.lean', text)
    return errors, changed


# ======================================================================================= T-srv
def generate_serverloop():
    """RemoteServer.run: every statement of the accept loop that talks to the client, with the try blocks that
    enclose it, the exception classes those catch and how each handler ends."""
    sys.path.insert(0, str(REPO))
    out = ['import PwVerif.Model.Server', '/-! GENERATED by harness/translate.py (T-srv) from /repo - do not edit. -/', 'namespace PwVerif.Gen', 'open PwVerif.Server', '']
    errors = []
    try:
        c = getattr(importlib.import_module('pyworkers.remote_server'), 'RemoteServer')
        t = Translator(c)
        node, path = t.func_ast('run')
        loop = next(n for n in ast.walk(node) if isinstance(n, ast.While))
        steps = []

        def ends(handler):
            last = handler.body[-1]
            if isinstance(last, ast.Continue):
                return 'continue'
            if isinstance(last, ast.Raise):
                return 'raises'
            if isinstance(last, ast.Break):
                return 'breaks'
            return 'fallsThrough'

        def visit(stmts, enclosing, tail_of_loop):
            for idx, s in enumerate(stmts):
                is_last = tail_of_loop and idx == len(stmts) - 1
                if isinstance(s, ast.Try):
                    hs = []
                    for h in s.handlers:
                        cls = ast.unparse(h.type) if h.type is not None else 'BaseException'
                        e = ends(h)
                        if e == 'fallsThrough' and is_last:
                            e = 'continue'        # nothing follows in the loop body: falling through ends the iteration
                        hs.append((cls, e))
                    visit(s.body, enclosing + [hs], False)
                    for h in s.handlers:
                        visit(h.body, enclosing, False)
                    visit(s.finalbody, enclosing, False)
                elif isinstance(s, (ast.If, ast.With)):
                    visit(s.body, enclosing, is_last)
                    if isinstance(s, ast.If):
                        visit(s.orelse, enclosing, is_last)
                else:
                    txt = ast.unparse(s)
                    kind = None
                    if 'recv_msg(' in txt:
                        kind = 'recv'
                    elif 'send_msg(' in txt:
                        kind = 'send'
                    elif 'ctx.call(' in txt:
                        kind = 'ctxCall'
                    elif '.accept()' in txt:
                        kind = 'accept'
                    if kind:
                        # the innermost handler that catches ConnectionClosedError decides
                        how = 'uncaught'
                        for hs in reversed(enclosing):
                            m = [e for (cls, e) in hs if cls in ('ConnectionClosedError', 'Exception', 'BaseException')]
                            if m:
                                how = m[0]
                                break
                        steps.append((kind, s.lineno, how))
        visit(loop.body, [], True)
        out.append(f'/-- `RemoteServer.run` ({path.name}:{node.lineno}): client-facing steps of one accept-loop iteration -/')
        out.append('def serverLoop : List Step :=\n  [' + ', '.join(f'⟨.{k}, {ln}, .{how}⟩' for k, ln, how in steps) + ']\n')
        # skipped requests (None header / unknown context) must close the client socket before `continue`
        src = ast.unparse(loop)
        closes = len(re.findall(r"cli\.close\(\)\n\s*continue", src))
        out.append(f'/-- number of `cli.close(); continue` exits (requests the server skips) -/\ndef skippedRequestsClosed : Nat := {closes}\n')
    except Exception as e:
        errors.append(f'serverLoop: {type(e).__name__}: {e}')
        out.append('def serverLoop : List Step := [⟨.recv, 0, .uncaught⟩]\ndef skippedRequestsClosed : Nat := 0\n')
    out.append('end PwVerif.Gen')
    return '\n'.join(out) + '\n', errors


def regenerate_serverloop():
    text, errors = generate_serverloop()
    changed = write_if_changed(LEAN / 'PwVerif' / 'Gen' / 'ServerLoop.lean', text)
    return errors, changed


# ======================================================================================= T-front
def generate_frontend():
    """RemoteWorker._start / _run_frontend: the client side of the handshake - which steps can fail, which
    exception classes the enclosing handler catches, whether the failure path wakes the constructor up."""
    sys.path.insert(0, str(REPO))
    out = ['import PwVerif.Model.Handshake', '/-! GENERATED by harness/translate.py (T-front) from /repo - do not edit. -/', 'namespace PwVerif.Gen', 'open PwVerif.Handshake', '']
    errors = []
    try:
        c = getattr(importlib.import_module('pyworkers.remote'), 'RemoteWorker')
        t = Translator(c)
        fr, path = t.func_ast('_run_frontend')
        st, _ = t.func_ast('_start')
        steps = []
        catches = 'nothing'
        sets_error = sets_event = False
        success_set_after_try = False

        def step_kind(txt):
            if 'send_msg(' in txt:
                return 'send'
            if 'recv_msg(' in txt:
                return 'recv'
            if '.connect(' in txt:
                return 'connect'
            return None
        covered = set()
        for n in fr.body:
            if isinstance(n, ast.Try):
                for s in ast.walk(ast.Module(body=n.body, type_ignores=[])):
                    if isinstance(s, (ast.Expr, ast.Assign)):
                        k = step_kind(ast.unparse(s))
                        if k:
                            steps.append((k, 'true'))
                            covered.add(s.lineno)
                for h in n.handlers:
                    cls = ast.unparse(h.type) if h.type is not None else 'BaseException'
                    catches = {'Exception': 'exception', 'BaseException': 'baseException', 'ConnectionClosedError': 'closedOnly'}.get(cls, 'other')
                    body = ast.unparse(ast.Module(body=h.body, type_ignores=[]))
                    sets_error = 'self._startup_error = e' in body
                    sets_event = 'self._startup_sync.set()' in body
        # handshake steps outside of any try
        seen_set = False
        for s in ast.walk(fr):
            if isinstance(s, (ast.Expr, ast.Assign)) and s.lineno not in covered:
                txt = ast.unparse(s)
                if 'self._startup_sync.set()' in txt and not seen_set:
                    seen_set = True
                k = step_kind(txt)
                if k and '_fetch_results' not in txt and not seen_set:
                    steps.append((k, 'false'))
        src_start = ast.unparse(st)
        waits = 'self._startup_sync.wait()' in src_start
        reraises = bool(re.search(r"if self\._startup_error is not None:.*raise self\._startup_error", src_start, re.S))
        out.append(f'/-- `RemoteWorker._run_frontend` ({path.name}:{fr.lineno}) / `_start` -/')
        out.append('def frontend : Frontend :=\n  { steps := [' + ', '.join(f'⟨.{k}, {c}⟩' for k, c in steps) + f'],\n    catches := .{catches}, handlerRecordsError := {str(sets_error).lower()}, handlerSetsEvent := {str(sets_event).lower()},\n    startWaitsForEvent := {str(waits).lower()}, startReraises := {str(reraises).lower()} }}\n')
    except Exception as e:
        errors.append(f'frontend: {type(e).__name__}: {e}')
        out.append('def frontend : Frontend := { steps := [⟨.recv, false⟩], catches := .nothing, handlerRecordsError := false, handlerSetsEvent := false, startWaitsForEvent := true, startReraises := false }\n')
    out.append('end PwVerif.Gen')
    return '\n'.join(out) + '\n', errors


def regenerate_frontend():
    text, errors = generate_frontend()
    changed = write_if_changed(LEAN / 'PwVerif' / 'Gen' / 'Frontend.lean', text)
    return errors, changed


# ======================================================================================= T-shutdown
def generate_shutdown():
    sys.path.insert(0, str(REPO))
    out = ['import PwVerif.Model.Shutdown', '/-! GENERATED by harness/translate.py (T-srv, shutdown paths) from /repo - do not edit. -/', 'namespace PwVerif.Gen', 'open PwVerif.Shutdown', '']
    errors = []
    try:
        c = getattr(importlib.import_module('pyworkers.remote_server'), 'RemoteServer')
        t = Translator(c)
        run, _ = t.func_ast('run')
        outer = next(n for n in run.body if isinstance(n, ast.Try))
        fin = ast.unparse(ast.Module(body=outer.finalbody, type_ignores=[]))
        # the loop must walk the live registry itself (the SIGTERM handler walks the same list concurrently)
        f_children = bool(re.search(r"for child in itertools\.chain\(self\.children, self\.contexts\.values\(\)\):", fin)) and 'self.children.clear()' in fin
        f_contexts = 'self.contexts.values()' in fin.split('self.children.clear()')[0]
        f_guard = bool(re.search(r"for child in .*:\n\s+try:", fin))
        f_force = bool(re.search(r"child\.terminate\(timeout=1, force=True, _release_remote_ctrl=True\)", fin))
        f_kill = bool(re.search(r"if child\.is_alive\(\):\n\s+os\.kill\(child\.pid, signal\.SIGTERM\)", fin))
        out.append('/-- the `finally` block of `RemoteServer.run` -/')
        out.append(f'def finallyPath : Path := {{ iteratesChildren := {str(f_children).lower()}, iteratesContexts := {str(f_contexts).lower()}, perChildGuarded := {str(f_guard).lower()}, forcedTerminate := {str(f_force).lower()}, killFallback := {str(f_kill).lower()} }}\n')
        ih, _ = t.func_ast('install_handlers')
        cleanup = next(n for n in ast.walk(ih) if isinstance(n, ast.FunctionDef) and n.name == 'cleanup')
        src = ast.unparse(cleanup)
        s_children = 'for child in self.children:' in src and src.index('for child in self.children:') < src.index('self.children.clear()')
        s_kill = bool(re.search(r"if child\.is_alive\(\):\n\s+os\.kill\(child\.pid, signal\.SIGTERM\)", src))
        s_reraise = 'signal.signal(signal.SIGTERM, signal.SIG_DFL)' in src and 'os.kill(os.getpid(), signal.SIGTERM)' in src
        out.append('/-- the SIGTERM handler installed by `install_handlers` (no try needed: `os.kill` on a live child) -/')
        out.append(f'def sigtermPath : Path := {{ iteratesChildren := {str(s_children).lower()}, iteratesContexts := false, perChildGuarded := true, forcedTerminate := false, killFallback := {str(s_kill).lower()} }}\n')
        out.append(f'def sigtermReraisesDefault : Bool := {str(s_reraise).lower()}\n')
    except Exception as e:
        errors.append(f'shutdown: {type(e).__name__}: {e}')
        out.append('def finallyPath : Path := ⟨false, false, false, false, false⟩\ndef sigtermPath : Path := ⟨false, false, false, false, false⟩\ndef sigtermReraisesDefault : Bool := false\n')
    out.append('end PwVerif.Gen')
    return '\n'.join(out) + '\n', errors


def regenerate_shutdown():
    text, errors = generate_shutdown()
    changed = write_if_changed(LEAN / 'PwVerif' / 'Gen' / 'ShutdownPaths.lean', text)
    return errors, changed


# ======================================================================================= T-fwd
def generate_forward():
    """PersistentRemoteWorker._fetch_results -> Gen/Forward.lean (a `Forward.Cfg`). Every statement of the function must be
    recognised; anything else is untranslatable (broken tie)."""
    sys.path.insert(0, str(REPO))
    out = ['import PwVerif.Model.Forward', '/-! GENERATED by harness/translate.py (T-fwd) from /repo - do not edit. -/', 'namespace PwVerif.Gen', 'open PwVerif.Forward', '']
    errors = []
    MARKER = r"self\._results_pipe\.child_end\.put\(\(counter, False, None, self\.id\)\)"
    FLAG = r"last_partial_result_signalled = True"
    IGN = [r"logger\.\w+\(.*\)", r"self\._socket_closed = True", r"self\._result = \(False, None\)", r"self\._result = result",
           r"assert value is None", r"assert wid == self\.id", r"assert len\(result\) == 2", r"remote_counter, valid, value, wid = result"]

    def ignorable(txt):
        return any(re.fullmatch(rx, txt, re.S) for rx in IGN)

    def guarded_marker(stmts, where):
        """stmts contain `if not last_partial_result_signalled: put(marker) [; flag = True]` -> True; absent -> False"""
        found = False
        for st in stmts:
            if isinstance(st, ast.If) and ast.unparse(st.test) == 'not last_partial_result_signalled':
                body = [ast.unparse(x) for x in st.body]
                if st.orelse or not body or not re.fullmatch(MARKER, body[0]) or any(not (re.fullmatch(FLAG, b) or ignorable(b)) for b in body[1:]):
                    raise Untranslatable(f'{where}: unexpected guarded block `{ast.unparse(st)}`')
                found = True
        return found
    try:
        c = getattr(importlib.import_module('pyworkers.persistent_remote'), 'PersistentRemoteWorker')
        t = Translator(c)
        fn, path = t.func_ast('_fetch_results')
        body = fn.body
        txts = [ast.unparse(x) for x in body]
        if txts[:2] != ['counter = 0', 'last_partial_result_signalled = False'] or not isinstance(body[2], ast.While) or ast.unparse(body[2].test) != 'True':
            raise Untranslatable(f'{path.name}:{fn.lineno}: unexpected prologue of _fetch_results')
        loop = body[2]
        after = body[3:]
        # ---- after the loop
        rest = [x for x in after if not (isinstance(x, ast.If) and ast.unparse(x.test) == 'not last_partial_result_signalled')]
        if [ast.unparse(x) for x in rest] != ['self._results_pipe.child_end.close()']:
            raise Untranslatable(f'{path.name}: unexpected statements after the loop of _fetch_results: {[ast.unparse(x) for x in rest]}')
        after_marker = guarded_marker(after, 'after the loop')
        # ---- the receive with its handler
        tr = loop.body[0]
        if not (isinstance(tr, ast.Try) and len(tr.body) == 1 and re.fullmatch(r"result = recv_msg\(self\._socket, comment='data: result'\)", ast.unparse(tr.body[0]))
                and len(tr.handlers) in (1, 2) and ast.unparse(tr.handlers[0].type) == 'ConnectionClosedError' and not tr.finalbody and not tr.orelse):
            raise Untranslatable(f'{path.name}:{tr.lineno}: unexpected receive statement')
        if len(tr.handlers) == 2:
            # a message that cannot be rebuilt on this side: the handler may only record the failure and leave the loop (the
            # end marker is then written by the guarded block after the loop). Such messages are not in the model's alphabet:
            # covered by real runs (C01 undecodable outcome of persistent kinds), not by C06_forward_once.
            h2 = tr.handlers[1]
            if ast.unparse(h2.type) != 'Exception' or not isinstance(h2.body[-1], ast.Break) or any(not ignorable(ast.unparse(x)) for x in h2.body[:-1]):
                raise Untranslatable(f'{path.name}:{h2.lineno}: unexpected handler `except {ast.unparse(h2.type)}` around the receive')
        h = tr.handlers[0].body
        if not isinstance(h[-1], ast.Break):
            raise Untranslatable(f'{path.name}:{tr.lineno}: the ConnectionClosedError handler does not leave the loop')
        for x in h[:-1]:
            if not isinstance(x, ast.If) and not ignorable(ast.unparse(x)):
                raise Untranslatable(f'{path.name}:{x.lineno}: no pattern for `{ast.unparse(x)}`')
        closed_marker = guarded_marker(h, 'ConnectionClosedError handler')
        # ---- dispatch on the message
        disp = loop.body[1]
        if len(loop.body) != 2 or not (isinstance(disp, ast.If) and ast.unparse(disp.test) == 'len(result) > 2'):
            raise Untranslatable(f'{path.name}: unexpected loop body of _fetch_results')
        four = disp.body
        if not re.fullmatch(IGN[-1], ast.unparse(four[0])) or len(four) != 2 or not (isinstance(four[1], ast.If) and ast.unparse(four[1].test) == 'not valid'):
            # allow leading asserts that are ignorable
            lead = [x for x in four[:-1] if not ignorable(ast.unparse(x))]
            if lead or not (isinstance(four[-1], ast.If) and ast.unparse(four[-1].test) == 'not valid'):
                raise Untranslatable(f'{path.name}:{disp.lineno}: unexpected handling of a 4-tuple message')
        vi = four[-1]

        def order(stmts, put_rx, where):
            """returns (put_index, first_counter_assert_index, assert kind, sets_flag)"""
            put_i = ass_i = None
            kind = 'none'
            flag = False
            for i, x in enumerate(stmts):
                txt = ast.unparse(x)
                if re.fullmatch(put_rx, txt):
                    put_i = i
                elif re.fullmatch(FLAG, txt):
                    flag = True
                elif re.fullmatch(r"assert remote_counter == counter(, .*)?", txt, re.S) or re.fullmatch(r"assert counter == remote_counter(, .*)?", txt, re.S):
                    ass_i, kind = (i if ass_i is None else ass_i), 'eqCounter'
                elif re.fullmatch(r"assert remote_counter in \(counter, counter \+ 1\)(, .*)?", txt, re.S):
                    ass_i, kind = (i if ass_i is None else ass_i), 'eqOrNext'
                elif re.fullmatch(r"counter \+= 1", txt):
                    pass
                elif isinstance(x, ast.Assert) and ignorable(txt):
                    ass_i = i if ass_i is None else ass_i      # any assert may kill the thread
                elif not ignorable(txt):
                    raise Untranslatable(f'{where}:{x.lineno}: no pattern for `{txt}`')
            if put_i is None:
                raise Untranslatable(f'{where}: the message is not forwarded')
            return put_i, ass_i, kind, flag
        PUT = r"self\._results_pipe\.child_end\.put\(result\)"
        e_put, e_ass, e_kind, e_flag = order(vi.body, PUT, path.name)
        i_put, i_ass, i_kind, _ = order(vi.orelse, PUT, path.name)
        if not any(re.fullmatch(r"counter \+= 1", ast.unparse(x)) for x in vi.orelse) or ast.unparse(vi.orelse[0]) != 'counter += 1':
            raise Untranslatable(f'{path.name}: the result branch does not start by counting the result')
        # ---- final result
        fin = disp.orelse
        if not isinstance(fin[-1], ast.Break):
            raise Untranslatable(f'{path.name}: the final-result branch does not leave the loop')
        for x in fin[:-1]:
            if isinstance(x, ast.Try):
                continue        # the optional user-state message
            if not ignorable(ast.unparse(x)):
                raise Untranslatable(f'{path.name}:{x.lineno}: no pattern for `{ast.unparse(x)}`')
        b = lambda v: str(bool(v)).lower()  # noqa: E731
        out.append(f'/-- `PersistentRemoteWorker._fetch_results` ({path.name}:{fn.lineno}) -/')
        out.append('def fwdCfg : Cfg :=\n  { closedPutsMarker := %s, endPutBeforeAssert := %s, endAssert := .%s, endSetsFlag := %s,\n    itemPutBeforeAssert := %s, itemAssertsCounter := %s, afterLoopPutsMarker := %s }\n'
                   % (b(closed_marker), b(e_ass is None or e_put < e_ass), e_kind, b(e_flag), b(i_ass is None or i_put < i_ass), b(i_kind == 'eqCounter'), b(after_marker)))
    except Exception as e:
        errors.append(f'forward: {type(e).__name__}: {e}')
        out.append('def fwdCfg : Cfg := ⟨false, false, .eqCounter, false, false, true, false⟩\n')
    out.append('end PwVerif.Gen')
    return '\n'.join(out) + '\n', errors


def regenerate_forward():
    text, errors = generate_forward()
    changed = write_if_changed(LEAN / 'PwVerif' / 'Gen' / 'Forward.lean', text)
    return errors, changed


# ======================================================================================= T-next
def generate_consumer():
    """PersistentWorker.next_result: which conditions select the non-blocking read -> Gen/Consumer.lean"""
    sys.path.insert(0, str(REPO))
    out = ['import PwVerif.Model.Consumer', '/-! GENERATED by harness/translate.py (T-next) from /repo - do not edit. -/', 'namespace PwVerif.Gen', 'open PwVerif.Consumer', '']
    errors = []
    try:
        c = getattr(importlib.import_module('pyworkers.persistent'), 'PersistentWorker')
        t = Translator(c)
        fn, path = t.func_ast('next_result')
        body = [b for b in fn.body if not (isinstance(b, ast.Expr) and isinstance(getattr(b, 'value', None), ast.Constant))]
        txts = [ast.unparse(b) for b in body]
        first = body[0]
        if not (isinstance(first, ast.If) and [ast.unparse(x) for x in first.body] == ['ret = self.results_endpoint.get_nowait()']
                and [ast.unparse(x) for x in first.orelse] == ['ret = self.results_endpoint.get(block=block, timeout=timeout)']
                and txts[1:] == ['unused_counter, flag, value, unused_wid = ret', 'if not flag:\n    raise queue.Empty', 'return value']):
            raise Untranslatable(f'{path.name}:{fn.lineno}: next_result does not have the known shape: {txts}')
        test = first.test
        terms = [ast.unparse(v) for v in test.values] if isinstance(test, ast.BoolOp) and isinstance(test.op, ast.Or) else [ast.unparse(test)]
        known = {'not self.is_alive()': 'dead', 'self._closed': 'closed'}
        for x in terms:
            if x not in known:
                raise Untranslatable(f'{path.name}:{first.lineno}: unknown condition `{x}` selects the non-blocking read')
        flags = {known[x] for x in terms}
        out.append(f'/-- `PersistentWorker.next_result` ({path.name}:{fn.lineno}) -/')
        out.append('def consumerCfg : Cfg := { nowaitWhenDead := %s, nowaitWhenClosed := %s }\n' % (str('dead' in flags).lower(), str('closed' in flags).lower()))
    except Exception as e:
        errors.append(f'consumer: {type(e).__name__}: {e}')
        out.append('def consumerCfg : Cfg := ⟨false, true⟩\n')
    out.append('end PwVerif.Gen')
    return '\n'.join(out) + '\n', errors


def regenerate_consumer():
    text, errors = generate_consumer()
    changed = write_if_changed(LEAN / 'PwVerif' / 'Gen' / 'Consumer.lean', text)
    return errors, changed


# ======================================================================================= T-reg
def generate_registry():
    """Pool.add_worker / restart_workers / _close -> Gen/PoolRegistry.lean (a `PoolRegistry.Cfg`)"""
    sys.path.insert(0, str(REPO))
    out = ['import PwVerif.Model.PoolRegistry', '/-! GENERATED by harness/translate.py (T-reg) from /repo - do not edit. -/', 'namespace PwVerif.Gen', 'open PwVerif.PoolRegistry', '']
    errors = []
    try:
        c = getattr(importlib.import_module('pyworkers.pool'), 'Pool')
        t = Translator(c)
        # ---- restart_workers: the per-worker loop
        rw, path = t.func_ast('restart_workers')
        loop = next(n for n in rw.body if isinstance(n, ast.For))
        if ast.unparse(loop.target) != '(oldid, w)' or ast.unparse(loop.iter) != 'to_restart':
            raise Untranslatable(f'{path.name}:{loop.lineno}: unexpected loop in restart_workers')
        pats = {
            'queue': r"queue = Pipe\(\)",
            'restart': r"w\.restart\(timeout=timeout, results_pipe=queue, \*\*kwargs\)",
            'delw': r"del self\._workers\[oldid\]",
            'popq': r"self\._queues\.pop\(oldid, None\)",
            'regw': r"self\._workers\[w\.id\] = w",
            'regq': r"self\._queues\[w\.id\] = queue\.parent_end",
        }
        pos = {}
        for i, st in enumerate(loop.body):
            txt = ast.unparse(st)
            k = next((k for k, rx in pats.items() if re.fullmatch(rx, txt)), None)
            if k is None:
                raise Untranslatable(f'{path.name}:{st.lineno}: no pattern for `{txt}` in restart_workers')
            pos[k] = i
        if 'restart' not in pos:
            raise Untranslatable(f'{path.name}: restart_workers does not restart')
        forget = [pos[k] for k in ('delw', 'popq') if k in pos]
        restart_first = all(pos['restart'] < f for f in forget)
        registers = 'regw' in pos and 'regq' in pos and 'queue' in pos and pos['regw'] > pos['restart'] and pos['regq'] > pos['restart']
        # ---- add_worker: the failure handler
        aw, _ = t.func_ast('add_worker')
        tr = next(n for n in aw.body if isinstance(n, ast.Try))
        if len(tr.handlers) != 1 or tr.handlers[0].type is not None:
            raise Untranslatable(f'{path.name}:{tr.lineno}: add_worker: expected one bare except clause')
        hsrc = ast.unparse(ast.Module(body=tr.handlers[0].body, type_ignores=[]))
        add_forgets = 'self._workers.pop(worker.id, None)' in hsrc and 'self._queues.pop(worker.id, None)' in hsrc
        add_term = bool(re.search(r"if worker:.*worker\.terminate\(\)", hsrc, re.S))
        add_reraise = isinstance(tr.handlers[0].body[-1], ast.Raise) and tr.handlers[0].body[-1].exc is None
        # ---- _close
        cl, _ = t.func_ast('_close')
        cw = next(n for n in cl.body if isinstance(n, ast.FunctionDef) and n.name == 'cleanup_worker')
        guarded = len(cw.body) == 1 and isinstance(cw.body[0], ast.Try) and [ast.unparse(h.type) for h in cw.body[0].handlers] == ['Exception'] and not cw.body[0].finalbody
        inner = cw.body[0].body if guarded else cw.body
        isrc = ast.unparse(ast.Module(body=inner, type_ignores=[]))
        seq_ok = (isrc.index('worker.close()') < isrc.index('alive = not worker.wait(timeout=timeout)')) if ('worker.close()' in isrc and 'alive = not worker.wait(timeout=timeout)' in isrc) else False
        term_if = None
        for n in ast.walk(ast.Module(body=inner, type_ignores=[])):
            if isinstance(n, ast.If) and 'worker.terminate(' in ast.unparse(ast.Module(body=n.body, type_ignores=[])):
                term_if = n
        term_ok = (term_if is not None and ast.unparse(term_if.test) == 'alive and (force is not False or not graceful)'
                   and any(re.fullmatch(r"worker\.terminate\(timeout=timeout, \*\*force_args\)", ast.unparse(x)) for x in term_if.body)) and seq_ok
        csrc = ast.unparse(cl)
        passes = bool(re.search(r"force_args = \{\}\n\s*if force is not None:\n\s*force_args\['force'\] = force", csrc))
        visits = bool(re.search(r"for worker in self\._workers\.values\(\):\n\s*t = threading\.Thread\(target=cleanup_worker, args=\(worker,\)\)\n\s*t\.start\(\)\n\s*_cleanup_jobs\.append\(t\)", csrc)) \
            and bool(re.search(r"for t in _cleanup_jobs:\n\s*t\.join\(\)", csrc))
        # the pool is marked closed only after every clean-up thread was joined: `self._pool_closed = True` is a statement of
        # the function body itself, behind the try that joins (not in a handler / finally, which also run when the join is interrupted)
        top = [ast.unparse(x) for x in cl.body]
        join_try = next((i for i, x in enumerate(cl.body) if isinstance(x, ast.Try) and 't.join()' in ast.unparse(x)), None)
        mark = next((i for i, x in enumerate(top) if x == 'self._pool_closed = True'), None)
        marks_after = join_try is not None and mark is not None and mark > join_try and \
            'self._pool_closed = True' not in ast.unparse(cl.body[join_try])
        jt = cl.body[join_try] if join_try is not None else None
        reraises = jt is not None and len(jt.handlers) == 1 and jt.handlers[0].type is None and isinstance(jt.handlers[0].body[-1], ast.Raise) \
            and jt.handlers[0].body[-1].exc is None and not jt.finalbody
        guard_first = isinstance(cl.body[0], ast.If) and ast.unparse(cl.body[0].test) == 'self._pool_closed' and isinstance(cl.body[0].body[0], ast.Return)
        b = lambda v: str(bool(v)).lower()  # noqa: E731
        out.append(f'/-- `Pool.restart_workers` ({path.name}:{rw.lineno}), `Pool.add_worker` ({path.name}:{aw.lineno}), `Pool._close` ({path.name}:{cl.lineno}) -/')
        out.append('def regCfg : Cfg :=\n  { restartBeforeForget := %s, registersNew := %s,\n    addForgets := %s, addTerminates := %s, addReraises := %s,\n    closeVisitsAll := %s, closeGuarded := %s, closeTerminatesIf := %s, closePassesForce := %s,\n    closeMarksAfterJoin := %s, closeReraises := %s, closeSkipsWhenClosed := %s }\n'
                   % (b(restart_first), b(registers), b(add_forgets), b(add_term), b(add_reraise), b(visits), b(guarded), b(term_ok), b(passes), b(marks_after), b(reraises), b(guard_first)))
    except Exception as e:
        errors.append(f'registry: {type(e).__name__}: {e}')
        out.append('def regCfg : Cfg := ⟨false, false, false, false, false, false, false, false, false, false, false, false⟩\n')
    out.append('end PwVerif.Gen')
    return '\n'.join(out) + '\n', errors


def regenerate_registry():
    text, errors = generate_registry()
    changed = write_if_changed(LEAN / 'PwVerif' / 'Gen' / 'PoolRegistry.lean', text)
    return errors, changed


# ======================================================================================= T-reset
def generate_poolreset():
    """Pool.run: which bookkeeping fields are re-initialised before the nested closures -> Gen/PoolReset.lean"""
    sys.path.insert(0, str(REPO))
    out = ['import PwVerif.Model.Pool', '/-! GENERATED by harness/translate.py (T-reset) from /repo - do not edit. -/', 'namespace PwVerif.Gen', 'open PwVerif.Pool', '']
    errors = []
    try:
        c = getattr(importlib.import_module('pyworkers.pool'), 'Pool')
        t = Translator(c)
        run, path = t.func_ast('run')
        outer = next(n for n in run.body if isinstance(n, ast.Try))
        pro = []
        for st in outer.body:
            if isinstance(st, ast.FunctionDef):
                break
            pro.append(ast.unparse(st))
        known = {
            'depleted': r"self\._depleted = False",
            'pending': r"self\._pending = 0",
            'ppw': r"self\._pending_per_worker = \{worker\.id: \[\] for worker in self\.workers\}",
            'retries': r"self\._retries = \[\]",
            'ret': r"ret = \[\]",
        }
        flags = {k: any(re.fullmatch(rx, x) for x in pro) for k, rx in known.items()}
        for x in pro:
            if x != 'self._map_guard = True' and not any(re.fullmatch(rx, x) for rx in known.values()):
                raise Untranslatable(f'{path.name}:{outer.lineno}: no pattern for `{x}` in the prologue of Pool.run')
        # the "run in progress" flag: set inside the try whose finally clears it - every way out of run() that has set it clears it
        before_try = [ast.unparse(x) for x in run.body[:run.body.index(outer)]]
        set_in_try = 'self._map_guard = True' in pro and not any('self._map_guard = True' in x for x in before_try)
        cleared = any(ast.unparse(x) == 'self._map_guard = False' for x in outer.finalbody)
        b = lambda v: str(bool(v)).lower()  # noqa: E731
        out.append(f'/-- what `Pool.run` ({path.name}:{run.lineno}) re-initialises on entry -/')
        out.append('def poolReset : ResetCfg := { depleted := %s, pending := %s, ppw := %s, retries := %s, ret := %s }\n'
                   % tuple(b(flags[k]) for k in ('depleted', 'pending', 'ppw', 'retries', 'ret')))
        out.append('/-- where the run-in-progress flag `_map_guard` is set and cleared -/')
        out.append('def poolGuard : GuardCfg := { setInTry := %s, clearedInFinally := %s }\n' % (b(set_in_try), b(cleared)))
    except Exception as e:
        errors.append(f'poolreset: {type(e).__name__}: {e}')
        out.append('def poolReset : ResetCfg := ⟨false, false, false, false, false⟩\n')
        out.append('def poolGuard : GuardCfg := ⟨false, false⟩\n')
    out.append('end PwVerif.Gen')
    return '\n'.join(out) + '\n', errors


def regenerate_poolreset():
    text, errors = generate_poolreset()
    changed = write_if_changed(LEAN / 'PwVerif' / 'Gen' / 'PoolReset.lean', text)
    return errors, changed


# ======================================================================================= T-acc
def generate_accessor():
    """ThreadWorker._get_result: the order of the reads in the condition that fabricates an outcome -> Gen/Accessor.lean"""
    sys.path.insert(0, str(REPO))
    out = ['import PwVerif.Model.Accessor', '/-! GENERATED by harness/translate.py (T-acc) from /repo - do not edit. -/', 'namespace PwVerif.Gen', 'open PwVerif.Accessor', '']
    errors = []
    try:
        c = getattr(importlib.import_module('pyworkers.thread'), 'ThreadWorker')
        t = Translator(c)
        fn, path = t.func_ast('_get_result')
        body = [b for b in fn.body if not (isinstance(b, ast.Expr) and isinstance(getattr(b, 'value', None), ast.Constant))]
        if not (len(body) == 2 and isinstance(body[0], ast.If) and not body[0].orelse
                and [ast.unparse(x) for x in body[0].body] == ['self._result = (False, None)'] and ast.unparse(body[1]) == 'return self._result'):
            raise Untranslatable(f'{path.name}:{fn.lineno}: _get_result does not have the known shape: {[ast.unparse(b) for b in body]}')
        test = body[0].test
        terms = [ast.unparse(v) for v in test.values] if isinstance(test, ast.BoolOp) and isinstance(test.op, ast.And) else [ast.unparse(test)]
        known = {'self._result is None': '.resultIsNone', 'self._started': '.started', 'not self.is_alive()': '.notAlive'}
        for x in terms:
            if x not in known:
                raise Untranslatable(f'{path.name}:{body[0].lineno}: unknown read `{x}` in the condition of _get_result')
        out.append(f'/-- `ThreadWorker._get_result` ({path.name}:{fn.lineno}): reads of the condition under which an outcome is fabricated, in evaluation order -/')
        out.append('def threadGetResult : List Read := [%s]\n' % ', '.join(known[x] for x in terms))
    except Exception as e:
        errors.append(f'accessor: {type(e).__name__}: {e}')
        out.append('def threadGetResult : List Read := []\n')
    out.append('end PwVerif.Gen')
    return '\n'.join(out) + '\n', errors


def regenerate_accessor():
    text, errors = generate_accessor()
    changed = write_if_changed(LEAN / 'PwVerif' / 'Gen' / 'Accessor.lean', text)
    return errors, changed


if __name__ == '__main__':
    errs, meta, changed = regenerate()
    print('RunLoops.lean', 'rewritten' if changed else 'unchanged')
    errs2, changed2 = regenerate_blocking()
    print('Blocking.lean', 'rewritten' if changed2 else 'unchanged')
    errs3, changed3 = regenerate_tables()
    print('Tables.lean', 'rewritten' if changed3 else 'unchanged')
    errs4, changed4 = regenerate_serverloop()
    print('ServerLoop.lean', 'rewritten' if changed4 else 'unchanged')
    errs5, changed5 = regenerate_frontend()
    print('Frontend.lean', 'rewritten' if changed5 else 'unchanged')
    errs6, changed6 = regenerate_shutdown()
    print('ShutdownPaths.lean', 'rewritten' if changed6 else 'unchanged')
    errs7, changed7 = regenerate_forward()
    print('Forward.lean', 'rewritten' if changed7 else 'unchanged')
    errs10, changed10 = regenerate_registry()
    print('PoolRegistry.lean', 'rewritten' if changed10 else 'unchanged')
    errs9, changed9 = regenerate_consumer()
    print('Consumer.lean', 'rewritten' if changed9 else 'unchanged')
    errs8, changed8 = regenerate_poolreset()
    print('PoolReset.lean', 'rewritten' if changed8 else 'unchanged')
    errs11, changed11 = regenerate_accessor()
    print('Accessor.lean', 'rewritten' if changed11 else 'unchanged')
    errs2 = errs2 + errs3 + errs4 + errs5 + errs6 + errs7 + errs8 + errs9 + errs10 + errs11
    for e in errs + errs2:
        print('UNTRANSLATABLE', e)
    sys.exit(1 if errs or errs2 else 0)








