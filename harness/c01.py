"""C01 — a dead worker has one definite, consistent, stable outcome."""
import os
import signal
import time

from common import Ctx, watchdog
import inject
import landing
import pwv_targets as TG


def shape_fail(obs_list):
    """returns a failure description or None. obs_list: repeated observations of a dead worker"""
    first = obs_list[0]
    if first.get('hang'):
        return 'hang', 'accessors block on a dead worker'
    for name, v in first.items():
        if isinstance(v, str) and v.startswith('RAISES'):
            return 'raises', f'{name} raises {v[7:]} on a dead worker'
    if first['is_alive'] is not False:
        return 'alive', 'is_alive() is not False after the worker was observed dead'
    he = first['has_error']
    if he is None:
        return 'has_error-None', 'has_error is None on a dead worker'
    if he is False and not (first['error'] == 'None'):
        return 'shape', f'has_error False but error {first["error"]}'
    if he is True and first['result'] != 'None':
        return 'shape', 'has_error True but result is not None'
    for later in obs_list[1:]:
        if later != first:
            return 'unstable', f'observations change after death: {first} then {later}'
    return None


def big(n):
    return b'x' * n


def accessor_runs(order_len):
    """ThreadWorker._get_result of the real class under every interleaving with the end of the work: a probe subclass
    intercepts the reads of `_result` / `_started` / `is_alive()` made by the accessor and, before the i-th of them, drives
    the child to the i-th phase of the sequence (running: the target waits; recorded: the target has returned and the
    child sits in `_cleanup`; dead: the thread has ended). Yields (phases, last, outcome)."""
    import itertools
    import threading
    import pyworkers.thread as TH
    rank = {'r': 0, 'c': 1, 'd': 2}
    for seq in itertools.product('rcd', repeat=order_len + 1):
        if any(rank[a] > rank[b] for a, b in zip(seq, seq[1:])):
            continue
        go, recorded, release = threading.Event(), threading.Event(), threading.Event()

        def work():
            go.wait(10)
            return 7

        state = {'reads': None, 'seq': seq, 'if_line': None}

        class Probe(TH.ThreadWorker):
            def _cleanup(self):
                recorded.set()
                release.wait(10)

            def _drive(self, lineno):
                # reads made on the line of the condition are its conjuncts, in order; a read on a later line of the accessor
                # is the final `return self._result`
                if state['reads'] is None:
                    return
                if state['if_line'] is None:
                    state['if_line'] = lineno
                if lineno == state['if_line']:
                    i = state['reads']
                    state['reads'] = i + 1
                    want = state['seq'][min(i, order_len - 1)]
                else:
                    want = state['seq'][order_len]
                if want in 'cd':
                    go.set()
                    recorded.wait(10)
                if want == 'd':
                    release.set()
                    object.__getattribute__(self, '_child').join(10)

            def __getattribute__(self, name):
                if name in ('_result', '_started'):
                    import sys
                    f = sys._getframe(1)
                    if f.f_code.co_name == '_get_result':
                        object.__getattribute__(self, '_drive')(f.f_lineno)
                return object.__getattribute__(self, name)

            def is_alive(self):
                import sys
                f = sys._getframe(1)
                if f.f_code.co_name == '_get_result':
                    self._drive(f.f_lineno)
                return super().is_alive()
        w = Probe(work)
        state['reads'] = 0
        try:
            r = w._get_result()
        finally:
            n_reads = state['reads']
            state['reads'] = None
        out = 'none' if r is None else ('own' if r == (True, 7) else ('fabricated' if r == (False, None) else repr(r)))
        go.set()
        release.set()
        w.wait(5)
        yield ''.join(seq[:order_len]), seq[order_len], out, n_reads


def main(ctx: Ctx):
    ctx.assumptions += [
        'E-L1: an exception raised by a trace function at a line event / an asynchronous exception delivered while the trace function spins behaves like an asynchronous exception delivered at that line (CPython 3.12); both modes are exercised',
        'E-L2: the translator\'s reading of each statement (pattern table in harness/translate.py) - validated on every run by comparing traced line events and outcomes of the real workers with the model at every landing point used',
        'landing points before the constructor can return are excluded for terminate (the parent has no worker object yet); SIGKILL before that point is C20\'s subject',
        'class defined in the main script: not exercised in this check (needs a separate main script)',
    ]
    ctx.cov['rule'] = ('(program, target behaviour, landing line event, event kind) over the six generated run-loop programs: every line event after start-up x {exception raised at the line, real terminate() arriving at the line, SIGKILL at the line} '
                       'x targets {returns, raises Exception, raises KeyboardInterrupt}; plus undecodable exception, kill while sending a result larger than the pipe buffer; repeated observation; '
                       'non-trivial = an event was injected; distinct by (program, target, k, kind)')
    meta = landing.regenerate(ctx)
    import translate
    errors, _ = translate.regenerate_accessor()      # T-acc: Gen/Accessor.lean from ThreadWorker._get_result
    for e in errors:
        ctx.broke('translation', 'harness/translate.py (T-acc)', e)
    ctx.lean()
    T = ctx.thorough
    progs = list(inject.KINDS)
    per = None if T else {'thread': 10 ** 6, 'process': 5, 'remote': 4}
    cases, _ = landing.plan(ctx, meta, progs, ['r', 'u', 'b'], ['raise', 'terminate', 'kill'], per_prog=per)
    recs = landing.run_cases(ctx, cases)
    def evaluate(c, rec):
        r = rec['real']
        landing.correspond(c, rec)
        if r.get('ctor') != 'ok' or 'obs' not in r:
            return
        if not r.get('dead'):
            return            # not observed dead: nothing to say for C01 (C04 covers liveness)
        f = shape_fail(r['obs'])
        if f:
            kind = inject.KINDS[rec['prog']][2]
            c.fail(f'{f[0]}:{kind}:target={rec["target"]}:{rec["mode"]}', f'{rec["prog"]} target={rec["target"]} event {rec["mode"]} at line event {rec["k"]}: {f[1]}', landing.describe(rec))
    for i, rec in enumerate(recs):
        ctx.case((rec['prog'], rec['target'], rec['k'], rec['mode']), rec['k'] is not None,
                 sample=landing.describe(rec) if i % 61 == 0 else None)
        ctx.count(f'{inject.KINDS[rec["prog"]][2]}:{rec["mode"]}')
        landing.judge(ctx, rec, evaluate)
    # ---- results / exceptions that cannot be rebuilt by the parent; kill while sending a big result
    sess = inject.Session()
    try:
        for prog in ('threadRun', 'processRun', 'remoteRun', 'pthreadRun', 'pprocessRun', 'premoteRun'):
            mod, clsname, kind, pers = inject.KINDS[prog]
            cls = getattr(__import__(mod, fromlist=[clsname]), clsname)
            kw = {'host': sess.addr(), 'main_path': ''} if kind == 'remote' else {}
            sess.write_conf(None)
            w = cls(TG.t_two_item if pers else TG.t_two, **kw)
            if pers:
                w.enqueue(1)
            watchdog(lambda: w.wait(10), 20)
            obs = inject.observe(w)
            ctx.case(('undecodable', prog), sample={'case': 'exception class needing ctor args', 'prog': prog, 'obs': obs[0]})
            f = shape_fail(obs)
            if f:
                ctx.fail(f'{f[0]}:{kind}:undecodable-exception', f'{prog}, target raises an exception whose class cannot be rebuilt by the parent: {f[1]}', {'prog': prog, 'target': 't_two', 'obs': obs})
        # ---- an accessor that races with the end of the work (thread kinds: the child writes the outcome itself).
        # Schedule: the caller is preempted inside the accessor, wherever it asks whether the child is alive, until the child
        # has finished. The outcome reported must still be the work's own.
        import pyworkers.thread as TH
        import pyworkers.persistent_thread as PTH
        for clsname, cls in (('ThreadWorker', TH.ThreadWorker), ('PersistentThreadWorker', PTH.PersistentThreadWorker)):
            for acc in ('result', 'has_error', 'error'):
                w = cls(TG.f_after, args=(0.25, 7)) if clsname == 'ThreadWorker' else cls(TG.f_after)
                if clsname != 'ThreadWorker':
                    w.enqueue(0.25, 7)
                    w.close()
                orig = w.is_alive
                w.is_alive = lambda w=w, orig=orig: (w._child.join(5), orig())[1]
                first = getattr(w, acc)
                del w.is_alive
                watchdog(lambda: w.wait(5), 10)
                obs = inject.observe(w)
                want = {'ThreadWorker': ("7", False), 'PersistentThreadWorker': ("1", False)}[clsname]
                ctx.case(('preempted-accessor', clsname, acc), True, sample={'case': 'accessor preempted until the child has finished', 'class': clsname, 'accessor': acc, 'first_read': repr(first), 'obs': obs[0]})
                got = (repr(w.result), w.has_error)
                if got != want:
                    ctx.fail(f'outcome-lost:thread:preempted-accessor', f'{clsname}: `{acc}` read while the work was finishing (caller preempted until the child ended): afterwards result={got[0]}, has_error={got[1]} instead of {want}',
                             {'scenario': 'preempted-accessor', 'class': clsname, 'accessor': acc})
        # ---- the same accessor under EVERY interleaving with the end of the work, compared with the model (Accessor.getResult
        # on the order of reads regenerated from /repo); the property itself: a recorded outcome is never replaced
        from common import LEAN
        import re as _re
        m_ = _re.search(r'def threadGetResult : List Read := \[(.*?)\]', (LEAN / 'PwVerif' / 'Gen' / 'Accessor.lean').read_text())
        order_len = len([x for x in m_.group(1).split(',') if x.strip()]) if m_ else 0
        if order_len:
            runs = list(accessor_runs(order_len))
            outs = ctx.model([f'acc r {ps} {last}' for ps, last, _, _ in runs]) or []
            for (ps, last, got, n_reads), mo in zip(runs, outs):
                ctx.case(('accessor', ps, last), ps != 'r' * order_len, sample={'case': 'ThreadWorker._get_result, child phase at each read', 'phases': ps, 'at_return': last, 'real': got, 'model': mo} if ps in ('rdd', 'rcd', 'rrr') else None)
                ctx.cov['traces_validated_against_impl'] += 1
                if got == 'fabricated':
                    ctx.fail('outcome-lost:thread:accessor-interleaving', f'ThreadWorker._get_result with the child seen in phases {ps} by its successive reads (r = running, c = outcome recorded, d = dead): a fabricated outcome replaces the recorded one', {'scenario': 'accessor-interleaving', 'phases': ps, 'last': last})
                if mo != got:
                    ctx.broke('correspondence', 'Accessor.getResult vs ThreadWorker._get_result', f'phases {ps} then {last}: real {got}, model {mo}')
        # ---- parent-side frontend thread still receiving the result while the remote child is already gone
        import threading
        import pyworkers.remote as R
        import pyworkers.persistent_remote as PR
        from pyworkers.remote import RemoteWorker
        for call in ('wait', 'terminate'):
            gate = threading.Event()
            orig = R.recv_msg

            def gated(sock, *a, comment=None, _orig=orig, _gate=gate, **k):
                if comment and comment.startswith('data: result'):
                    _gate.wait(10)
                return _orig(sock, *a, comment=comment, **k)
            R.recv_msg = gated
            PR.recv_msg = gated
            try:
                sess.write_conf(None)
                w = RemoteWorker(TG.t_ret, host=sess.addr(), main_path='')
                time.sleep(0.6)          # the backend has finished; its result is in flight
                st, r1 = watchdog(lambda: (w.wait(0.3) if call == 'wait' else w.terminate(0.3, force=False)), 10)   # force=True would SIGTERM this very process
                # the same call repeated while the frontend is still busy (the first one may have learnt that the remote
                # process is gone): whichever call first reports death, the outcome must be definite from then on
                st1b, r1b = watchdog(lambda: (w.wait(0.3) if call == 'wait' else w.terminate(0.3, force=False)), 10)
                st2, alive = watchdog(w.is_alive, 10)
                seen_dead = (r1 is True) or (r1b is True) or (alive is False)
                if (r1 is True or r1b is True) and alive is True:
                    ctx.fail('alive-after-reported-dead:remote:frontend-delay', f'RemoteWorker whose frontend thread is still receiving the result: {call}(0.3) twice -> {r1}, {r1b}, then is_alive() -> True',
                             {'prog': 'remoteRun', 'scenario': 'frontend-delay', 'call': call})
                before = inject.observe(w, 1) if seen_dead else None
                gate.set()
                w._child.join(5)
                watchdog(lambda: w.wait(5), 10)
                after = inject.observe(w)
                ctx.case(('frontend-delay', call), sample={'case': 'frontend thread delayed', 'call': call, 'first': r1, 'is_alive': alive, 'after': after[0]})
                f = shape_fail((before or []) + after)
                if f:
                    ctx.fail(f'{f[0]}:remote:frontend-delay', f'RemoteWorker whose frontend thread is still receiving the result: after {call}(0.3) twice -> {r1}, {r1b}, is_alive() -> {alive}: {f[1]}',
                             {'prog': 'remoteRun', 'scenario': 'frontend-delay', 'call': call, 'before': before, 'after': after})
            finally:
                R.recv_msg = orig
                PR.recv_msg = orig
                gate.set()
        for how in ('SIGKILL', 'terminate'):
            from pyworkers.process import ProcessWorker
            sess.write_conf(None)
            w = ProcessWorker(big, args=(8 * 1024 * 1024,))
            time.sleep(0.8)      # the child is now blocked in send (result larger than the pipe buffer)
            if how == 'SIGKILL':
                os.kill(w.pid, signal.SIGKILL)
                watchdog(lambda: w.wait(5), 10)
            else:
                watchdog(lambda: w.terminate(0.5, force=True), 10)
            obs = inject.observe(w)
            ctx.case(('midsend', how), sample={'case': 'killed while sending 8 MB', 'how': how, 'obs': obs[0]})
            f = shape_fail(obs)
            if f:
                ctx.fail(f'{f[0]}:process:kill-mid-send', f'ProcessWorker killed ({how}) while sending a result larger than the pipe buffer: {f[1]}', {'prog': 'processRun', 'how': how, 'obs': obs})
    finally:
        sess.close()


def replay(case):
    import common
    sess = inject.Session()
    try:
        if case.get('scenario') == 'preempted-accessor':
            import pyworkers.thread as TH
            import pyworkers.persistent_thread as PTH
            cls = getattr(TH if case['class'] == 'ThreadWorker' else PTH, case['class'])
            w = cls(TG.f_after, args=(0.25, 7)) if case['class'] == 'ThreadWorker' else cls(TG.f_after)
            if case['class'] != 'ThreadWorker':
                w.enqueue(0.25, 7)
                w.close()
            orig = w.is_alive
            w.is_alive = lambda: (w._child.join(5), orig())[1]
            print('first read of', case['accessor'], '->', repr(getattr(w, case['accessor'])))
            del w.is_alive
            w.wait(5)
            print('afterwards: result', repr(w.result), 'has_error', w.has_error, '(the work returned 7; a persistent worker reports its counter 1)')
        elif 'k' in case:
            r = inject.run_case(sess, case['prog'], case['target'], case['k'], case['mode'])
            print('real :', r.get('obs'), r.get('notes'))
            print('model:', common.run_driver([case['model_line']])[0])
        else:
            print(case)
    finally:
        sess.close()
