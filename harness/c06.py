"""C06 — a persistent result stream is a correct prefix and always ends, whatever happens."""
import multiprocessing as mp
import os
import signal
import threading
import time

from common import Ctx, watchdog
import inject
import landing
import pwv_targets as TG
import c05

EXPECTED = [12, 9]     # t_item(x, y=1) = x*x*y for enqueue(2, 3) and enqueue(3)


def isolated_blocked_consumer(kind, how):
    """blocked_consumer() in a process of its own; returns (blocked, values) | ('signal', -n) | ('hang', None)"""
    import json
    import re
    import subprocess
    import sys
    import tempfile
    from pathlib import Path
    with tempfile.NamedTemporaryFile('w', suffix='.json', delete=False) as f:
        json.dump({'case': {'scenario': 'blocked-consumer', 'kind': kind, 'how': how}}, f)
    from common import run_isolated
    try:
        rc, out, err, timed_out = run_isolated([sys.executable, str(Path(__file__).resolve().parent / 'check.py'), 'C06', '--replay', f.name], 120)
    finally:
        os.unlink(f.name)
    m = re.search(r'consumer still blocked=(True|False), values (\[[^\]]*\])', out)
    if m:
        return (m.group(1) == 'True', json.loads(m.group(2)))
    if timed_out:
        return ('hang', None)
    if rc < 0:
        return ('signal', rc)
    return ('error', (out + err)[-300:])


def blocked_consumer(sess, kind, how):
    """a consumer is blocked in results_iter() when the worker is stopped; returns (still blocked, values, worker)"""
    w = c05.mk(kind, sess, TG.t_swallow_on_neg if how == 'force' else TG.t_fail_on_neg)
    got = []
    t = threading.Thread(target=lambda: got.extend(w.results_iter()), daemon=True)
    w.enqueue(2)
    w.enqueue(3)
    t.start()
    time.sleep(0.5)
    if how == 'terminate':
        watchdog(lambda: w.terminate(2), 15)
    elif how == 'kill':
        os.kill(w.pid, signal.SIGKILL)
    elif how == 'force':
        w.enqueue(-1)
        time.sleep(0.3)
        watchdog(lambda: w.terminate(0.5, force=True), 15)
    else:
        w.enqueue(-1)
    t.join(8)
    return t.is_alive(), list(got), w


def main(ctx: Ctx):
    ctx.assumptions += [
        'E-S1: a pipe delivers EOF once every writer closed it / died; a queue.Queue (thread kinds) has no EOF - probed by the blocked-consumer runs',
        'E-L1/E-L2 as in C01; Stream.lean phases (beforeCall / inTarget / beforeBump / beforeSend) are the line events of the generated loop bodies',
    ]
    ctx.cov['rule'] = ('three persistent kinds, two items enqueued then close (plus sampled landing points for 0 and 5 items; thorough: 0, 1, 3, 5, 8): real terminate() at every line event after start-up (threads also hook-raised), SIGKILL at every line event (process, remote); '
                       'a consumer thread is blocked in results_iter() before the event; plus target exception in the k-th item, pool-style reader on a raw Pipe; '
                       'non-trivial = an event was injected; distinct by (program, k, mode)')
    meta = landing.regenerate(ctx)
    import translate
    errors, _ = translate.regenerate_forward()      # T-fwd: Gen/Forward.lean from the current _fetch_results
    for e in errors:
        ctx.broke('translation', 'harness/translate.py (T-fwd)', e)
    ctx.lean()
    T = ctx.thorough
    progs = ['pthreadRun', 'pprocessRun', 'premoteRun']
    per = None if T else {'thread': 10 ** 6, 'process': 14, 'remote': 10}
    cases, _ = landing.plan(ctx, meta, progs, ['r'], ['raise', 'terminate', 'kill'], per_prog=per)
    recs = landing.run_cases(ctx, cases)
    def expected_for(n):
        return [12] + [(i + 2) ** 2 for i in range(1, n)] if n else []

    def evaluate(c, rec, EXPECTED=EXPECTED):
        r = rec['real']
        kind = inject.KINDS[rec['prog']][2]
        landing.correspond(c, rec)
        if r.get('ctor') != 'ok' or 'results' not in r:
            return
        d = landing.describe(rec)
        res = r['results']
        line = landing.landing_line(rec)
        if res == 'hang':
            c.fail(f'results-iter-blocks:{kind}', f'{rec["prog"]}: results_iter() blocks on a dead worker (event {rec["mode"]} at line {line})', d)
            return
        if not isinstance(res, list) or res != EXPECTED[:len(res)]:
            c.fail(f'not-a-prefix:{kind}', f'{rec["prog"]}: results {res!r} are not a prefix of {EXPECTED} (event {rec["mode"]} at line {line})', d)
        m = rec['model']
        if m is not None and isinstance(res, list) and 'landing-point-not-reached' not in r['notes'] and 'terminate-never-arrived' not in r['notes']:
            n_model = sum(1 for x in m['results'] if x.startswith('item'))
            if n_model != len(res):
                c.broke('correspondence', 'Py.run results vs results_iter()', f'{rec["line"]}: real {res} model {m["results"]}')
    for i, rec in enumerate(recs):
        kind = inject.KINDS[rec['prog']][2]
        ctx.case((rec['prog'], rec['k'], rec['mode']), rec['k'] is not None, sample=landing.describe(rec) if i % 47 == 0 else None)
        ctx.count(f'{kind}:{rec["mode"]}')
        landing.judge(ctx, rec, evaluate)
    # ---- other numbers of items (the unbounded theorems C06_generated_unbounded_* quantify over the number of items and the
    # landing point: the model is compared with the code beyond the two items of the finite tables)
    for n in ((0, 1, 3, 5, 8) if T else (0, 5)):
        per_n = {'thread': 8, 'process': 8, 'remote': 6} if T else {'thread': 3, 'process': 3, 'remote': 2}
        cases_n, _ = landing.plan(ctx, meta, progs, ['r'], ['terminate', 'kill'], items=n, per_prog=per_n)
        exp_n = expected_for(n)
        for rec in landing.run_cases(ctx, cases_n, items=n):
            kind = inject.KINDS[rec['prog']][2]
            ctx.case((rec['prog'], rec['k'], rec['mode'], n), rec['k'] is not None,
                     sample=dict(landing.describe(rec), items=n) if rec['k'] is not None and rec['k'] % 29 == 0 else None)
            ctx.count(f'{kind}:{rec["mode"]}:items={n}')
            landing.judge(ctx, rec, lambda c, r_, e=exp_n: evaluate(c, r_, e), items=n)
    # ---- a target that raises: the run loop's own handlers and clean-up are executed, and a stop can land inside them
    per_u = None if T else {'thread': 10 ** 6, 'process': 6, 'remote': 4}
    cases_u, _ = landing.plan(ctx, meta, progs, ['u'], ['raise', 'terminate', 'kill'], items=2, per_prog=per_u)
    fin_lines = {p_: cleanup_lines(p_) for p_ in progs}

    def evaluate_u(c, rec):
        # a consumer is blocked in results_iter() before the stop: the stream has to end for it too
        evaluate(c, rec, [])
        r = rec['real']
        kind = inject.KINDS[rec['prog']][2]
        if r.get('ctor') == 'ok' and r.get('consumer_blocked'):
            line = landing.landing_line(rec)
            where = 'cleanup-landing' if line in fin_lines[rec['prog']] else 'landing'
            c.fail(f'blocked-consumer:{kind}:{where}', f'{rec["prog"]}, target raises: {rec["mode"]} landing at line {line} with a consumer blocked in results_iter(): the consumer is still blocked after the worker is dead',
                   dict(landing.describe(rec), scenario='raising-target-landing'))
    for rec in landing.run_cases(ctx, cases_u, items=2, consumer=True):
        kind = inject.KINDS[rec['prog']][2]
        ctx.case((rec['prog'], rec['k'], rec['mode'], 'u'), rec['k'] is not None,
                 sample=dict(landing.describe(rec), target='raises', consumer_blocked=rec['real'].get('consumer_blocked')) if rec['k'] is not None and rec['k'] % 23 == 0 else None)
        ctx.count(f'{kind}:{rec["mode"]}:target-raises')
        landing.judge(ctx, rec, evaluate_u, items=2, consumer=True)
    forward_correspondence(ctx)
    sess = inject.Session()
    try:
        # ---- thread kind: a terminate landing inside _cleanup (before it wrote the marker) with a consumer already blocked
        m0 = landing.model_runs(ctx, [inject.model_line('pthreadRun', 'r', 2, None, None, True)])
        if m0:
            tr = m0[0]['trace']
            fin = sorted(set(k for k, l in enumerate(tr) if l in cleanup_lines('pthreadRun') and k > tr.index(meta['pthreadRun']['startup_line'])))
            for k in (fin if T else fin[:1]):
                r = inject.run_case(sess, 'pthreadRun', 'r', k, 'terminate', items=2, consumer=True)
                ctx.case(('cleanup-landing', k), True, sample={'case': 'terminate lands inside _cleanup, consumer blocked before', 'k': k, 'line': tr[k], 'consumer_blocked': r.get('consumer_blocked'), 'results': r.get('results')})
                if r.get('consumer_blocked') or r.get('results') != EXPECTED:
                    ctx.fail('blocked-consumer:thread:cleanup-landing', f'PersistentThreadWorker: terminate() landing at line {tr[k]} (inside the finally/_cleanup of _run) with a consumer blocked in results_iter(): consumer still blocked={r.get("consumer_blocked")}, results {r.get("results")}',
                             {'prog': 'pthreadRun', 'k': k, 'mode': 'terminate', 'scenario': 'cleanup-landing'})
        # ---- consumer blocked in results_iter() before the worker is stopped
        # ('remote-ctx': a remote worker created inside a RemoteContext - the server hands the connection to the context process)
        for kind in ('thread', 'process', 'remote', 'remote-ctx'):
            for how in ('terminate', 'kill', 'exception', 'force'):
                if how in ('kill', 'force') and kind == 'thread':
                    continue
                # 'force': the target swallows the graceful request, the child has to be killed by terminate(force=True)
                # (remote kind: by the server, which then reports the outcome on the child's behalf)
                if kind == 'remote-ctx':
                    # in its own process: the parent side of a remote worker ends the *calling process* with SIGTERM when
                    # its frontend thread does not finish in time - that must show up as a failure, not kill the check
                    res = isolated_blocked_consumer(kind, how)
                    ctx.case(('blocked-consumer', kind, how), True, sample={'case': 'consumer blocked before the death', 'kind': kind, 'how': how, 'outcome': res})
                    if res != (False, [4, 9]):
                        what = (f'the process that called terminate() was ended by signal {-res[1]}' if res[0] == 'signal' else
                                f'no answer within 120 s' if res[0] == 'hang' else f'still blocked={res[0]}, got {res[1]}')
                        ctx.fail(f'blocked-consumer:{kind}:{how}', f'{kind}: consumer blocked in results_iter() before the worker was stopped ({how}): {what}',
                                 {'kind': kind, 'scenario': 'blocked-consumer', 'how': how})
                    continue
                blocked, got, w = blocked_consumer(sess, kind, how)
                ctx.case(('blocked-consumer', kind, how), True, sample={'case': 'consumer blocked before the death', 'kind': kind, 'how': how, 'got': list(got), 'still_blocked': blocked})
                if blocked or got != [4, 9]:
                    ctx.fail(f'blocked-consumer:{kind}:{how}', f'{kind}: consumer blocked in results_iter() before the worker was stopped ({how}): still blocked={blocked}, got {got}', {'kind': kind, 'scenario': 'blocked-consumer', 'how': how})
                # reads past the end of a worker that died on its own or was killed behind the parent's back: the parent has
                # not called is_alive() / wait() / terminate() since; the child (and the parent-side forwarding thread) are
                # given time to be really gone first, so that the read is issued after the death
                if how in ('exception', 'kill') and not blocked:
                    try:
                        w._child.join(6)
                    except Exception:
                        pass
                    time.sleep(0.5)
                    import queue as _queue
                    st, v = watchdog(lambda: w.next_result(), 6)
                    st2, v2 = watchdog(lambda: list(w.results_iter()), 6)
                    ctx.case(('read-past-end', kind, how), True, sample={'case': 'reads past the end of a worker that died on its own', 'kind': kind, 'how': how, 'next_result': st if st != 'exc' else type(v).__name__, 'results_iter': v2 if st2 == 'ok' else st2})
                    if not (st == 'exc' and isinstance(v, _queue.Empty)) or st2 != 'ok' or v2 != []:
                        ctx.fail(f'read-past-end-blocks:{kind}:{how}', f'{kind}: worker died ({how}) without the parent asking about it; after the stream had ended next_result() gave {st if st != "exc" else repr(v)} '
                                 f'and a second results_iter() gave {v2 if st2 == "ok" else st2} (expected queue.Empty and [])', {'kind': kind, 'scenario': 'read-past-end', 'how': how})
                try:
                    w.terminate(0.5, **({'force': True} if kind != 'thread' else {}))
                except Exception:
                    pass
                c05.drop(w)
        # ---- pool-style reader: raw Pipe handed in as results_pipe, must see the end marker or EOF
        from pyworkers.utils import Pipe
        for kind in ('process', 'remote'):
            for how in ('terminate', 'kill', 'exception', 'force'):
                q = Pipe()
                w = c05.mk(kind, sess, TG.t_swallow_on_neg if how == 'force' else TG.t_fail_on_neg, results_pipe=q)
                w.enqueue(2)
                w.enqueue(3)
                time.sleep(0.5)
                if how == 'terminate':
                    watchdog(lambda: w.terminate(2), 15)
                elif how == 'kill':
                    os.kill(w.pid, signal.SIGKILL)
                elif how == 'force':
                    w.enqueue(-1)
                    time.sleep(0.3)
                    watchdog(lambda: w.terminate(0.5, force=True), 15)
                else:
                    w.enqueue(-1)
                msgs, end = [], None
                t0 = time.time()
                conn = q.parent_end
                while time.time() - t0 < 8 and end is None:
                    if mp.connection.wait([conn], 0.2):
                        try:
                            m = conn.recv()
                        except EOFError:
                            end = 'eof'
                            break
                        if not m[1]:
                            end = 'marker'
                        else:
                            msgs.append(m[2])
                ctx.case(('pipe-reader', kind, how), True, sample={'case': 'reader multiplexing the raw results pipe', 'kind': kind, 'how': how, 'values': msgs, 'end': end})
                if end is None or msgs != [4, 9][:len(msgs)]:
                    ctx.fail(f'pipe-reader-no-end:{kind}:{how}', f'{kind}: a reader of the raw results pipe saw {msgs} and no end marker / EOF within 8 s after {how}', {'kind': kind, 'scenario': 'pipe-reader', 'how': how})
                try:
                    w.terminate(0.5, force=True)
                except Exception:
                    pass
    finally:
        sess.close()


def _real_forwarder():
    """returns real(msgs) -> (canonical line, stub worker): the real _fetch_results over a scripted message sequence"""
    import pyworkers.persistent_remote as PR
    from pyworkers.remote import ConnectionClosedError

    class End:
        def __init__(self):
            self.items, self.closed = [], False

        def put(self, m):
            self.items.append(m)

        def close(self):
            self.closed = True

    class Stub(PR.PersistentRemoteWorker):
        id = 'w'

        def __init__(self):        # no start-up: only _fetch_results is exercised
            self._results_pipe = type('P', (), {})()
            self._results_pipe.child_end = End()
            self._socket = None
            self._socket_closed = False
            self._result = None
            self._user_state = None

    def real(msgs):
        it = iter(msgs)

        def recv(sock, comment=None):
            try:
                t = next(it)
            except StopIteration:
                raise ConnectionClosedError()
            if t[0] == 'i':
                return (int(t[1:]), True, 'v', 'w')
            if t[0] == 'e':
                return (int(t[1:]), False, None, 'w')
            return (True, 0)
        old = PR.recv_msg
        PR.recv_msg = recv
        w = Stub()
        crashed = False
        try:
            w._fetch_results()
        except Exception:          # whatever escapes kills the forwarding thread where it stands
            crashed = True
        finally:
            PR.recv_msg = old
        out = ','.join(('i' if m[1] else 'e') + str(m[0]) for m in w._results_pipe.child_end.items)
        return f'crashed={int(crashed)} out={out}', w
    return real


def _run_forwarder(ms):
    return _real_forwarder()(ms)[0]


def forward_correspondence(ctx):
    """T-fwd + the real PersistentRemoteWorker._fetch_results over scripted message sequences vs Forward.fwd"""
    real = _real_forwarder()
    rng = ctx.rng
    cases = []
    # every well-formed stream with up to 4 results, and a seeded stream of malformed ones
    for j in range(5):
        for e in (None, j, j + 1):
            for f in (False, True):
                cases.append([f'i{c}' for c in range(1, j + 1)] + ([f'e{e}'] if e is not None else []) + (['f'] if f else []))
    for _ in range(150 if not ctx.thorough else 1500):
        n = rng.randint(0, 6)
        ms = []
        c = 0
        for _ in range(n):
            r = rng.random()
            if r < 0.6:
                c += 1
                ms.append(f'i{c if rng.random() < 0.85 else c + rng.choice([-1, 1, 2])}')
            elif r < 0.85:
                ms.append(f'e{c + rng.choice([0, 0, 1, 1, 2, -1])}' if c + 0 >= 0 else 'e0')
            else:
                ms.append('f')
        cases.append([m.replace('-', '') for m in ms])
    model = ctx.model(['fwd ' + ' '.join(ms) for ms in cases])
    for i, ms in enumerate(cases):
        got, w = real(ms)
        wf = i < 30
        ctx.case(('fwd', tuple(ms)), True, sample={'case': '_fetch_results over ' + ' '.join(ms), 'real': got} if i % 29 == 0 else None)
        ctx.count('fwd-wellformed' if wf else 'fwd-malformed')
        if model is not None:
            ctx.cov['traces_validated_against_impl'] += 1
            if model[i] != got:
                ctx.broke('correspondence', 'Forward.fwd vs PersistentRemoteWorker._fetch_results', f'messages {ms}: real {got} model {model[i]}')
        if wf:
            # the property itself on the real forwarder: the local stream is the results followed by exactly one end message
            items = w._results_pipe.child_end.items
            ends = [m for m in items if not m[1]]
            nres = sum(1 for m in ms if m[0] == 'i')
            if 'crashed=1' in got or len(ends) != 1 or items[-1][1] or [m[0] for m in items[:-1]] != list(range(1, nres + 1)):
                ctx.fail('forwarder-stream-not-ended-once', f'_fetch_results over the backend stream {ms} forwarded {got}: not the results followed by exactly one end-of-stream message',
                         {'scenario': 'forwarder', 'messages': ms})


def cleanup_lines(prog):
    """line numbers inside finally blocks of the translated program"""
    import re
    from common import LEAN
    txt = (LEAN / 'PwVerif' / 'Gen' / 'RunLoops.lean').read_text()
    m = re.search(r'def ' + prog + r' : List Stmt :=\n(.*?)\n\n', txt, re.S)
    body = m.group(1)
    # the last top-level list of the outer tryS is its finally block: take the text after the last `)] [`
    i = body.rfind(')] [')
    return {int(x) for x in re.findall(r'\.(?:line|call|ifS|ret) (\d+)', body[i:])}


def replay(case):
    if case.get('scenario') == 'blocked-consumer':
        sess = inject.Session()
        try:
            blocked, got, w = blocked_consumer(sess, case['kind'], case['how'])
            print(f"{case['kind']} / {case['how']}: consumer still blocked={blocked}, values {got} (expected False, [4, 9])")
            try:
                w.terminate(0.5, **({'force': True} if case['kind'] != 'thread' else {}))
            except Exception:
                pass
            c05.drop(w)
        finally:
            sess.close()
        return
    if case.get('scenario') == 'forwarder':
        import common
        common.repo_on_path()
        ms = case['messages']
        ctx = Ctx('C06', 'quick')
        got = _run_forwarder(ms)
        print('real :', got)
        print('model:', common.run_driver(['fwd ' + ' '.join(ms)])[0])
        return
    import c01
    c01.replay(case)
