"""C06 — a persistent result stream is a correct prefix and always ends, whatever happens."""
import multiprocessing as mp
import os
import signal
import threading
import time

from common import Ctx, watchdog
import inject
import landing
import pwv_targets as TG
import c05

EXPECTED = [12, 9]     # t_item(x, y=1) = x*x*y for enqueue(2, 3) and enqueue(3)


def main(ctx: Ctx):
    ctx.assumptions += [
        'E-S1: a pipe delivers EOF once every writer closed it / died; a queue.Queue (thread kinds) has no EOF - probed by the blocked-consumer runs',
        'E-L1/E-L2 as in C01; Stream.lean phases (beforeCall / inTarget / beforeBump / beforeSend) are the line events of the generated loop bodies',
    ]
    ctx.cov['rule'] = ('three persistent kinds, two items enqueued then close: real terminate() at every line event after start-up (threads also hook-raised), SIGKILL at every line event (process, remote); '
                       'a consumer thread is blocked in results_iter() before the event; plus target exception in the k-th item, pool-style reader on a raw Pipe; '
                       'non-trivial = an event was injected; distinct by (program, k, mode)')
    meta = landing.regenerate(ctx)
    ctx.lean()
    T = ctx.thorough
    progs = ['pthreadRun', 'pprocessRun', 'premoteRun']
    per = None if T else {'thread': 10 ** 6, 'process': 14, 'remote': 10}
    cases, _ = landing.plan(ctx, meta, progs, ['r'], ['raise', 'terminate', 'kill'], per_prog=per)
    recs = landing.run_cases(ctx, cases)
    def evaluate(c, rec):
        r = rec['real']
        kind = inject.KINDS[rec['prog']][2]
        landing.correspond(c, rec)
        if r.get('ctor') != 'ok' or 'results' not in r:
            return
        d = landing.describe(rec)
        res = r['results']
        line = landing.landing_line(rec)
        if res == 'hang':
            c.fail(f'results-iter-blocks:{kind}', f'{rec["prog"]}: results_iter() blocks on a dead worker (event {rec["mode"]} at line {line})', d)
            return
        if not isinstance(res, list) or res != EXPECTED[:len(res)]:
            c.fail(f'not-a-prefix:{kind}', f'{rec["prog"]}: results {res!r} are not a prefix of {EXPECTED} (event {rec["mode"]} at line {line})', d)
        m = rec['model']
        if m is not None and isinstance(res, list) and 'landing-point-not-reached' not in r['notes'] and 'terminate-never-arrived' not in r['notes']:
            n_model = sum(1 for x in m['results'] if x.startswith('item'))
            if n_model != len(res):
                c.broke('correspondence', 'Py.run results vs results_iter()', f'{rec["line"]}: real {res} model {m["results"]}')
    for i, rec in enumerate(recs):
        kind = inject.KINDS[rec['prog']][2]
        ctx.case((rec['prog'], rec['k'], rec['mode']), rec['k'] is not None, sample=landing.describe(rec) if i % 47 == 0 else None)
        ctx.count(f'{kind}:{rec["mode"]}')
        landing.judge(ctx, rec, evaluate)
    sess = inject.Session()
    try:
        # ---- thread kind: a terminate landing inside _cleanup (before it wrote the marker) with a consumer already blocked
        m0 = landing.model_runs(ctx, [inject.model_line('pthreadRun', 'r', 2, None, None, True)])
        if m0:
            tr = m0[0]['trace']
            fin = sorted(set(k for k, l in enumerate(tr) if l in cleanup_lines('pthreadRun') and k > tr.index(meta['pthreadRun']['startup_line'])))
            for k in (fin if T else fin[:1]):
                r = inject.run_case(sess, 'pthreadRun', 'r', k, 'terminate', items=2, consumer=True)
                ctx.case(('cleanup-landing', k), True, sample={'case': 'terminate lands inside _cleanup, consumer blocked before', 'k': k, 'line': tr[k], 'consumer_blocked': r.get('consumer_blocked'), 'results': r.get('results')})
                if r.get('consumer_blocked') or r.get('results') != EXPECTED:
                    ctx.fail('blocked-consumer:thread:cleanup-landing', f'PersistentThreadWorker: terminate() landing at line {tr[k]} (inside the finally/_cleanup of _run) with a consumer blocked in results_iter(): consumer still blocked={r.get("consumer_blocked")}, results {r.get("results")}',
                             {'prog': 'pthreadRun', 'k': k, 'mode': 'terminate', 'scenario': 'cleanup-landing'})
        # ---- consumer blocked in results_iter() before the worker is stopped
        for kind in ('thread', 'process', 'remote'):
            for how in ('terminate', 'kill', 'exception'):
                if how == 'kill' and kind == 'thread':
                    continue
                w = c05.mk(kind, sess, TG.t_fail_on_neg)
                got = []
                t = threading.Thread(target=lambda: got.extend(w.results_iter()), daemon=True)
                w.enqueue(2)
                w.enqueue(3)
                t.start()
                time.sleep(0.5)
                if how == 'terminate':
                    watchdog(lambda: w.terminate(2), 15)
                elif how == 'kill':
                    os.kill(w.pid, signal.SIGKILL)
                else:
                    w.enqueue(-1)
                t.join(8)
                blocked = t.is_alive()
                ctx.case(('blocked-consumer', kind, how), True, sample={'case': 'consumer blocked before the death', 'kind': kind, 'how': how, 'got': list(got), 'still_blocked': blocked})
                if blocked or got != [4, 9]:
                    ctx.fail(f'blocked-consumer:{kind}:{how}', f'{kind}: consumer blocked in results_iter() before the worker was stopped ({how}): still blocked={blocked}, got {got}', {'kind': kind, 'scenario': 'blocked-consumer', 'how': how})
                try:
                    w.terminate(0.5, **({'force': True} if kind != 'thread' else {}))
                except Exception:
                    pass
        # ---- pool-style reader: raw Pipe handed in as results_pipe, must see the end marker or EOF
        from pyworkers.utils import Pipe
        for kind in ('process', 'remote'):
            for how in ('terminate', 'kill', 'exception'):
                q = Pipe()
                w = c05.mk(kind, sess, TG.t_fail_on_neg, results_pipe=q)
                w.enqueue(2)
                w.enqueue(3)
                time.sleep(0.5)
                if how == 'terminate':
                    watchdog(lambda: w.terminate(2), 15)
                elif how == 'kill':
                    os.kill(w.pid, signal.SIGKILL)
                else:
                    w.enqueue(-1)
                msgs, end = [], None
                t0 = time.time()
                conn = q.parent_end
                while time.time() - t0 < 8 and end is None:
                    if mp.connection.wait([conn], 0.2):
                        try:
                            m = conn.recv()
                        except EOFError:
                            end = 'eof'
                            break
                        if not m[1]:
                            end = 'marker'
                        else:
                            msgs.append(m[2])
                ctx.case(('pipe-reader', kind, how), True, sample={'case': 'reader multiplexing the raw results pipe', 'kind': kind, 'how': how, 'values': msgs, 'end': end})
                if end is None or msgs != [4, 9][:len(msgs)]:
                    ctx.fail(f'pipe-reader-no-end:{kind}:{how}', f'{kind}: a reader of the raw results pipe saw {msgs} and no end marker / EOF within 8 s after {how}', {'kind': kind, 'scenario': 'pipe-reader', 'how': how})
                try:
                    w.terminate(0.5, force=True)
                except Exception:
                    pass
    finally:
        sess.close()


def cleanup_lines(prog):
    """line numbers inside finally blocks of the translated program"""
    import re
    from common import LEAN
    txt = (LEAN / 'PwVerif' / 'Gen' / 'RunLoops.lean').read_text()
    m = re.search(r'def ' + prog + r' : List Stmt :=\n(.*?)\n\n', txt, re.S)
    body = m.group(1)
    # the last top-level list of the outer tryS is its finally block: take the text after the last `)] [`
    i = body.rfind(')] [')
    return {int(x) for x in re.findall(r'\.(?:line|call|ifS|ret) (\d+)', body[i:])}


def replay(case):
    import c01
    c01.replay(case)
