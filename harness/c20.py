"""C20 — creating a worker returns a usable worker or raises, it never hangs."""
import os
import signal
import socket
import struct
import threading
import time

from common import Ctx, watchdog
import inject
import remote_peer as RP
import pwv_targets as TG

HANG = 8


class FakeServer:
    """plays the server side of the handshake from a script, then vanishes"""

    def __init__(self, script):
        self.script = script
        self.srv = socket.socket()
        self.srv.bind(('127.0.0.1', 0))
        self.srv.listen()
        self.addr = self.srv.getsockname()
        self.t = threading.Thread(target=self.run, daemon=True)
        self.t.start()

    @staticmethod
    def frame(obj):
        from pyworkers import remote_pickle
        data = remote_pickle.dumps(obj)
        return struct.pack('!I', len(data)) + data

    @staticmethod
    def vanish(sock, how):
        if how == 'rst':
            sock.setsockopt(socket.SOL_SOCKET, socket.SO_LINGER, struct.pack('ii', 1, 0))
        sock.close()

    def read_msgs(self, conn, n):
        for _ in range(n):
            hdr = b''
            while len(hdr) < 4:
                c = conn.recv(4 - len(hdr))
                if not c:
                    return
                hdr += c
            left = int.from_bytes(hdr, 'big')
            while left:
                c = conn.recv(min(left, 65536))
                if not c:
                    return
                left -= len(c)

    def run(self):
        step, off, how = self.script
        conn, _ = self.srv.accept()
        conn.settimeout(5)
        ctrl_l = ctrl = None
        try:
            self.read_msgs(conn, 2)              # header + pickled worker
            ctrl_l = socket.socket()
            ctrl_l.bind(('127.0.0.1', 0))
            if step == 'refuse':
                addr = ctrl_l.getsockname()
                ctrl_l.close()                   # nobody listens there any more
                ctrl_l = None
                conn.sendall(self.frame(addr))
                time.sleep(0.5)
                return
            ctrl_l.listen()
            m1 = self.frame(ctrl_l.getsockname())
            if step == 'addr':
                conn.sendall(m1[:off])
                return
            conn.sendall(m1)
            ctrl_l.settimeout(5)
            ctrl, _ = ctrl_l.accept()
            m2 = self.frame(('fakehost', 4242, 4242, 4242))
            if step == 'info':
                ctrl.sendall(m2[:off])
                return
            if step == 'garbage-info':
                ctrl.sendall(self.frame(('only', 'two')))
                time.sleep(0.3)
                return
        except Exception:
            pass
        finally:
            for x in (ctrl, conn):
                if x is not None:
                    try:
                        self.vanish(x, how)
                    except Exception:
                        pass
            if ctrl_l is not None:
                ctrl_l.close()
            self.srv.close()


def construct(cls, addr, **kw):
    """returns ('ok', worker) | ('raises', ExcName) | ('hang', None)"""
    box = {}

    def go():
        box['w'] = cls(TG.f_add, host=addr, main_path='', **kw)
    st, e = watchdog(go, HANG)
    if st == 'ok':
        return 'ok', box['w']
    if st == 'exc':
        return 'raises', type(e).__name__
    return 'hang', None


def main(ctx: Ctx):
    ctx.assumptions += [
        'a constructor that has not returned or raised within 8 s counts as hanging',
        'a peer that stays connected and silent for ever is outside the property\'s quantifier (FIN, RST, refusal, unknown context, death are in); the server\'s own "answers or closes" behaviour is C11 / C20_server_answers_or_closes',
        'process kind: the child is SIGKILLed by the injection hook at line events before it reports its identity',
    ]
    ctx.cov['rule'] = ('scripted fake server: control-address message cut at every byte offset (FIN, RST), control connection refused, runtime-info message cut at every offset (FIN, RST), undecodable runtime info; real server: unknown context id, '
                       'server SIGKILLed before / during the handshake; process kind: child killed at each line event before it reports; for {one-shot, persistent} remote kinds; non-trivial = every case; distinct by (kind, step, offset, how)')
    import translate
    for fn in (translate.regenerate_frontend, translate.regenerate_serverloop):
        errors, _ = fn()
        for e in errors:
            ctx.broke('translation', 'harness/translate.py (T-front/T-srv)', e)
    meta_errors, meta, _ = translate.regenerate()
    ctx.lean()
    T = ctx.thorough
    rng = ctx.rng
    from pyworkers.remote import RemoteWorker
    from pyworkers.persistent_remote import PersistentRemoteWorker
    from pyworkers.process import ProcessWorker
    m1 = len(FakeServer.frame(('127.0.0.1', 54321)))
    m2 = len(FakeServer.frame(('fakehost', 4242, 4242, 4242)))
    scripts = [('refuse', 0, 'fin'), ('garbage-info', 0, 'fin')]
    for off in range(0, m1):
        for how in ('fin', 'rst'):
            scripts.append(('addr', off, how))
    for off in range(0, m2):
        for how in ('fin', 'rst'):
            scripts.append(('info', off, how))
    if not T:
        fixed = [s for s in scripts if s[0] in ('refuse', 'garbage-info') or s[1] in (0, 1, 3, 4, 5)]
        scripts = fixed + rng.sample([s for s in scripts if s not in fixed], 24)
    for i, script in enumerate(scripts):
        for cls in ((RemoteWorker, PersistentRemoteWorker) if (T or i % 3 == 0) else (RemoteWorker if i % 2 else PersistentRemoteWorker,)):
            fs = FakeServer(script)
            res, info = construct(cls, fs.addr)
            fs.t.join(3)
            ctx.case((cls.__name__,) + script, True, sample={'class': cls.__name__, 'server_script': script, 'constructor': [res, info if res != 'ok' else 'worker']} if i % 19 == 0 else None)
            ctx.count(f'fake:{script[0]}')
            desc = {'class': cls.__name__, 'script': list(script)}
            if res == 'hang':
                ctx.fail(f'ctor-hangs:remote:{script[0]}', f'{cls.__name__} constructor hangs when the server {script[0]}-step is cut at byte {script[1]} ({script[2]})', desc)
            elif res == 'ok':
                ctx.fail(f'ctor-returns-unusable:remote:{script[0]}', f'{cls.__name__} constructor returned a worker although the handshake was cut ({script})', desc)
    # ---- real server: unknown context id; server killed around the handshake
    sess = inject.Session()
    try:
        from common import spawn_server
        for cls in (RemoteWorker, PersistentRemoteWorker):
            sess.write_conf(None)
            srv = spawn_server(('127.0.0.1', 0))
            res, info = construct(cls, srv.addr, context=4242)
            ok_after = RP.round_trip(srv.addr)
            ctx.case(('unknown-context', cls.__name__), True, sample={'case': 'unknown context id', 'class': cls.__name__, 'constructor': [res, info if res != 'ok' else 'worker'], 'server_still_serves': ok_after})
            if res != 'raises' or ok_after != (False, 8):
                ctx.fail(f'ctor-{res}:remote:unknown-context', f'{cls.__name__}(context=4242) on a server without that context: constructor {res} {info if res != "ok" else ""}; server afterwards {ok_after}', {'class': cls.__name__, 'scenario': 'unknown-context'})
            left = RP.descendants(srv.pid)
            os.kill(srv.pid, signal.SIGKILL)
            for p in left:
                try:
                    os.kill(p, signal.SIGKILL)
                except Exception:
                    pass
            # server killed while the client is constructing
            for delay in (0.0, 0.02, 0.1):
                sess.write_conf(None)
                srv = spawn_server(('127.0.0.1', 0))
                pid = srv.pid
                threading.Timer(delay, lambda: os.kill(pid, signal.SIGKILL)).start()
                res, info = construct(cls, srv.addr)
                ctx.case(('server-killed', cls.__name__, delay), True)
                if res == 'hang':
                    ctx.fail('ctor-hangs:remote:server-killed', f'{cls.__name__} constructor hangs when the server is SIGKILLed {delay}s after the constructor started', {'class': cls.__name__, 'scenario': 'server-killed', 'delay': delay})
                if res == 'ok':
                    try:
                        info.terminate(0.5, force=False)
                    except BaseException:  # noqa
                        pass
                time.sleep(0.2)
                for p in RP.descendants(os.getpid()):
                    pass
        # ---- remote kinds: the backend child dies before it reported its identity (its payload kills it)
        for cls in (RemoteWorker, PersistentRemoteWorker):
            sess.write_conf(None)
            srv = spawn_server(('127.0.0.1', 0))
            box = {}

            def go():
                box['w'] = cls(TG.f_add, args=[TG.Bomb(os.getpid())], host=srv.addr, main_path='')
            st, e = watchdog(go, HANG)
            after = RP.round_trip(srv.addr)
            ctx.case(('remote-child-dies', cls.__name__), True, sample={'case': 'backend child dies before reporting', 'class': cls.__name__, 'constructor': st if st != 'exc' else 'raises ' + type(e).__name__, 'server_afterwards': after})
            if st == 'hang' or after != (False, 8):
                ctx.fail(f'ctor-{"hangs" if st == "hang" else "ok-but-server-stuck"}:remote:child-dies-at-startup', f'{cls.__name__}: backend child dies before reporting its identity: constructor {st}; a following client gets {after}', {'class': cls.__name__, 'scenario': 'remote-child-dies'})
            for p in RP.descendants(srv.pid) + [srv.pid]:
                try:
                    os.kill(p, signal.SIGKILL)
                except Exception:
                    pass
        # ---- every kind: the child-side start-up hook (_init_child) of a subclass raises
        classes = TG._mk_failing_init()
        sess.write_conf(None)
        srv2 = spawn_server(('127.0.0.1', 0))
        try:
            for cls in classes:
                kw = {'host': srv2.addr, 'main_path': ''} if cls.is_remote else {}
                box = {}

                def go(cls=cls, kw=kw):
                    box['w'] = cls(TG.f_add, args=[1], **kw)
                st, e = watchdog(go, HANG)
                w = box.get('w')
                obs = None
                if st == 'ok' and w is not None:
                    st2, r = watchdog(lambda: w.wait(5), 10)
                    obs = (st2, r, w.has_error if st2 == 'ok' and r else None)
                ctx.case(('failing-init-child', cls.__name__), True, sample={'case': 'start-up hook of the child raises', 'class': cls.__name__, 'constructor': st if st != 'exc' else 'raises ' + type(e).__name__, 'then': obs})
                if st == 'hang':
                    ctx.fail(f'ctor-hangs:{"remote" if cls.is_remote else "process" if cls.is_process else "thread"}:init-child-raises', f'{cls.__name__}: the constructor hangs when _init_child raises in the child', {'class': cls.__name__, 'scenario': 'failing-init-child'})
                elif st == 'ok' and obs != ('ok', True, True):
                    ctx.fail(f'ctor-returns-unusable:init-child-raises', f'{cls.__name__}: constructor returned although _init_child raised; the worker then: wait/has_error = {obs}', {'class': cls.__name__, 'scenario': 'failing-init-child'})
                try:
                    if w is not None:
                        w.terminate(0.5, **({'force': True} if not cls.is_thread else {}))
                except BaseException:  # noqa
                    pass
        finally:
            for p in RP.descendants(srv2.pid) + [srv2.pid]:
                try:
                    os.kill(p, signal.SIGKILL)
                except Exception:
                    pass
        # ---- process kind: the child dies before it reported its identity
        import landing
        ml = landing.model_runs(ctx, [inject.model_line('processRun', 'r', 0, None, None, False)])
        if ml:
            tr = ml[0]['trace']
            sl = meta.get('processRun', {}).get('startup_line')
            upto = tr.index(sl) + 1 if sl in tr else 0
            ks = list(range(0, upto)) if T else sorted(set([0, 1, upto // 2, upto - 1, upto]) & set(range(0, upto + 1)))
            for k in ks:
                r = inject.run_case(sess, 'processRun', 'r', k, 'kill')
                ctx.case(('process-child-killed', k), True, sample={'case': 'process child SIGKILLed before reporting', 'k': k, 'ctor': r.get('ctor')} if k == 0 else None)
                if r.get('ctor') == 'hang':
                    ctx.fail('ctor-hangs:process:child-killed', f'ProcessWorker constructor hangs when the child is killed at line event {k} (before reporting its identity)', {'prog': 'processRun', 'k': k, 'mode': 'kill'})
                elif r.get('ctor') == 'ok' and r.get('dead') is False:
                    ctx.fail('ctor-returns-unusable:process:child-killed', f'ProcessWorker constructor returned a worker that claims to be alive although its child was killed at line event {k}', {'prog': 'processRun', 'k': k})
    finally:
        sess.close()


def replay(case):
    if case.get('scenario') == 'failing-init-child':
        cls = next(c for c in TG._mk_failing_init() if c.__name__ == case['class'])
        from common import spawn_server
        srv = spawn_server(('127.0.0.1', 0)) if cls.is_remote else None
        box = {}

        def go():
            box['w'] = cls(TG.f_add, args=[1], **({'host': srv.addr, 'main_path': ''} if srv else {}))
        print('constructor:', watchdog(go, 8))
        if srv:
            for p in RP.descendants(srv.pid) + [srv.pid]:
                try:
                    os.kill(p, signal.SIGKILL)
                except Exception:
                    pass
        return
    if 'script' in case:
        from pyworkers.remote import RemoteWorker
        fs = FakeServer(tuple(case['script']))
        print(construct(RemoteWorker, fs.addr))
    else:
        print(case)
