"""C10 — framing: correspondence of `PwVerif.Framing.recvN` with the real
`recv_msg`/`send_msg` over a scripted socket, plus the property's own oracle."""
import itertools
import socket
import struct
import threading

from common import Ctx, REPO, watchdog
import sys
sys.path.insert(0, str(REPO))


class Spin(BaseException):
    pass


class ScriptSock:
    """recv(n) serves the stream according to a cut list (cut c -> at most c+1 bytes);
    after the stream is exhausted every recv returns b'' (sticky EOF)."""

    def __init__(self, data, cuts, rst_at_end=False):
        self.data = data
        self.cuts = list(cuts)
        self.calls = 0
        self.eof_calls = 0
        self.rst = rst_at_end

    def recv(self, n, flags=0):
        # (flags such as MSG_WAITALL do not forbid a short read: a signal handled by the receiving thread cuts it short)
        self.calls += 1
        if not self.data:
            self.eof_calls += 1
            if self.rst:
                raise (self.rst if isinstance(self.rst, BaseException) else ConnectionResetError('scripted RST'))
            if self.eof_calls > 2000:
                raise Spin()
            return b''
        k = min(n, self.cuts.pop(0) + 1) if self.cuts else n
        chunk, self.data = self.data[:k], self.data[k:]
        return chunk


class RecSock:
    def __init__(self):
        self.buf = b''

    def sendall(self, b):
        self.buf += b


class ShortSock:
    """Sending side: a transport whose `send` / `sendmsg` accept at most caps[i]+1 bytes per call (everything once the
    list is exhausted) - legal behaviour of a socket with a timeout, a non-blocking socket or a send interrupted by a
    signal. `sendall` is the contractual loop over `send`. Everything accepted is recorded in `wire`."""

    def __init__(self, caps):
        self.caps = list(caps)
        self.wire = b''
        self.calls = 0

    def _accept(self, data):
        self.calls += 1
        if self.calls > 100000:
            raise Spin()
        k = min(len(data), self.caps.pop(0) + 1) if self.caps else len(data)
        self.wire += bytes(data[:k])
        return k

    def send(self, data, flags=0):
        return self._accept(bytes(data))

    def sendall(self, data, flags=0):
        data = bytes(data)
        while data:
            data = data[self._accept(data):]

    def sendmsg(self, buffers, ancdata=(), flags=0, address=None):
        return self._accept(b''.join(bytes(b) for b in buffers))

    def sendto(self, data, *a):
        return self._accept(bytes(data))

    def gettimeout(self):
        return None

    def fileno(self):
        return -1


def run_impl(remote, data, cuts, k, rst=False):
    """Returns (list of canonical results, total recv calls)."""
    s = ScriptSock(data, cuts, rst)
    out = []
    for _ in range(k):
        try:
            obj = remote.recv_msg(s)
            out.append(('msg', obj))
        except remote.ConnectionClosedError:
            out.append(('closed',))
            break
        except Spin:
            out.append(('spin',))
            break
        except Exception as e:  # unpickling garbage etc.
            out.append(('error', type(e).__name__))
            break
    return out, s.calls


def canon_model(remote_pickle, line):
    out = []
    for tok in line.split('|'):
        if tok.startswith('msg:'):
            body = bytes.fromhex(tok[4:])
            try:
                out.append(('msg', remote_pickle.loads(body)))
            except Exception as e:
                out.append(('error', type(e).__name__))
                break
        else:
            out.append((tok,))
    return out


def compositions(n):
    """all cut lists (as cut values c = part-1) of a stream of n bytes"""
    for bits in itertools.product((0, 1), repeat=max(n - 1, 0)):
        parts, cur = [], 1
        for b in bits:
            if b:
                parts.append(cur)
                cur = 1
            else:
                cur += 1
        parts.append(cur)
        yield [p - 1 for p in parts]


def gen_cases(ctx, remote):
    """yield (kind, msgs or None, data, cuts, k, expected or None)"""
    rng = ctx.rng
    T = ctx.thorough

    def stream(msgs):
        r = RecSock()
        for m in msgs:
            remote.send_msg(r, m)
        return r.buf

    small_msgs = [None, 0, b'', (), 'a', [1, 2], {'k': None}, (1, 'x', None)]
    # (a) exhaustive segmentation of short streams
    for msgs in ([None], [0], [None, None] if T else None, [()], [b''] if T else None):
        if msgs is None:
            continue
        data = stream(msgs)
        for cuts in compositions(len(data)):
            yield ('seg-exhaustive', msgs, data, cuts, len(msgs) + 1)
    # sampled segmentation of a two-message stream in quick tier
    data = stream([None, 0])
    allc = list(compositions(len(data)))
    for cuts in rng.sample(allc, 300 if not T else 3000):
        yield ('seg-sampled', [None, 0], data, cuts, 3)
    # (b) every single / double cut and every truncation offset of longer streams
    payload_sizes = [0, 1, 300, 70000] + ([400000] if T else [])
    for n in (1, 2, 3, 4):
        msgs = []
        for i in range(n):
            sz = payload_sizes[(i + n) % len(payload_sizes)] if n > 1 else payload_sizes[rng.randrange(len(payload_sizes))]
            msgs.append(bytes(rng.randrange(256) for _ in range(min(sz, 64))) * (sz // 64 + 1) if sz else rng.choice(small_msgs))
        data = stream(msgs)
        L = len(data)
        # boundaries of messages in the stream
        offs = sorted(set([0, 1, 2, 3, 4, 5, L - 1, L - 2] + [rng.randrange(L) for _ in range(40 if not T else 200)]))
        # message boundaries and their neighbours
        b = 0
        for m in msgs:
            body = len(stream([m]))
            for d in (-1, 0, 1, 2, 3, 4, 5):
                offs.append(b + d)
            b += body
        offs = sorted(set(o for o in offs if 0 <= o < L))
        for o in offs:
            # truncation at offset o (stream ends after o bytes), random cuts
            cuts = [rng.choice([0, 0, 1, 3, 7, 100, 5000]) for _ in range(rng.randrange(0, 12))]
            yield ('trunc', msgs, data[:o], cuts, n + 1)
        # single cut positions: first recv limited
        for o in offs[:60]:
            yield ('cut1', msgs, data, [max(o - 1, 0)], n + 1)
        for _ in range(30 if not T else 300):
            a, c = rng.randrange(1, 6), rng.randrange(0, 3000)
            yield ('cut2', msgs, data, [a - 1, c], n + 1)
        for _ in range(50 if not T else 500):
            cuts = [rng.choice([0, 0, 0, 1, 2, 3, 10, 1000, 65535]) for _ in range(rng.randrange(1, 400))]
            yield ('cuts-random', msgs, data, cuts, n + 1)
    # (c) malformed streams: garbage bytes
    for _ in range(100 if not T else 1000):
        L = rng.randrange(0, 40)
        data = bytes(rng.choice([0, 0, 0, 1, 2, 5, 255, rng.randrange(256)]) for _ in range(L))
        cuts = [rng.randrange(0, 4) for _ in range(rng.randrange(0, 10))]
        yield ('garbage', None, data, cuts, 3)


def probe_socketpair(ctx, remote):
    """E-F1: on a real socket, after the writer closes, recv returns b'' forever;
    messages written in slices are reassembled."""
    a, b = socket.socketpair()
    msgs = [b'x' * 100000, None, {'k': [1, 2, 3]}]
    r = RecSock()
    for m in msgs:
        remote.send_msg(r, m)
    data = r.buf
    cutoff = len(data) - 3

    def writer():
        i = 0
        rng = ctx.rng
        while i < cutoff:
            k = min(rng.choice([1, 2, 7, 1000, 40000]), cutoff - i)
            a.sendall(data[i:i + k])
            i += k
        a.close()
    t = threading.Thread(target=writer)
    t.start()
    got = []

    def reader():
        try:
            for _ in range(4):
                got.append(remote.recv_msg(b))
        except remote.ConnectionClosedError:
            got.append('closed')
    st, _ = watchdog(reader, 20)
    t.join(5)
    if st == 'hang':
        ctx.case(('socketpair',))
        ctx.fail('socketpair:spin', 'real socketpair: recv_msg never returns after the peer closed inside a message',
                 {'probe': 'socketpair', 'stream_len': len(data), 'closed_after': cutoff})
        return
    eofs = [b.recv(10) for _ in range(3)]
    b.close()
    ok = got == msgs[:2] + ['closed'] and eofs == [b'', b'', b'']
    ctx.case(('socketpair',), sample={'probe': 'socketpair', 'ok': ok})
    if not ok:
        ctx.fail('socketpair-truncation', 'real socketpair: truncated stream not reported as closed / EOF not sticky', {'got': repr(got)[:300], 'eofs': repr(eofs)})


def send_cases(ctx, remote, remote_pickle):
    """the sending side: the real send_msg over a short-writing transport vs Framing.sendMsgs; then the receiver"""
    rng = ctx.rng
    T = ctx.thorough
    small = [None, 0, b'', (), 'a', [1, 2], {'k': None}]
    cases = []
    for _ in range(150 if not T else 1500):
        msgs = [rng.choice(small + [bytes(rng.randrange(256) for _ in range(rng.choice([1, 5, 300, 5000])))]) for _ in range(rng.randint(1, 4))]
        caps = [rng.choice([0, 0, 1, 2, 3, 4, 5, 7, 100, 4000]) for _ in range(rng.randrange(0, 40))]
        cases.append((msgs, caps))
    # every single short first write of a small frame, and a big frame written in small pieces
    for c in range(0, 12):
        cases.append(([(1, 'x', None), 0], [c]))
    cases.append(([b'z' * 200000, None], [rng.choice([0, 3, 4, 1000, 65535]) for _ in range(30)]))
    bodies = [[remote_pickle.dumps(m) for m in msgs] for msgs, _ in cases]
    lines = ['c10send %s %s' % (';'.join(b.hex() or '-' for b in bs), ','.join(map(str, caps)) or '-') for bs, (_, caps) in zip(bodies, cases)]
    model = ctx.model(lines)
    for i, (msgs, caps) in enumerate(cases):
        s = ShortSock(caps)
        err = None
        try:
            for m in msgs:
                remote.send_msg(s, m)
        except Spin:
            err = 'spin'
        except Exception as e:  # noqa
            err = type(e).__name__
        ctx.count('send-short')
        ctx.case(('send', i, tuple(caps[:6]), len(s.wire)), bool(caps),
                 sample={'kind': 'send-short', 'messages': len(msgs), 'caps': caps[:8], 'wire_len': len(s.wire)} if i % 97 == 0 else None)
        expect = b''.join(struct.pack('!I', len(b)) + b for b in bodies[i])
        desc = {'kind': 'send-short', 'msgs_repr': repr(msgs)[:300], 'bodies_hex': [b.hex()[:2000] for b in bodies[i]], 'caps': caps}
        if err is not None:
            ctx.fail(f'send-short:{err}', f'send_msg over a short-writing transport ended with {err}', desc)
            continue
        if s.wire != expect:
            # what does the receiver make of it?
            got, _ = run_impl(remote, s.wire, [], len(msgs) + 1)
            sym = got[-1][0] if got else 'none'
            ctx.fail(f'send-short:{sym}', f'send_msg over a transport that writes short put {len(s.wire)} bytes on the wire instead of the '
                     f'{len(expect)} bytes of the frames; the receiver reads {repr(got)[:160]}', desc)
        if model is not None:
            ctx.cov['traces_validated_against_impl'] += 1
            mw = b'' if model[i] == '-' else bytes.fromhex(model[i])
            if mw != s.wire:
                ctx.broke('correspondence', 'Framing.sendMsgs vs send_msg', f'caps={caps[:20]} model wire {len(mw)} bytes, impl wire {len(s.wire)} bytes')


def probe_short_write_socket(ctx, remote):
    """a real socketpair whose sending side has a timeout: short writes happen when the peer reads slowly"""
    a, b = socket.socketpair()
    a.settimeout(5)
    msgs = [b'q' * 3000000, {'after': 1}]
    got = []

    def reader():
        import time
        time.sleep(0.3)
        try:
            for _ in range(2):
                got.append(remote.recv_msg(b))
        except Exception as e:  # noqa
            got.append(('error', type(e).__name__))

    def writer():
        try:
            for m in msgs:
                remote.send_msg(a, m)
        except Exception as e:  # noqa
            got.append(('send-error', type(e).__name__))
        finally:
            a.close()
    t = threading.Thread(target=writer, daemon=True)
    t.start()
    st, _ = watchdog(reader, 30)
    t.join(5)
    b.close()
    ctx.case(('socketpair-send-timeout',), sample={'probe': 'socketpair-send-timeout', 'ok': got == msgs})
    if st == 'hang' or got != msgs:
        ctx.fail('socketpair-send:' + ('hang' if st == 'hang' else 'wrong'), 'real socketpair with a send timeout: the messages written by send_msg are not read back '
                 f'({"receiver blocked" if st == "hang" else repr(got)[:200]})', {'probe': 'socketpair-send-timeout'})


def main(ctx: Ctx):
    ctx.assumptions += [
        'E-F1: recv() on a stream socket returns b"" forever once the peer has closed (probed on a socketpair each run)',
        'message bodies are opaque bytes to the model; pickling itself (remote_pickle.dumps/loads) is the real code on both sides of the comparison',
        'bodies < 2^32 bytes (limit of the !I header; larger bodies make struct.pack raise in send_msg)',
    ]
    ctx.cov['rule'] = ('streams built by the real send_msg; cases = (stream, cut list, truncation offset); exhaustive segmentations of short streams, '
                       'single/double cuts, seeded random cut lists, every boundary-neighbour truncation offset, garbage streams; '
                       'non-trivial = the stream is split into >= 2 reads or truncated; distinct by (stream hash, cuts, calls)')
    lean_ok = ctx.lean()
    from pyworkers import remote, remote_pickle
    send_cases(ctx, remote, remote_pickle)
    cases = list(gen_cases(ctx, remote))
    lines = ['c10 %s %s %d' % (d.hex() or '-', ','.join(map(str, c)) or '-', k) for (_, _, d, c, k) in cases]
    model_out = ctx.model(lines)
    diffs = 0
    for i, (kind, msgs, data, cuts, k) in enumerate(cases):
        impl, calls = run_impl(remote, data, cuts, k)
        ctx.count(kind)
        nontrivial = bool(cuts) or kind in ('trunc', 'garbage')
        ctx.case((hash(data), tuple(cuts), k), nontrivial,
                 sample={'kind': kind, 'stream_len': len(data), 'cuts': cuts[:8], 'calls': k, 'impl': repr(impl)[:120]} if i % 997 == 0 else None)
        # oracle: the property itself
        if msgs is not None:
            if kind == 'trunc':
                # complete messages before the truncation point
                exp, off = [], 0
                r = RecSock()
                for m in msgs:
                    r.buf = b''
                    remote.send_msg(r, m)
                    off += len(r.buf)
                    if off <= len(data):
                        exp.append(('msg', m))
                exp = exp + [('closed',)]
            else:
                exp = [('msg', m) for m in msgs] + [('closed',)]
            if impl != exp:
                sym = impl[-1][0] if impl else 'none'
                ctx.fail(f'{kind}:{sym}', f'recv_msg over a {kind} stream returned {repr(impl)[:200]} instead of {repr(exp)[:200]}',
                         {'kind': kind, 'stream_hex': data.hex()[:4000], 'stream_len': len(data), 'cuts': cuts, 'calls': k})
        else:
            if impl and impl[-1] == ('spin',):
                ctx.fail('garbage:spin', 'recv_msg spins on a malformed stream', {'stream_hex': data.hex(), 'cuts': cuts})
        if calls > len(data) + 2 * k + 4:
            ctx.fail(f'{kind}:too-many-recv', f'{calls} recv calls for {len(data)} bytes', {'stream_len': len(data), 'cuts': cuts})
        # correspondence with the model
        if model_out is not None:
            ctx.cov['traces_validated_against_impl'] += 1
            mo = canon_model(remote_pickle, model_out[i])
            if mo != impl:
                diffs += 1
                if diffs <= 5:
                    ctx.broke('correspondence', 'Framing.recvN vs recv_msg',
                              f'case {kind} stream={data.hex()[:200]} cuts={cuts[:20]} k={k}\n model={repr(mo)[:300]}\n impl ={repr(impl)[:300]}')
    # the stream does not end with FIN but with an error of the connection (the peer's machine crashed, the network
    # dropped, keep-alive gave up, ...): whatever the error, the receiver / sender must report a closed connection
    import errno
    r = RecSock()
    remote.send_msg(r, 'abc')
    remote.send_msg(r, [1, 2])
    endings = [ConnectionResetError(errno.ECONNRESET, 'reset'), TimeoutError(errno.ETIMEDOUT, 'Connection timed out'), BrokenPipeError(errno.EPIPE, 'pipe'),
               ConnectionAbortedError(errno.ECONNABORTED, 'aborted'), OSError(errno.EHOSTUNREACH, 'No route to host'), OSError(errno.ENETDOWN, 'Network is down'),
               OSError(errno.EBADF, 'Bad file descriptor')]
    first = len(r.buf) - len(RecSock().buf)
    for exc in endings:
        name = errno.errorcode.get(exc.errno, str(exc.errno))
        for o in range(len(r.buf) + 1):
            for cuts in ([], [0] * 8):
                s_ = ScriptSock(r.buf[:o], cuts, exc)
                impl = []
                for _ in range(3):
                    try:
                        impl.append(('msg', remote.recv_msg(s_)))
                    except remote.ConnectionClosedError:
                        impl.append(('closed',))
                        break
                    except BaseException as e:  # noqa
                        impl.append(('error', type(e).__name__))
                        break
                ctx.case(('conn-error', name, o, bool(cuts)))
                ctx.count('conn-error')
                if not impl or impl[-1] != ('closed',) or any(x[0] == 'error' for x in impl):
                    ctx.fail(f'conn-error:{name}:' + (impl[-1][0] if impl else 'none'), f'stream of two messages cut at byte {o} and ended by {name}: recv_msg gave {repr(impl)[:160]} instead of the complete messages and then ConnectionClosedError',
                             {'kind': 'conn-error', 'errno': exc.errno, 'exc': type(exc).__name__, 'offset': o, 'cuts': cuts})
        # the sending side
        class Failing(ShortSock):
            def _accept(self, data):
                if self.calls >= 1:
                    raise exc
                return super()._accept(data)
        f = Failing([2])
        try:
            remote.send_msg(f, 'abcdef')
            got = 'returned'
        except remote.ConnectionClosedError:
            got = 'closed'
        except BaseException as e:  # noqa
            got = type(e).__name__
        ctx.case(('conn-error-send', name))
        if got != 'closed':
            ctx.fail(f'conn-error-send:{name}', f'send_msg on a connection that fails with {name} after a short write: {got} instead of ConnectionClosedError', {'kind': 'conn-error-send', 'errno': exc.errno, 'exc': type(exc).__name__})
    probe_socketpair(ctx, remote)
    probe_short_write_socket(ctx, remote)
    ctx.cov['exhaustive'] = False


def replay(case):
    from pyworkers import remote, remote_pickle
    if case.get('kind') == 'send-short':
        msgs = [remote_pickle.loads(bytes.fromhex(h)) for h in case['bodies_hex']]
        s = ShortSock(case['caps'])
        for m in msgs:
            remote.send_msg(s, m)
        expect = b''.join(struct.pack('!I', len(bytes.fromhex(h))) + bytes.fromhex(h) for h in case['bodies_hex'])
        print('wire   :', s.wire.hex()[:400], f'({len(s.wire)} bytes)')
        print('frames :', expect.hex()[:400], f'({len(expect)} bytes)')
        print('receiver reads:', run_impl(remote, s.wire, [], len(msgs) + 1)[0])
        return
    if case.get('kind') in ('conn-error', 'conn-error-send'):
        import builtins
        exc = getattr(builtins, case['exc'])(case['errno'], 'scripted')
        if case['kind'] == 'conn-error':
            r = RecSock()
            remote.send_msg(r, 'abc')
            remote.send_msg(r, [1, 2])
            s_ = ScriptSock(r.buf[:case['offset']], case.get('cuts', []), exc)
            for _ in range(3):
                try:
                    print('recv_msg ->', remote.recv_msg(s_))
                except BaseException as e:  # noqa
                    print('recv_msg raised', type(e).__name__, e)
                    break
        else:
            class Failing(ShortSock):
                def _accept(self, data):
                    if self.calls >= 1:
                        raise exc
                    return super()._accept(data)
            try:
                remote.send_msg(Failing([2]), 'abcdef')
                print('send_msg returned')
            except BaseException as e:  # noqa
                print('send_msg raised', type(e).__name__, e)
        return
    if case.get('probe'):
        class C:   # minimal context for a probe
            thorough = False
            import random as _r
            rng = _r.Random(0)
            def case(self, *a, **k): pass
            def fail(self, sig, what, desc): print('FAIL', sig, what)
        {'socketpair-send-timeout': probe_short_write_socket, 'socketpair': probe_socketpair}[case['probe']](C(), remote)
        return
    data = bytes.fromhex(case['stream_hex'])
    print(run_impl(remote, data, case['cuts'], case.get('calls', 3)))
