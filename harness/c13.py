"""C13 — remote_pickle is invisible to code that does not opt in."""
import collections
import copy
import copyreg
import dataclasses
import datetime
import decimal
import enum
import fractions
import inspect
import multiprocessing as mp
import pickle
import re
import sys

from common import Ctx, REPO
sys.path.insert(0, str(REPO))

from pyworkers import remote_pickle  # noqa: E402
from pyworkers.remote_pickle import SupportRemoteGetState  # noqa: E402

GETLOG = []


# ----------------------------------------------------------------- menu of non-opt-in values
class Color(enum.Enum):
    RED = 1
    BLUE = 2


@dataclasses.dataclass
class DC:
    a: int
    b: list


NT = collections.namedtuple('NT', 'x y')


class PlainObj:
    def __init__(self, **kw):
        self.__dict__.update(kw)

    def __eq__(self, o):
        return type(o) is type(self) and o.__dict__ == self.__dict__


class WithState:
    def __init__(self, v):
        self.v = v

    def __getstate__(self):
        GETLOG.append(('WithState', 'noflag'))
        return {'v': self.v, 'extra': 1}

    def __setstate__(self, st):
        self.__dict__.update(st)

    def __eq__(self, o):
        return type(o) is type(self) and o.__dict__ == self.__dict__


class WithReduce:
    def __init__(self, v):
        self.v = v

    def __reduce__(self):
        return (WithReduce, (self.v,))

    def __eq__(self, o):
        return type(o) is type(self) and o.v == self.v


class WithNewArgs:
    def __new__(cls, v):
        o = super().__new__(cls)
        o.v = v
        return o

    def __getnewargs__(self):
        return (self.v,)

    def __eq__(self, o):
        return type(o) is type(self) and o.v == self.v


class Slotted:
    __slots__ = ('a', 'b')

    def __init__(self, a, b):
        self.a, self.b = a, b

    def __eq__(self, o):
        return type(o) is type(self) and (o.a, o.b) == (self.a, self.b)


class KwPass(WithState):
    def __getstate__(self, **kwargs):
        GETLOG.append(('KwPass', tuple(sorted(kwargs))))
        return super().__getstate__(**kwargs)


class CopyregType:
    def __init__(self, v):
        self.v = v

    def __eq__(self, o):
        return type(o) is type(self) and o.v == self.v


def _red_copyreg(o):
    return (CopyregType, (o.v + 1000,))


copyreg.pickle(CopyregType, _red_copyreg)


class MyErr(Exception):
    def __init__(self, a, b=2):
        super().__init__(a)
        self.b = b


def module_func(x):
    return x


# ----------------------------------------------------------------- opt-in classes
class OptIn(SupportRemoteGetState):
    def __init__(self, v):
        self.v = v

    def __getstate__(self, remote=False):
        GETLOG.append(('OptIn', remote))
        return {'v': self.v, 'remote_seen': remote}

    def __setstate__(self, st):
        self.__dict__.update(st)


class Duck:
    def __init__(self, v):
        self.v = v

    def __getstate__(self, remote=False):
        GETLOG.append(('Duck', remote))
        return {'v': self.v, 'remote_seen': remote}

    def __setstate__(self, st):
        self.__dict__.update(st)


def menu(rng):
    shared = [1, 2, 3]
    cyc = []
    cyc.append(cyc)
    d = {'self': None}
    d['self'] = d
    return [
        None, True, 0, -1, 2 ** 70, 1.5, 1j, 'str', b'bytes', bytearray(b'ba'), (), (1,), [1, [2, [3]]], {1: 'a', 'b': (2,)},
        {1, 2, 3}, frozenset({4, 5}), datetime.datetime(2020, 1, 2, 3, 4, 5), datetime.date(2020, 1, 2), datetime.timedelta(0),
        decimal.Decimal('1.50'), fractions.Fraction(1, 3), Color.RED, DC(1, [2]), NT(1, 2), PlainObj(a=1, b=[1, 2]),
        WithState(3), WithReduce(4), WithNewArgs(5), Slotted(1, 'x'), KwPass(6), CopyregType(7), re.compile('a+b', re.I),
        ValueError('x', 1), MyErr(1, b=3), KeyError('k'), module_func, PlainObj, len, collections.OrderedDict(a=1), range(3),
        slice(1, 2), [shared, shared, {'k': shared}], PlainObj(a=PlainObj(b=WithState([1, 2]))), complex(1, 2),
    ] , cyc, d


def gen_graph(rng, values, depth):
    r = rng.random()
    if depth == 0 or r < 0.3:
        return rng.choice(values)
    if r < 0.5:
        return [gen_graph(rng, values, depth - 1) for _ in range(rng.randint(0, 3))]
    if r < 0.65:
        return tuple(gen_graph(rng, values, depth - 1) for _ in range(rng.randint(0, 3)))
    if r < 0.85:
        return {f'k{i}': gen_graph(rng, values, depth - 1) for i in range(rng.randint(0, 3))}
    return PlainObj(**{f'a{i}': gen_graph(rng, values, depth - 1) for i in range(rng.randint(0, 3))})


def safe_eq(a, b):
    try:
        if isinstance(a, re.Pattern):
            return isinstance(b, re.Pattern) and (a.pattern, a.flags) == (b.pattern, b.flags)
        if isinstance(a, BaseException):
            return type(a) is type(b) and a.args == b.args and a.__dict__ == b.__dict__
        if isinstance(a, (list, tuple)):
            return type(a) is type(b) and len(a) == len(b) and all(safe_eq(x, y) for x, y in zip(a, b))
        if isinstance(a, dict):
            return type(a) is type(b) and a.keys() == b.keys() and all(safe_eq(a[k], b[k]) for k in a)
        if isinstance(a, PlainObj):
            return type(a) is type(b) and safe_eq(a.__dict__, b.__dict__)
        return a == b
    except RecursionError:
        return True


# ----------------------------------------------------------------- class hierarchies for the MRO rule
FEATURES = ['n', 'r', 'k', 'p', 'R', 'X', 'N', 'S']  # none, remote gs, **kwargs gs, plain gs, __reduce__, __reduce_ex__, __getnewargs__, __slots__


def make_class(name, bases, feat):
    ns = {}
    if feat == 'r':
        def __getstate__(self, remote=False):
            return {}
        ns['__getstate__'] = __getstate__
    elif feat == 'k':
        def __getstate__(self, **kwargs):
            return {}
        ns['__getstate__'] = __getstate__
    elif feat == 'p':
        def __getstate__(self):
            return {}
        ns['__getstate__'] = __getstate__
    elif feat == 'R':
        def __reduce__(self):
            return (object, ())
        ns['__reduce__'] = __reduce__
    elif feat == 'X':
        def __reduce_ex__(self, p):
            return (object, ())
        ns['__reduce_ex__'] = __reduce_ex__
    elif feat == 'N':
        def __getnewargs__(self):
            return ()
        ns['__getnewargs__'] = __getnewargs__
    elif feat == 'S':
        ns['__slots__'] = ()
    cls = type(name, bases, ns)
    cls._feat = feat
    return cls


def info_token(cls):
    f = cls.__dict__.get('_feat', 'n')
    return {'n': '0n', 'r': '0r', 'k': '0k', 'p': '0p', 'R': '1n', 'X': '1n', 'N': '0n', 'S': '0n'}[f]


def gen_hierarchy(rng, idx):
    """returns the most derived class of a random hierarchy (depth <= 4, sometimes a diamond)"""
    def mk(bases):
        return make_class(f'H{idx}_{rng.randrange(10**6)}', bases, rng.choice(FEATURES))
    root = mk(())
    shape = rng.random()
    if shape < 0.6:
        c = root
        for _ in range(rng.randint(0, 3)):
            c = mk((c,))
        return c
    if shape < 0.75:
        # two unrelated bases: the second one (a mix-in) may be the one that opts in
        a = mk(())
        b = mk(())
        try:
            d = mk((a, b))
        except TypeError:
            return a
        if rng.random() < 0.5:
            d = mk((d,))
        return d
    a = mk((root,))
    b = mk((root,))
    try:
        d = mk((a, b))
    except TypeError:      # layout conflict (__slots__)
        return a
    if rng.random() < 0.5:
        d = mk((d,))
    return d


def real_check(cls):
    try:
        return 'ok1' if issubclass(cls, SupportRemoteGetState) else 'ok0'
    except Warning:
        return 'warn'


def interleaved_registration(ctx):
    """another thread registers an opt-in class while a non-opt-in graph is being dumped: simulated at line granularity -
    a trace function runs the registration at the k-th line event that remote_pickle's own code executes during the dump,
    for every k. The dump must still equal pickle.dumps."""
    import os
    import sys
    from pyworkers import remote_pickle
    from pyworkers.remote_pickle import SupportRemoteGetState
    root = os.path.dirname(os.path.abspath(remote_pickle.__file__))
    graph = {'k': [1, 2, (3, 'x')], 'p': PlainObj(a=1), 's': {1, 2}}
    want = pickle.dumps(graph, protocol=4)
    made = []

    def register(k):
        # both ways of opting in: the marker base class and, for the duck-typed way, a first remote dump
        made.append(type(f'LateOptIn{k}', (SupportRemoteGetState,), {'__getstate__': lambda self, remote=False: {}}))

    def run(k):
        """returns (bytes or exception, number of line events seen)"""
        seen = [0]

        def local(frame, event, arg):
            if event == 'line':
                if seen[0] == k:
                    seen[0] += 1
                    sys.settrace(None)
                    try:
                        register(k)
                    finally:
                        sys.settrace(tr)
                else:
                    seen[0] += 1
            return local

        def tr(frame, event, arg):
            if event == 'call' and frame.f_code.co_filename.startswith(root):
                return local
            return None
        sys.settrace(tr)
        try:
            return remote_pickle.dumps(graph, protocol=4), seen[0]
        except BaseException as e:  # noqa
            return e, seen[0]
        finally:
            sys.settrace(None)
    _, total = run(-1)
    bad = None
    for k in range(total):
        out, _ = run(k)
        ctx.case(('interleaved-registration', k), True, sample={'case': 'opt-in class registered at line event k of a dump of a non-opt-in graph', 'k': k, 'line_events': total} if k == 0 else None)
        if not isinstance(out, bytes) or out != want:
            bad = bad or (k, out)
    ctx.count('interleaved-registration', total)
    if bad:
        k, out = bad
        what = f'raised {type(out).__name__}: {out}' if not isinstance(out, bytes) else 'produced different bytes than pickle.dumps'
        ctx.fail('nonoptin:concurrent-registration', f'remote_pickle.dumps of a graph without opt-in classes {what} when another opt-in class was registered '
                 f'at line event {k} of {total} of the dump (as a second thread may do at any moment)', {'kind': 'interleaved_registration', 'k': k})


def main(ctx: Ctx):
    ctx.assumptions += [
        'the CPython pickler (traversal, memo, opcode generation, its lookup order: type dispatch, dispatch_table, __reduce_ex__) is trusted; the reducer-choice model mirrors that order',
        'an opt-in class that is *also* registered in copyreg is outside the tested menu (the model says: registered opt-in wins over copyreg)',
    ]
    ctx.cov['rule'] = ('(a) generated class hierarchies (chains and diamonds, depth<=4, 8 per-class features) through the real issubclass/metaclass check vs checkType; '
                       '(b) generated graphs of non-opt-in values (menu of ~45 stdlib/user values, containers, sharing, cycles) x protocols 2-5 x remote True/False: '
                       'bytes must equal pickle.dumps and the round trip must equal the original; (c) opt-in classes through pickle/copy/mp.Pipe log remote=False; '
                       'non-trivial = hierarchy with >= 2 classes defining something / graph with a container; distinct by MRO token list / pickled bytes')
    ctx.lean()
    rng = ctx.rng
    T = ctx.thorough
    # ---- (a) MRO rule
    classes = [gen_hierarchy(rng, i) for i in range(600 if not T else 6000)]
    lines = ['c13mro ' + ' '.join(info_token(c) for c in cls.__mro__[:-1]) for cls in classes]
    model = ctx.model(lines)
    for i, cls in enumerate(classes):
        toks = lines[i].split()[1:]
        if i % 2 == 1:
            # the verdict must not depend on which classes of the hierarchy were looked at before: ask for every base first
            for base in reversed(cls.__mro__[1:-1]):
                real_check(base)
        real = real_check(cls)
        ctx.case(tuple(toks), sum(1 for t in toks if t != '0n') >= 2, sample={'mro': toks, 'real': real} if i % 150 == 0 else None)
        ctx.count('mro:' + real)
        # oracle: declarative reading
        pre = []
        for t in toks:
            if t[0] == '1':
                break
            pre.append(t[1])
        incons = any(pre[a] == 'p' and 'r' in pre[a + 1:] for a in range(len(pre)))
        exp = 'warn' if incons else ('ok0' if any(t[0] == '1' for t in toks) else ('ok1' if 'r' in pre else 'ok0'))
        if real != exp:
            ctx.fail(f'mro:{exp}->{real}', f'class with MRO features {toks}: opt-in check gives {real}, the rule says {exp}', {'mro': toks})
        if model is not None:
            ctx.cov['traces_validated_against_impl'] += 1
            if model[i] != real:
                ctx.broke('correspondence', 'Mro.checkType vs SupportRemoteGetStateMeta', f'mro={toks} model={model[i]} impl={real}')
    # a second dump of a rejected class must still be rejected (no stale cache)
    bad = make_class('BadBase', (), 'r')
    bad2 = make_class('BadDerived', (bad,), 'p')
    for attempt in range(3):
        if real_check(bad2) != 'warn':
            ctx.fail('mro:warn-not-stable', f'inconsistent class accepted on attempt {attempt + 1}', {'mro': ['0p', '0r'], 'attempt': attempt})
        try:
            remote_pickle.dumps(bad2())
            ctx.fail('mro:dump-accepted', f'dumps of an instance of an inconsistent class succeeded on attempt {attempt + 1}', {'mro': ['0p', '0r'], 'attempt': attempt})
        except Warning:
            pass
        except Exception as e:
            ctx.fail('mro:dump-other-error', f'dumps of an inconsistent class raised {type(e).__name__}', {'mro': ['0p', '0r']})
    # ---- (b) non-opt-in graphs: bytes identical to standard pickle
    values, cyc, d = menu(rng)
    # a copyreg reducer registered *after* pyworkers was imported must be honoured too
    late = type('LateCopyreg', (), {'__init__': lambda self, v: setattr(self, 'v', v), '__eq__': lambda s, o: type(o) is type(s) and o.v == s.v})
    globals()['LateCopyreg'] = late
    late.__module__ = __name__
    late.__qualname__ = 'LateCopyreg'
    copyreg.pickle(late, lambda o: (late, (o.v + 7,)))
    values = values + [late(1)]
    graphs = list(values) + [cyc, d] + [gen_graph(rng, values, 3) for _ in range(300 if not T else 3000)]
    choice_lines = []
    for gi, g in enumerate(graphs):
        for proto in (2, 3, 4, 5):
            try:
                std = pickle.dumps(g, proto)
            except Exception as e:
                std = ('ERR', type(e).__name__)
            for remote in (True, False):
                GETLOG.clear()
                try:
                    got = remote_pickle.dumps(g, protocol=proto, remote=remote)
                except Exception as e:
                    got = ('ERR', type(e).__name__)
                key = (gi, proto, remote)
                ctx.case(std if isinstance(std, bytes) else key, isinstance(g, (list, tuple, dict, PlainObj)),
                         sample={'value': repr(g)[:80], 'protocol': proto, 'remote': remote, 'bytes_equal': got == std} if (gi * 8 + proto) % 397 == 0 else None)
                ctx.count('graph')
                if got != std:
                    ctx.fail(f'nonoptin:bytes-differ:{type(g).__name__}', f'remote_pickle.dumps({repr(g)[:100]}, protocol={proto}, remote={remote}) differs from pickle.dumps: {repr(got)[:80]} vs {repr(std)[:80]}',
                             {'value': repr(g)[:300], 'protocol': proto, 'remote': remote})
                    continue
                if isinstance(got, bytes):
                    back = remote_pickle.loads(got)
                    ref = pickle.loads(std)
                    if not safe_eq(back, ref):
                        ctx.fail('nonoptin:roundtrip', f'remote_pickle round trip of {repr(g)[:100]} differs from pickle round trip', {'value': repr(g)[:300], 'protocol': proto})
                if any(t[1] is True for t in GETLOG if len(t) == 2 and isinstance(t[1], bool)):
                    ctx.fail('nonoptin:flag-passed', 'a non-opt-in class received remote=True', {'value': repr(g)[:300]})
    # ---- (c) opt-in classes: remote flag only through remote_pickle(remote=True)
    for cls, registered in ((OptIn, True), (Duck, False)):
        for remote in (True, False):
            GETLOG.clear()
            o = remote_pickle.loads(remote_pickle.dumps([cls(1), {'x': cls(2)}], remote=remote))
            flags = [t[1] for t in GETLOG]
            ctx.case(('optin', cls.__name__, remote))
            if flags != [remote, remote] or o[0].remote_seen != remote or o[0].v != 1 or o[1]['x'].v != 2:
                ctx.fail(f'optin:remote={remote}:{cls.__name__}', f'{cls.__name__} dumped with remote={remote}: __getstate__ flags {flags}, restored remote_seen={o[0].remote_seen}', {'class': cls.__name__, 'remote': remote})
            # remote=False must restore what standard pickle restores
            if not remote:
                ref = pickle.loads(pickle.dumps([cls(1), {'x': cls(2)}]))
                if ref[0].__dict__ != o[0].__dict__:
                    ctx.fail(f'optin:remote-false-differs:{cls.__name__}', 'remote=False differs from standard pickling for an opt-in class', {'class': cls.__name__})
            choice_lines.append((f'c13choice {int(remote)} 0 0 {int(registered)} 1', 'remote1' if remote else ('remote0' if registered else 'std'), cls.__name__, remote, flags))
        for how in ('pickle', 'copy', 'deepcopy', 'mp.Pipe'):
            GETLOG.clear()
            if how == 'pickle':
                pickle.loads(pickle.dumps(cls(1)))
            elif how == 'copy':
                copy.copy(cls(1))
            elif how == 'deepcopy':
                copy.deepcopy(cls(1))
            else:
                a, b = mp.Pipe()
                a.send(cls(1))
                b.recv()
                a.close()
                b.close()
            ctx.case(('std', cls.__name__, how))
            if [t[1] for t in GETLOG] != [False]:
                ctx.fail(f'std:{how}:{cls.__name__}', f'{how} of an opt-in class called __getstate__ with {GETLOG}', {'class': cls.__name__, 'how': how})
    model = ctx.model([c[0] for c in choice_lines])
    if model is not None:
        for (line, _, name, remote, flags), m in zip(choice_lines, model):
            observed = ('remote1' if flags == [True, True] else 'remote0-or-std')
            if (m == 'remote1') != (observed == 'remote1'):
                ctx.broke('correspondence', 'Mro.remoteChoice vs RemotePickler', f'{name} remote={remote}: model {m}, observed flags {flags}')

    interleaved_registration(ctx)
    # dumps(..., remote=False) of opt-in classes must restore like standard pickle also when attributes are guarded by descriptors
    import c14
    c14.descriptor_states(ctx)


def replay(case):
    print(case)
    if case.get('kind') == 'descriptor_state':
        import c14
        c14.replay(case)
        return
    if case.get('kind') == 'interleaved_registration':
        class C:
            def case(self, *a, **k): pass
            def count(self, *a, **k): pass
            def fail(self, sig, what, desc): print('FAIL', sig, what)
        interleaved_registration(C())
        print('done')
        return
    if 'mro' in case:
        feats = {'0n': 'n', '0r': 'r', '0k': 'k', '0p': 'p', '1n': 'R'}
        cls = None
        for t in reversed(case['mro']):
            cls = make_class('R', (cls,) if cls else (), feats[t])
        print('real:', real_check(cls))
