"""Shared by C14 / C15: object-graph generation, real remote_pickle round trips with logging
classes, the model line for PwVerif.Frames, canonical comparison."""
import itertools
import sys

from common import REPO
sys.path.insert(0, str(REPO))

from pyworkers import remote_pickle  # noqa: E402
from pyworkers.remote_pickle import SupportRemoteGetState  # noqa: E402

LOG = []


def canon_val(v):
    if isinstance(v, _Opt):
        return f'o{v._id}'
    if isinstance(v, dict):
        return 'p' if v.get('__holder__') else 'd'
    if isinstance(v, (list, tuple, Plain)):
        return 'p'
    if isinstance(v, int):
        return f'v{v}'
    return repr(v)


class _Opt:
    pass


def _get(self, remote):
    LOG.append(('get', self._id, remote))
    return dict(self.__dict__)


def _set(self, state):
    LOG.append(('set', self._id if '_id' not in state else state['_id'], {k: v for k, v in state.items() if k != '_id'}))
    self.__dict__.update(state)


class OptSet(_Opt, SupportRemoteGetState):
    def __getstate__(self, remote=False):
        return _get(self, remote)

    def __setstate__(self, state):
        _set(self, state)


class OptNoSet(_Opt, SupportRemoteGetState):
    def __getstate__(self, remote=False):
        return _get(self, remote)


class DuckSet(_Opt):
    def __getstate__(self, remote=False):
        return _get(self, remote)

    def __setstate__(self, state):
        _set(self, state)


class DuckNoSet(_Opt):
    def __getstate__(self, remote=False):
        return _get(self, remote)


class OptTuple(_Opt, SupportRemoteGetState):
    """non-dict state"""

    def __getstate__(self, remote=False):
        LOG.append(('get', self._id, remote))
        return (self._id, [(k, v) for k, v in self.__dict__.items() if k != '_id'])

    def __setstate__(self, state):
        i, items = state
        LOG.append(('set', i, {k: v for k, v in items}))
        self._id = i
        for k, v in items:
            setattr(self, k, v)


class Plain:
    pass


OPT_CLASSES = [OptSet, OptNoSet, DuckSet, DuckNoSet]

# graph spec: ('a', int) | ('p', kind, [spec]) | ('o', id, cls_index or 'T', [(key:int, spec)]) | ('ref', id)


def build(spec, memo=None):
    memo = {} if memo is None else memo
    t = spec[0]
    if t == 'a':
        return spec[1]
    if t == 'ref':
        return memo[spec[1]]
    if t == 'p':
        kids = [build(c, memo) for c in spec[2]]
        kind = spec[1]
        if kind == 'list':
            return kids
        if kind == 'tuple':
            return tuple(kids)
        if kind == 'dict':
            return {'__holder__': True, **{f'e{i}': k for i, k in enumerate(kids)}}
        o = Plain()
        for i, k in enumerate(kids):
            setattr(o, f'f{i}', k)
        return o
    _, oid, cls, fields = spec
    obj = object.__new__(OptTuple if cls == 'T' else OPT_CLASSES[cls])
    obj._id = oid
    memo[oid] = obj
    for k, c in fields:
        setattr(obj, f'k{k}', build(c, memo))
    return obj


def model_graph(spec):
    t = spec[0]
    if t == 'a':
        return 'a'
    if t == 'ref':
        return 'r'
    if t == 'p':
        return 'p(' + ','.join(model_graph(c) for c in spec[2]) + ')'
    _, oid, cls, fields = spec
    if cls == 'T':   # non-dict state: children are not direct (no names recorded)
        return f'o{oid}(0:p(' + ','.join(model_graph(c) for _, c in fields) + '))'
    return f'o{oid}(' + ','.join(f'{k}:{model_graph(c)}' for k, c in fields) + ')'


def model_patches(p):
    return '{' + ','.join(f'{k}:' + (model_patches(v) if isinstance(v, dict) else f'v{v}') for k, v in p.items()) + '}'


def real_patches(p):
    return {f'k{k}': (real_patches(v) if isinstance(v, dict) else v) for k, v in p.items()}


def opt_nodes(spec, out=None):
    out = [] if out is None else out
    if spec[0] == 'p':
        for c in spec[2]:
            opt_nodes(c, out)
    elif spec[0] == 'o':
        out.append(spec)
        for _, c in spec[3]:
            opt_nodes(c, out)
    return out


def direct_opt_children(o):
    """fields the dumper names as opt-in children (including back-references to opt-in objects)"""
    return [(k, c) for k, c in o[3] if c[0] in ('o', 'ref')] if o[2] != 'T' else []


def has_siblings(spec):
    return any(len(direct_opt_children(o)) >= 2 for o in opt_nodes(spec))


def is_pure_chain(spec):
    """top-level opt-in object whose opt-in descendants form a chain of direct children only"""
    if spec[0] != 'o':
        return not opt_nodes(spec)
    cur, n = spec, 1
    while True:
        d = direct_opt_children(cur)
        if len(d) > 1:
            return False
        if not d:
            break
        if d[0][1][0] == 'ref':
            return False
        cur = d[0][1]
        n += 1
    return n == len(opt_nodes(spec))


def own_state(o):
    return {f'k{k}': ('p' if c[0] == 'p' else f'o{c[1]}' if c[0] in ('o', 'ref') else f'v{c[1]}') for k, c in o[3]}


def shape(obj, memo=None):
    """canonical structure with sharing/cycles made explicit"""
    memo = {} if memo is None else memo
    if id(obj) in memo and not isinstance(obj, (int, str, type(None))):
        return ('ref', memo[id(obj)])
    if isinstance(obj, (int, str, type(None))):
        return obj
    memo[id(obj)] = len(memo)
    if isinstance(obj, (list, tuple)):
        return (type(obj).__name__, [shape(x, memo) for x in obj])
    if isinstance(obj, dict):
        return ('dict', [(k, shape(v, memo)) for k, v in obj.items()])
    return (type(obj).__name__, [(k, shape(v, memo)) for k, v in sorted(obj.__dict__.items())])


def run_real(spec, patches=None):
    """returns dict(status, error, gets, sets (id -> received canonical state), obj, shape_ok)"""
    LOG.clear()
    g = build(spec)
    res = {'status': 'ok'}
    try:
        data = remote_pickle.dumps(g)
    except BaseException as e:  # noqa
        return {'status': 'dump-error', 'error': f'{type(e).__name__}: {e}'}
    res['gets'] = [(i, r) for (t, i, r) in LOG if t == 'get']
    LOG.clear()
    try:
        if patches is None:
            out = remote_pickle.loads(data)
        else:
            out = remote_pickle.loads(data, extra_kwargs=real_patches(patches))
    except BaseException as e:  # noqa
        res['status'] = 'load-error'
        res['error'] = type(e).__name__
        res['sets'] = [(i, {k: canon_val(v) if not (isinstance(v, _Opt) and not hasattr(v, '_id')) else 'o?' for k, v in st.items()}) for (t, i, st) in LOG if t == 'set']
        return res
    res['sets'] = [(i, {k: canon_val(v) for k, v in st.items()}) for (t, i, st) in LOG if t == 'set']
    res['obj'] = out
    if patches is None:
        res['shape_ok'] = shape(out) == shape(g)
    return res


def final_states(obj, memo=None, out=None):
    """id -> canonical attribute dict of every opt-in object reachable in the loaded graph"""
    memo = set() if memo is None else memo
    out = {} if out is None else out
    if id(obj) in memo or isinstance(obj, (int, str, type(None))):
        return out
    memo.add(id(obj))
    if isinstance(obj, (list, tuple)):
        for x in obj:
            final_states(x, memo, out)
    elif isinstance(obj, dict):
        for x in obj.values():
            final_states(x, memo, out)
    else:
        if isinstance(obj, _Opt):
            out[obj._id] = {k: canon_val(v) for k, v in obj.__dict__.items() if k != '_id'}
        for x in list(obj.__dict__.values()):
            final_states(x, memo, out)
    return out


def parse_model(line):
    """'ok 2:8=v5;3:1=v1' -> ('ok', [(2, {'k8': 'v5'}), ...])"""
    if line.startswith('err'):
        return ('err', line.split()[1])
    body = line[3:].strip() if len(line) > 2 else ''
    out = []
    for part in body.split(';') if body else []:
        i, _, ents = part.partition(':')
        d = {}
        for e in ents.split(',') if ents else []:
            k, _, v = e.partition('=')
            d[f'k{k}'] = v
        out.append((int(i), d))
    return ('ok', out)


# ---------------------------------------------------------------- generators

def gen_graph(rng, max_opt=4, depth=3):
    counter = itertools.count(1)
    budget = [rng.randint(0, max_opt)]
    made = []

    def node(d, top=False):
        r = rng.random()
        if budget[0] > 0 and (top and r < 0.7 or r < 0.45):
            budget[0] -= 1
            oid = next(counter)
            made.append(oid)
            nf = rng.randint(0, 3) if d > 0 else rng.randint(0, 1)
            cls = 'T' if rng.random() < 0.08 else rng.randrange(len(OPT_CLASSES))
            fields = []
            for k in rng.sample(range(1, 6), nf):
                fields.append((k, node(d - 1) if d > 0 else ('a', rng.randint(0, 9))))
            if rng.random() < 0.15:
                fields.append((7, ('ref', oid)))      # cycle to itself
            return ('o', oid, cls, fields)
        if d > 0 and r < 0.75:
            kind = rng.choice(['list', 'tuple', 'dict', 'obj'])
            kids = [node(d - 1) for _ in range(rng.randint(0, 3))]
            if made and rng.random() < 0.2:
                kids.append(('ref', rng.choice(made)))   # shared reference to an earlier object
            return ('p', kind, kids)
        return ('a', rng.randint(0, 9))
    g = node(depth, top=True)
    return g


def all_shapes(max_opt, depth):
    """enumerate shapes over {opt with 0-2 fields (atoms / children), list holder} up to max_opt opt nodes"""
    def shapes(d, n):
        # yields (spec_builder, used) with abstract shapes as nested tuples: 'a' | ('L', [..]) | ('O', [..])
        yield 'a', 0
        if d == 0:
            return
        for k in range(0, 3):
            for combo, used in children(d - 1, n, k):
                yield ('L', combo), used
            if n >= 1:
                for combo, used in children(d - 1, n - 1, k):
                    yield ('O', combo), used + 1

    def children(d, n, k):
        if k == 0:
            yield [], 0
            return
        for first, u1 in shapes(d, n):
            for rest, u2 in children(d, n - u1, k - 1):
                yield [first] + rest, u1 + u2
    seen = set()
    for sh, used in shapes(depth, max_opt):
        key = repr(sh)
        if key in seen:
            continue
        seen.add(key)
        cnt = itertools.count(1)

        def conv(s):
            if s == 'a':
                return ('a', 1)
            if s[0] == 'L':
                return ('p', 'list', [conv(c) for c in s[1]])
            oid = next(cnt)
            return ('o', oid, 0, [(i + 1, conv(c)) for i, c in enumerate(s[1])])
        yield conv(sh)
