"""C16 — user_state is synchronised child-to-parent at end of life, and only then."""
import time
from common import Ctx, watchdog
import inject
import landing
import pwv_targets as TG

INIT, LAST = '10', '12'


def main(ctx: Ctx):
    ctx.assumptions += [
        'the work assigns user_state (twice) before it calls the target proper; only "initial value" vs "last assigned value" is tracked (the transport copies the value as is)',
        'thread workers share memory with the parent: the documentation exempts them from "initial value while alive"',
        'E-L1/E-L2 as in C01',
    ]
    ctx.cov['rule'] = ('stateful subclasses of the six worker classes (init_state 10, work assigns 11 then 12) x endings {return, Exception, KeyboardInterrupt, real terminate at every line event after start-up, SIGKILL sampled}; '
                       'parent-side user_state read while the child is held alive at the landing point and after death; restart chains of persistent kinds and re-creation chains; setter from the parent; '
                       'non-trivial = an event was injected or a chain step; distinct by (program, target, k, mode)')
    meta = landing.regenerate(ctx)
    ctx.lean()
    T = ctx.thorough
    per = None if T else {'thread': 12, 'process': 6, 'remote': 5}
    cases, _ = landing.plan(ctx, meta, list(inject.KINDS), ['r', 'u'] + (['b'] if T else []), ['raise', 'terminate'] + (['kill'] if T else []), per_prog=per, assigns=True)
    recs = landing.run_cases(ctx, cases, stateful=True)
    def evaluate(ctx, rec):
        r = rec['real']
        kind = inject.KINDS[rec['prog']][2]
        landing.correspond(ctx, rec)
        if r.get('ctor') != 'ok' or 'obs' not in r or not r.get('dead'):
            return
        d = {**landing.describe(rec), 'alive_state': r.get('alive_state'), 'user_state': r.get('user_state')}
        # while alive: initial value (process / remote kinds)
        if kind != 'thread' and r.get('alive_state') not in (None, INIT):
            tr = (rec['model'] or {}).get('trace') or []
            sent = 'after-report' if (kind == 'remote' and landing.META.get(rec['prog'], {}).get('shutdown_line') in tr[:rec['k'] + 1]) else 'before-report'
            ctx.fail(f'alive-not-initial:{kind}:{sent}', f'{rec["prog"]}: parent sees user_state {r.get("alive_state")} while the child is still alive (initial {INIT}; event at line {landing.landing_line(rec)})', d)
        # after death: model's prediction (0 = initial, 1 = last assigned) - this is the property for every ending that reports
        m = rec['model']
        if m is not None and 'landing-point-not-reached' not in r['notes'] and 'terminate-never-arrived' not in r['notes']:
            exp = LAST if m['ustate'] == '1' else INIT
            if r.get('user_state') != exp:
                ctx.broke('correspondence', 'Lifecycle.parentState vs worker.user_state', f'{rec["line"]}: real {r.get("user_state")} model {exp}')
        # the property itself: reported ending (result message arrived) => last assigned value, if the work got as far as assigning
        o = r['obs'][0]
        reported = (o.get('has_error') is False) or (o.get('error') not in ('None', None))
        line = landing.landing_line(rec)
        ran_work = rec['k'] is None or (rec['model'] and 0 in rec['model']['trace'][:rec['k']])
        if reported and ran_work and r.get('user_state') != LAST:
            ctx.fail(f'final-state-lost:{kind}:target={rec["target"]}:{rec["mode"]}',
                     f'{rec["prog"]} target={rec["target"]}: the worker reported its outcome ({o}) but the parent\'s user_state is {r.get("user_state")} instead of the last assigned {LAST} (event at line {line})', d)
    for i, rec in enumerate(recs):
        r = rec['real']
        kind = inject.KINDS[rec['prog']][2]
        ctx.case((rec['prog'], rec['target'], rec['k'], rec['mode']), rec['k'] is not None,
                 sample={**landing.describe(rec), 'alive_state': r.get('alive_state'), 'user_state': r.get('user_state')} if i % 41 == 0 else None)
        ctx.count(f'{kind}:{rec["mode"]}')
        landing.judge(ctx, rec, evaluate, stateful=True)
    # ---- setter from the parent, restart chains, re-creation chains
    sess = inject.Session()
    try:
        # remote kinds: the frontend thread is delayed between the result and the user-state message; whenever the
        # worker is reported dead, user_state must already be the final one
        import time as _t
        for prog in ('remoteRun', 'premoteRun'):
            mod, clsname, kind, persistent = inject.KINDS[prog]
            cls = getattr(TG, 'S' + clsname)
            for call in ('wait', 'terminate'):
                with inject.gated_recv('data: user state') as g:
                    sess.write_conf(None)
                    w = cls(TG.t_sret, init_state=10, host=sess.addr(), main_path='')
                    if persistent:
                        w.enqueue(1)
                        w.close()
                    _t.sleep(0.7)
                    st, r1 = watchdog(lambda: (w.wait(0.3) if call == 'wait' else w.terminate(0.3, force=False)), 10)
                    st2, alive = watchdog(w.is_alive, 10)
                    dead_seen = (r1 is True) or (alive is False)
                    state_when_dead = w.user_state if dead_seen else None
                    g.gate.set()
                    watchdog(lambda: w.wait(5), 10)
                    final = w.user_state
                    ctx.case(('state-delay', prog, call), sample={'case': 'user-state message delayed', 'prog': prog, 'call': call, 'first': r1, 'is_alive': alive, 'state_when_dead': state_when_dead, 'final': final})
                    if (dead_seen and state_when_dead != 12) or final != 12:
                        ctx.fail(f'dead-before-state:{kind}', f'{prog}: {call}(0.3) -> {r1}, is_alive() -> {alive}: worker reported dead with user_state {state_when_dead} (final {final}, expected 12)',
                                 {'prog': prog, 'scenario': 'state-delay', 'call': call})
        for prog, (mod, clsname, kind, persistent) in inject.KINDS.items():
            cls = getattr(TG, 'S' + clsname)
            kw = {'host': sess.addr(), 'main_path': ''} if kind == 'remote' else {}
            sess.write_conf(None)
            state = 10
            chain = []
            w = None
            for step in range(3):
                if w is not None and persistent:
                    st, e = watchdog(lambda: w.restart(), 20)
                    if st != 'ok':
                        ctx.fail(f'restart-{st}:{kind}', f'{prog}: restart() {st} {e!r}', {'prog': prog, 'scenario': 'restart-chain', 'step': step})
                        break
                else:
                    w = cls(TG.t_sret, init_state=state, **kw)
                seen_init = w.user_state
                try:
                    w.user_state = 99
                    ctx.fail(f'setter-accepted:{kind}', f'{prog}: assigning user_state from the parent was accepted', {'prog': prog, 'scenario': 'setter'})
                except RuntimeError:
                    pass
                if persistent:
                    w.enqueue(3)
                watchdog(lambda: w.wait(10), 20)
                if persistent:
                    list(w.results_iter())
                chain.append((seen_init, w.user_state))
                state = w.user_state
            # the state message may follow the result after any delay (a big state takes its time to pickle): no timeout may
            # be put on the parent's connection in between. Timeouts set on sockets during a remote worker's life are recorded;
            # a finite one is exceeded by a state that takes longer to serialise (thorough: 7 s in any case)
            if kind == 'remote':
                import socket as _socket
                seen = []
                orig = _socket.socket.settimeout

                def rec(self_, v, _o=orig):
                    if v is not None:
                        seen.append(v)
                    return _o(self_, v)
                _socket.socket.settimeout = rec
                try:
                    sess.write_conf(None)
                    w4 = cls(TG.t_sslowstate, init_state=10, args=[0.2], **kw)
                    if persistent:
                        w4.enqueue(0.2)
                    watchdog(lambda: w4.wait(10), 20)
                finally:
                    _socket.socket.settimeout = orig
                final = w4.user_state
                ctx.case(('slow-state', prog), True, sample={'case': 'state message follows the result after a delay', 'prog': prog, 'timeouts_set_on_sockets': seen, 'parent_sees': repr(final)})
                delay = max([7.0 if T else 0.0] + [v + 1.5 for v in seen if v <= 25])
                if final != {'last': 12, 'pickling_takes': 0.2}:
                    ctx.fail(f'final-state-not-synchronised:{kind}:slow-state', f'{prog}: the work assigned a state that takes 0.2 s to pickle; the parent sees {final!r}', {'prog': prog, 'scenario': 'slow-state', 'seconds': 0.2})
                elif delay:
                    sess.write_conf(None)
                    w5 = cls(TG.t_sslowstate, init_state=10, args=[delay], **kw)
                    if persistent:
                        w5.enqueue(delay)
                    watchdog(lambda: w5.wait(delay + 15), delay + 30)
                    final = w5.user_state
                    if final != {'last': 12, 'pickling_takes': delay}:
                        ctx.fail(f'final-state-not-synchronised:{kind}:slow-state', f'{prog}: the work assigned a state that takes {delay:.1f} s to pickle (timeouts set on the connection: {seen}); after the end the parent sees {final!r}',
                                 {'prog': prog, 'scenario': 'slow-state', 'seconds': delay})
                    try:
                        w5.terminate(1)
                    except Exception:
                        pass
                try:
                    w4.terminate(1)
                except Exception:
                    pass
            # the child has reported (its work is done) but its process lingers - something the work left behind keeps the
            # interpreter alive; calls that time out in that window must not make the final state visible early
            if kind == 'process':
                sess.write_conf(None)
                w6 = cls(TG.t_slinger, init_state=10, args=[2.5], **kw)
                if persistent:
                    w6.enqueue(2.5)
                    w6.close()
                time.sleep(0.6)
                seen = []
                for call in ('wait', 'is_alive', 'has_error', 'wait'):
                    if call == 'wait':
                        watchdog(lambda: w6.wait(0.3), 10)
                    elif call == 'is_alive':
                        watchdog(w6.is_alive, 10)
                    else:
                        watchdog(lambda: w6.has_error, 10)
                    st_a, alive = watchdog(w6.is_alive, 10)
                    seen.append((call, alive, repr(w6.user_state)))
                watchdog(lambda: w6.wait(10), 20)
                final = w6.user_state
                ctx.case(('lingering-child', prog), True, sample={'case': 'child lingers after its final report', 'prog': prog, 'seen_while_lingering': seen, 'final': repr(final)})
                early = [x for x in seen if x[1] is True and x[2] != '10']
                if early:
                    ctx.fail(f'alive-not-initial:{kind}:lingering-child', f'{prog}: the child has sent its final report and lingers; after {early[0][0]}() the parent sees user_state {early[0][2]} while is_alive() is True (initial 10)',
                             {'prog': prog, 'scenario': 'lingering-child', 'seen': seen})
                if final != 12:
                    ctx.fail(f'final-state-not-synchronised:{kind}:lingering-child', f'{prog}: after the end of a lingering child the parent sees {final!r} instead of 12', {'prog': prog, 'scenario': 'lingering-child'})
            # the last value assigned in the child is a falsy one: it is a value like any other
            if kind != 'thread':
                for last in (None, 0, [], ''):
                    sess.write_conf(None)
                    w3 = cls(TG.t_sclear, init_state={'cache': [1, 2, 3]}, args=[last], **kw)
                    if persistent:
                        w3.enqueue(last)
                    watchdog(lambda: w3.wait(10), 20)
                    if persistent:
                        list(w3.results_iter())
                    final = w3.user_state
                    ctx.case(('falsy-final-state', prog, repr(last)), True, sample={'case': 'child assigns a falsy value last', 'prog': prog, 'assigned': repr(last), 'parent_sees': repr(final)} if last is None else None)
                    if final != last or (last is None and final is not None):
                        ctx.fail(f'final-state-not-synchronised:{kind}:falsy', f'{prog}: started with a dict as state, the work assigned {last!r} last; after the end the parent sees {final!r}',
                                 {'prog': prog, 'scenario': 'falsy-final-state', 'assigned': repr(last)})
                    try:
                        w3.terminate(1)
                    except Exception:
                        pass
            # restart of a *busy* persistent worker: goes through terminate(); the state assigned so far must survive
            if persistent and kind != 'thread':
                sess.write_conf(None)
                w2 = cls(TG.t_sslow, init_state=10, **kw)
                w2.enqueue(1)
                import time as _t
                _t.sleep(0.4)
                st, e = watchdog(lambda: w2.restart(timeout=0.05), 30)
                after = w2.user_state if st == 'ok' else None
                ctx.case(('busy-restart', prog), sample={'case': 'restart of a busy persistent worker', 'prog': prog, 'state_after_restart': after})
                if st != 'ok' or after != 12:
                    ctx.fail(f'busy-restart:{kind}', f'{prog}: restart(timeout=0.05) of a busy worker whose work had assigned 12: {st}, new incarnation starts from {after}', {'prog': prog, 'scenario': 'busy-restart'})
                try:
                    w2.terminate(1)
                except Exception:
                    pass
            ctx.case(('chain', prog), sample={'case': 'chain of 3 incarnations', 'prog': prog, 'chain(init seen, final)': chain})
            # incarnation n+1 must start from what incarnation n ended with; each work assigns 12 last
            ok = all(b == 12 for _, b in chain) and (kind == 'thread' or all(chain[i + 1][0] == chain[i][1] for i in range(len(chain) - 1)))
            if not ok:
                ctx.fail(f'chain:{kind}:{"persistent" if persistent else "oneshot"}', f'{prog}: chain of incarnations saw (initial, final) states {chain}', {'prog': prog, 'scenario': 'chain', 'chain': chain})
            try:
                if w is not None and w.is_alive():
                    w.terminate(1)
            except Exception:
                pass
    finally:
        sess.close()


def replay(case):
    sess = inject.Session()
    try:
        if 'k' in case:
            r = inject.run_case(sess, case['prog'], case['target'], case['k'], case['mode'], stateful=True, items=2)
            print('real :', r.get('obs'), 'alive_state', r.get('alive_state'), 'user_state', r.get('user_state'))
        else:
            print(case)
    finally:
        sess.close()
