"""C04 — wait/terminate are bounded, truthful, idempotent - even on unresponsive children."""
import itertools
import json
import subprocess
import sys
from concurrent.futures import ThreadPoolExecutor
from pathlib import Path

from common import Ctx

HERE = Path(__file__).resolve().parent
SLACK = 2.5


def run_spec(spec, retry=True):
    r = _run_spec(spec)
    if r.get('crash') and retry:      # infrastructure hiccup (spawn of the scenario process): one retry
        r = _run_spec(spec)
    return r


def _run_spec(spec):
    # (the scenario process may end itself with SIGTERM - the library's last resort inside a forced terminate of a remote
    # worker - and then leaves its server and a stopped backend behind: see common.run_isolated)
    from common import run_isolated
    rc, out, err, timed_out = run_isolated([sys.executable, str(HERE / 'c04_case.py'), json.dumps(spec)], 90)
    for l in out.splitlines():
        if l.startswith('RESULT '):
            return json.loads(l[7:])
    if timed_out:
        return {'spec': spec, 'calls': [], 'crash': 'case-timeout'}
    return {'spec': spec, 'calls': [], 'crash': f'no-result rc={rc} {err[-300:]}'}


def gen_specs(rng, thorough):
    specs = []
    ops_live = [['wait'], ['terminate', False], ['terminate', True], ['is_alive'], ['close']]
    for kind in ('thread', 'process', 'remote'):
        behs = ['coop', 'swallow'] if kind == 'thread' else ['coop', 'swallow', 'sleep', 'hog', 'stopped', 'stops']
        for beh in behs:
            for timeout in (0, 0.3):
                for persistent in ((False, True) if thorough else (False,)):
                    n = 3 if thorough else 1
                    for _ in range(n):
                        hist = [rng.choice(ops_live) for _ in range(rng.randint(1, 3))]
                        if kind == 'thread':
                            hist = [o if o[0] != 'terminate' else ['terminate', False] for o in hist]
                        # always end with a forced terminate for process/remote so that "dead on return" is exercised
                        if kind != 'thread':
                            hist.append(['terminate', True])
                            hist.append(rng.choice([['wait'], ['terminate', True], ['is_alive']]))
                        specs.append({'kind': kind, 'behaviour': beh, 'timeout': timeout, 'ops': hist[:5], 'persistent': persistent})
        # a child that is unresponsive (stopped) during a first terminate() and comes back during the second one
        if kind != 'thread':
            for timeout in (0.3, 1.0):
                for second in (['terminate', True], ['terminate', False], ['wait']):
                    specs.append({'kind': kind, 'behaviour': 'resumes', 'timeout': timeout, 'ops': [['terminate', False], second, ['terminate', True], ['is_alive']], 'persistent': False})
        # dead and never-run workers: every short history returns at once
        dead_ops = [['wait'], ['terminate', False], ['is_alive'], ['close']] + ([['terminate', True]] if kind != 'thread' else [])
        hists = list(itertools.product(dead_ops, repeat=2)) + [tuple(rng.choice(dead_ops) for _ in range(4)) for _ in range(3)]
        if not thorough:
            hists = rng.sample(hists, 5)
        for beh in ('finished', 'notrun'):
            for h in hists:
                specs.append({'kind': kind, 'behaviour': beh, 'timeout': rng.choice([0, 0.3]), 'ops': [list(o) for o in h], 'persistent': rng.random() < 0.3})
    # error branch: negative timeout
    for kind in ('thread', 'process', 'remote'):
        specs.append({'kind': kind, 'behaviour': 'coop', 'timeout': -1, 'ops': [['wait'], ['terminate', False]], 'persistent': False})
    return specs


def check(ctx, res):
    spec = res['spec']
    kind, beh, timeout = spec['kind'], spec['behaviour'], spec['timeout']
    tag = f'{kind}:{beh}'
    d = {'spec': spec, 'calls': res.get('calls')}
    if res.get('crash'):
        ctx.fail(f'case-crashed:{tag}', f'{spec}: {res["crash"]}', d)
        return
    dead = beh in ('finished', 'notrun')
    for c in res['calls']:
        op, ret, dt, st = c['op'], c['ret'], c['dt'], c.get('state')
        name = op[0]
        if ret == 'HANG':
            ctx.fail(f'hang:{tag}:{name}', f'{kind} worker ({beh}): {name}({timeout}) did not return within 12 s', d)
            return
        if timeout < 0:
            # (ThreadWorker.wait has never validated its timeout; the other seven entry points do)
            if name in ('wait', 'terminate') and not (kind == 'thread' and name == 'wait') and ret != 'RAISES:ValueError':
                ctx.fail(f'negative-timeout-accepted:{kind}:{name}', f'{kind}: {name}(-1) returned {ret} instead of raising ValueError', d)
            continue
        if isinstance(ret, str) and ret.startswith('RAISES'):
            ctx.fail(f'raises:{tag}:{name}', f'{kind} worker ({beh}): {name}({timeout}) {ret}', d)
            continue
        if name in ('wait', 'terminate'):
            if dt > 3 * timeout + SLACK:
                ctx.fail(f'unbounded:{tag}:{name}', f'{kind} worker ({beh}): {name}({timeout}) took {dt} s', d)
            gone = (st in (None, 'Z', 'X')) if kind != 'thread' else (c.get('thread_alive') is False or dead)
            if ret is True and not gone and beh != 'notrun':
                ctx.fail(f'untruthful-true:{tag}:{name}', f'{kind} worker ({beh}): {name}({timeout}) returned True but the child is still there (state {st})', d)
            if ret is False and st is None and kind != 'thread' and beh in ('sleep', 'hog', 'stopped', 'stops', 'resumes'):
                ctx.fail(f'untruthful-false:{tag}:{name}', f'{kind} worker ({beh}): {name}({timeout}) returned False but the child is gone', d)
            if dead and (ret is not True or dt > 1.0):
                ctx.fail(f'dead-not-immediate:{kind}:{beh}:{name}', f'{kind} worker ({beh}): {name}({timeout}) returned {ret} after {dt} s on a dead/never-run worker', d)
            if name == 'terminate' and len(op) > 1 and op[1] is True and kind != 'thread' and ret is not True and timeout > 0:
                ctx.fail(f'force-not-dead:{tag}', f'{kind} worker ({beh}): terminate({timeout}, force=True) returned {ret}; child state {st}', d)
        elif name == 'is_alive':
            if dead and ret is not False:
                ctx.fail(f'dead-is-alive:{kind}:{beh}', f'{kind} worker ({beh}): is_alive() = {ret} on a dead/never-run worker', d)


def main(ctx: Ctx):
    ctx.assumptions += [
        'wall-clock bound checked as 3 x timeout + 2.5 s slack (spawn latency on a loaded machine); a call that has not returned after 12 s counts as a hang',
        'OS liveness = /proc/<pid>/stat state of the child (gone or zombie = dead); thread kinds: Thread.is_alive()',
        'a stopped (SIGSTOP) child keeps SIGTERM pending - whether terminate(force=True) still has to kill it is exactly what is checked',
        'each scenario runs in its own process: a forced terminate on the parent side may SIGTERM the caller by design',
    ]
    ctx.cov['rule'] = ('(kind, target behaviour in {cooperative, swallows Exception, sleep(1000), GIL held by a C call, SIGSTOPped before the call, stops itself (SIGSTOP) when asked to terminate}, timeout in {0, 0.3}, history of <=5 calls of wait/terminate(force)/is_alive/close) on live workers; '
                       'all pairs + sampled longer histories on finished and never-run workers; negative timeouts; non-trivial = uncooperative behaviour or history on a dead worker; distinct by spec')
    import translate
    errors, _ = translate.regenerate_blocking()      # T-block: Gen/Blocking.lean from /repo's current source
    for e in errors:
        ctx.broke('translation', 'harness/translate.py (T-block)', e)
    ctx.lean()
    specs = gen_specs(ctx.rng, ctx.thorough)
    with ThreadPoolExecutor(8) as ex:
        results = list(ex.map(run_spec, specs))
    for i, res in enumerate(results):
        s = res['spec']
        ctx.case(json.dumps(s, sort_keys=True), s['behaviour'] not in ('coop',), sample={'spec': s, 'calls': res.get('calls')} if i % 17 == 0 else None)
        ctx.count(f'{s["kind"]}:{s["behaviour"]}')
        check(ctx, res)


def replay(case):
    print(json.dumps(run_spec(case['spec']), indent=1))
