"""C18 — remote contexts are unique per id, supply their workers' work, and clean up."""
import os
import signal
import time

from common import Ctx, watchdog
import inject
import remote_peer as RP
import pwv_targets as TG


def gen_ops(rng, n):
    ops = []
    for _ in range(n):
        i = rng.choice([1, 2, 3])
        ops.append(rng.choice(['c', 'c', 'd', 'w', 'w', 'w', 'x', 'y']) + str(i))
    return ops


def run_real(ops, addr, srv, streams=None):
    """returns (replies, failure or None)"""
    from pyworkers.remote_context import RemoteContext
    from pyworkers.persistent_remote import PersistentRemoteWorker
    from pyworkers.remote import send_msg, recv_msg
    import socket
    ctxs = {}        # id -> live RemoteContext object (client side)
    gen = {}         # id -> generation counter (to tell a re-created context from the old one)
    workers = {}     # id -> list of (worker, generation)
    replies = []
    fail = None
    for k, op in enumerate(ops):
        kind, i = op[0], int(op[1:])
        if kind == 'c':
            g = k + 1          # the payload the model is given for this registration: `c<i>:<g>`

            def mk():
                return RemoteContext(i, host=addr, target=TG.t_ctx, kwargs={'tag': (i, g), 'base': 100 * i})
            st, r = watchdog(mk, 10)
            if st == 'ok':
                replies.append('ok')
                ctxs[i] = r
                gen[i] = g
            elif st == 'exc' and isinstance(r, ValueError):
                replies.append('exists')
            else:
                replies.append(f'{st}:{type(r).__name__}')
        elif kind == 'd':
            if i in ctxs:
                st, r = watchdog(lambda: ctxs[i].wait(), 15)
                replies.append('ok' if st == 'ok' and r else f'{st}:{r!r}')
                ctxs.pop(i)
                # its workers must end
                time.sleep(0.3)
                for w, g in workers.pop(i, []):
                    st, alive = watchdog(w.is_alive, 8)
                    if st != 'ok' or alive:
                        fail = fail or ('workers-survive-delete', f'worker of context {i} still alive ({st}) after the context was deleted', k)
            else:
                # delete request for an id that is not registered
                def raw():
                    s = socket.create_connection(addr)
                    send_msg(s, (i, False))
                    send_msg(s, None)
                    r = recv_msg(s)
                    s.close()
                    return r
                st, r = watchdog(raw, 10)
                replies.append('ok' if st == 'ok' and r is True else f'{st}:{r!r}')
        elif kind == 'x':
            # a faulty client: sends the header of a worker-in-context request and disconnects before the worker payload
            def faulty():
                s = socket.create_connection(addr)
                send_msg(s, (i, True))
                time.sleep(0.05)
                s.close()
            watchdog(faulty, 5)
            time.sleep(0.15)
        elif kind == 'y':
            # a faulty client: sends a COMPLETE worker-in-context request, reads the control address and goes away
            # without ever connecting to it (the context's helper is in the middle of rebuilding the worker)
            if streams and i in streams:
                watchdog(lambda: RP.handshake_fault(addr, streams[i], 'no-connect', 'fin' if k % 2 else 'rst'), 12)
                time.sleep(0.3)
        else:
            def mkw():
                return PersistentRemoteWorker(None, host=addr, context=i, main_path='')
            st, w = watchdog(mkw, 10)
            if st == 'ok':
                x = k + 1
                st2, v = watchdog(lambda: w.call(x), 10)
                # which registration served this worker (model: `Contexts.serves`, theorem C18_serves_own)
                served = v[0][1] if st2 == 'ok' and isinstance(v, tuple) and v and isinstance(v[0], tuple) and len(v[0]) == 2 and v[0][0] == i else '?'
                replies.append(f'ok:{served}')
                exp = ((i, gen.get(i)), 100 * i + x)
                if st2 != 'ok' or v != exp:
                    fail = fail or ('wrong-work', f'worker started in context {i} answered {v!r} ({st2}) for input {x}, expected {exp!r}', k)
                workers.setdefault(i, []).append((w, gen.get(i)))
            elif st == 'exc':
                replies.append('refused')
            else:
                replies.append('hang')
                fail = fail or ('ctor-hangs', f'constructor of a worker in context {i} hangs', k)
        if not srv.is_alive():
            fail = fail or ('server-dead', f'the server died after op {op}', k)
            break
    # other contexts' workers must have survived deletes of other ids
    for i, lst in workers.items():
        for w, g in lst:
            st, v = watchdog(lambda: w.call(7), 10)
            if st != 'ok' or v != ((i, g), 100 * i + 7):
                fail = fail or ('bystander-disturbed', f'a worker of the still-registered context {i} answers {v!r} ({st}) at the end of the history', len(ops))
            try:
                w.terminate(0.3, force=False)
            except BaseException:  # noqa
                pass
    for c in ctxs.values():
        try:
            watchdog(c.wait, 10)
        except BaseException:  # noqa
            pass
    return replies, fail


def stubborn_sibling(ctx, sess):
    """deleting a context ends its workers - every one of them, also when one of them cannot be stopped"""
    from common import spawn_server
    from pyworkers.remote_context import RemoteContext
    from pyworkers.persistent_remote import PersistentRemoteWorker
    for order in ('stubborn-first', 'stubborn-last'):
        sess.write_conf(None)
        srv = spawn_server(('127.0.0.1', 0))
        try:
            c = RemoteContext(5, host=srv.addr, target=TG.t_ctx, kwargs={'tag': 'S', 'base': 0})
            ws = [PersistentRemoteWorker(None, host=srv.addr, context=5, main_path='') for _ in range(3)]
            bad = ws[0] if order == 'stubborn-first' else ws[-1]
            good = [w for w in ws if w is not bad]
            for w in good:
                watchdog(lambda: w.call(1), 10)
            bad.enqueue('stubborn')
            time.sleep(0.4)
            pids = {id(w): w.pid for w in ws}
            st, r = watchdog(c.wait, 30)
            time.sleep(0.5)
            survivors = [pids[id(w)] for w in good if RP.pid_alive(pids[id(w)])]
            ctx.case(('stubborn-sibling', order), True, sample={'case': 'context deleted while one of its workers cannot be stopped', 'order': order, 'delete': (st, r), 'well_behaved_survivors': survivors})
            if st != 'ok':
                ctx.fail(f'delete-hangs:{order}', f'deleting a context with an unstoppable worker ({order}) did not return within 30 s', {'scenario': 'stubborn-sibling', 'order': order})
            elif survivors:
                ctx.fail(f'workers-survive-delete:{order}', f'context deleted (reply {r!r}); its well-behaved workers {survivors} are still running because another worker of the context ({order}) could not be stopped',
                         {'scenario': 'stubborn-sibling', 'order': order})
        finally:
            for p in RP.descendants(srv.pid) + [srv.pid]:
                try:
                    os.kill(p, signal.SIGKILL)
                except Exception:
                    pass


def main(ctx: Ctx):
    ctx.assumptions += [
        'the payload of a context is a number in the model (the position of its registration in the history) and a tag in the defaults of the real context; the tag a real worker answers with is compared with Contexts.serves (which registration serves a worker request); that the defaults reach the target is C15\'s top-level patch delivery',
        'a delete of an unknown id replies True (the code\'s choice) - the specification follows it',
    ]
    ctx.cov['rule'] = ('seeded operation histories (length <= 8, ids 1-3) over {create, create duplicate, delete, delete unknown, start worker in context i (then call it), start worker in unknown context} on a real server, '
                       'replies compared with the dictionary model; non-trivial = history contains a duplicate create, a delete followed by re-create, or an unknown id; distinct by op sequence')
    import translate
    errors, _ = translate.regenerate_serverloop()
    for e in errors:
        ctx.broke('translation', 'harness/translate.py (T-srv)', e)
    ctx.lean()
    T = ctx.thorough
    rng = ctx.rng
    hists = [['w2', 'c2', 'w2', 'c2', 'd2', 'w2', 'c2', 'w2'], ['c1', 'c2', 'w1', 'w2', 'd1', 'w2', 'd3', 'c1'], ['c1', 'w1', 'x1', 'w1', 'c1', 'd1', 'c1']]
    hists.append(['c1', 'w1', 'y1', 'w1', 'c2', 'y2', 'w2', 'd1', 'y1', 'c1', 'w1'])
    hists += [gen_ops(rng, rng.randint(3, 8)) for _ in range(10 if not T else 120)]
    # a faulty client changes nothing in the table; a registration carries its position in the history as payload
    model = ctx.model(['c18 ' + ' '.join((f'{o}:{k + 1}' if o[0] == 'c' else o) for k, o in enumerate(h) if o[0] not in 'xy') for h in hists])
    sess = inject.Session()
    try:
        from common import spawn_server
        from pyworkers.persistent_remote import PersistentRemoteWorker
        # complete worker-in-context requests, recorded from the real client code (one per context id)
        streams = {i: RP.record_stream(lambda a, i=i: PersistentRemoteWorker(None, host=a, context=i, main_path='')) for i in (1, 2, 3)}
        for hi, ops in enumerate(hists):
            sess.write_conf(None)
            srv = spawn_server(('127.0.0.1', 0))
            try:
                replies, fail = run_real(ops, srv.addr, srv, streams)
            finally:
                for p in RP.descendants(srv.pid) + [srv.pid]:
                    try:
                        os.kill(p, signal.SIGKILL)
                    except Exception:
                        pass
            ctx.case(tuple(ops), True, sample={'ops': ops, 'replies': replies} if hi < 3 else None)
            ctx.count('ops', len(ops))
            desc = {'ops': ops, 'replies': replies}
            if fail:
                ctx.fail(f'{fail[0]}', f'history {" ".join(ops)}: {fail[1]} (op #{fail[2]})', desc)
            if model is not None:
                ctx.cov['traces_validated_against_impl'] += 1
                m = [x for x in model[hi].split(',') if x]
                if m != replies:
                    # the property itself, stated on the replies: the model is the dictionary specification
                    ops = [o for o in ops if o[0] not in 'xy']
                    k = next((j for j in range(min(len(m), len(replies))) if m[j] != replies[j]), min(len(m), len(replies)))
                    ctx.fail(f'reply-differs-from-dictionary:{ops[k][0] if k < len(ops) else "?"}:{replies[k] if k < len(replies) else "missing"}',
                             f'history {" ".join(ops)}: op #{k} ({ops[k] if k < len(ops) else "?"}) replied {replies[k] if k < len(replies) else None}, a dictionary of contexts says {m[k] if k < len(m) else None}', desc)
        stubborn_sibling(ctx, sess)
    finally:
        sess.close()


def replay(case):
    from common import spawn_server
    sess = inject.Session()
    if case.get('scenario') == 'stubborn-sibling':
        class C:
            def case(self, *a, **k): print('observed', k.get('sample'))
            def fail(self, sig, what, desc): print('FAIL', sig, what)
        try:
            stubborn_sibling(C(), sess)
        finally:
            sess.close()
        return
    srv = spawn_server(('127.0.0.1', 0))
    try:
        from pyworkers.persistent_remote import PersistentRemoteWorker
        streams = {i: RP.record_stream(lambda a, i=i: PersistentRemoteWorker(None, host=a, context=i, main_path='')) for i in (1, 2, 3)}
        print(run_real(case['ops'], srv.addr, srv, streams))
    finally:
        for p in RP.descendants(srv.pid) + [srv.pid]:
            os.kill(p, signal.SIGKILL)
        sess.close()
