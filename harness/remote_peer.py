"""Scripted TCP peers for the remote protocol (C11 / C20 / C18 / C12): recorded client streams cut at
chosen offsets, control-handshake faults, a scripted fake server playing the server side."""
import os
import socket
import struct
import sys
import threading
import time

from common import REPO, watchdog
sys.path.insert(0, str(REPO))

import pwv_targets as TG  # noqa: E402


def record_stream(make_client, settle=0.4):
    """Run `make_client(addr)` (a callable that builds a real client object talking to addr) against a
    recording server; returns the bytes the client sent before it started waiting for an answer."""
    srv = socket.socket()
    srv.bind(('127.0.0.1', 0))
    srv.listen()
    data = bytearray()

    def serve():
        conn, _ = srv.accept()
        conn.settimeout(settle)
        try:
            while True:
                chunk = conn.recv(65536)
                if not chunk:
                    break
                data.extend(chunk)
        except socket.timeout:
            pass
        conn.close()
    t = threading.Thread(target=serve, daemon=True)
    t.start()
    port = srv.getsockname()[1]
    watchdog(lambda: make_client(srv.getsockname()), 10)
    t.join(5)
    srv.close()
    return Recorded(bytes(data), port)


class Recorded(bytes):
    """a recorded request; remembers the port of the recording server it was addressed to"""
    def __new__(cls, data, port):
        o = super().__new__(cls, data)
        o.port = port
        return o


def retarget(stream, addr):
    """the same request addressed to the server at `addr`: the pickled worker carries the address of its server (the
    backend asserts that it is the one it was reached through) - replace the port of the recording server (a 2-byte
    pickle integer) by the real one"""
    port = getattr(stream, 'port', None)
    if port is None or port < 256 or addr[1] < 256:
        return stream
    old, new = b'M' + struct.pack('<H', port), b'M' + struct.pack('<H', addr[1])
    return stream.replace(old, new) if stream.count(old) else stream


SLOW_MAIN = os.path.join(os.path.dirname(os.path.abspath(__file__)), 'site', 'pwv_slow_main.py')


def recorded_streams():
    """the five request kinds of the protocol, as sent by the real client code"""
    from pyworkers.remote import RemoteWorker
    from pyworkers.persistent_remote import PersistentRemoteWorker
    from pyworkers.remote_context import RemoteContext
    from pyworkers.remote import send_msg

    class Rec:
        def __init__(self):
            self.buf = b''

        def sendall(self, b):
            self.buf += b
    out = {}
    out['worker'] = record_stream(lambda a: RemoteWorker(TG.f_add, args=[1], host=a, main_path=''))
    out['pworker'] = record_stream(lambda a: PersistentRemoteWorker(TG.t_item, host=a, main_path=''))
    # a worker whose backend needs a while to start (its __main__ script takes 1.2 s to import): the window between the
    # control connect and the runtime info is wide open
    out['worker-slow'] = record_stream(lambda a: RemoteWorker(TG.f_add, args=[1], host=a, main_path=SLOW_MAIN))
    out['ctx-create'] = record_stream(lambda a: RemoteContext(901, host=a, target=TG.t_item))
    r = Rec()
    send_msg(r, (901, False))
    send_msg(r, None)
    out['ctx-delete'] = r.buf
    out['worker-in-ctx'] = record_stream(lambda a: PersistentRemoteWorker(None, host=a, context=901, main_path=''))
    return out


def send_cut(addr, stream, offset, how='fin', hold=0.0):
    """connect, send stream[:offset], then vanish with FIN or RST"""
    s = socket.socket()
    s.settimeout(5)
    s.connect(addr)
    if offset:
        s.sendall(retarget(stream, addr)[:offset])
    if hold:
        time.sleep(hold)
    if how == 'rst':
        s.setsockopt(socket.SOL_SOCKET, socket.SO_LINGER, struct.pack('ii', 1, 0))
    s.close()


def read_msg(sock):
    from pyworkers.remote import recv_msg
    return recv_msg(sock)


def handshake_fault(addr, stream, step, how='fin'):
    """send the complete request, then fail at a step of the control handshake:
    'no-connect' (close the data socket without ever connecting the control socket),
    'connect-close' (connect the control socket, then close both at once),
    'after-info' (read the runtime info, then close both: the worker is running, its client is gone),
    'during-startup' (connect the control socket, stay for 0.6 s, then close both: the backend has passed its first checks
    and is still starting up)"""
    s = socket.socket()
    s.settimeout(8)
    s.connect(addr)
    s.sendall(retarget(stream, addr))
    ctrl = None
    try:
        ctrl_addr = read_msg(s)
        if step != 'no-connect':
            ctrl = socket.socket()
            ctrl.settimeout(8)
            ctrl.connect(tuple(ctrl_addr))
            if step == 'after-info':
                read_msg(ctrl)
            elif step == 'during-startup':
                time.sleep(0.6)       # (request kind 'worker-slow': its backend is still importing its __main__ script)
    except Exception:
        pass
    for x in (ctrl, s):
        if x is not None:
            if how == 'rst':
                try:
                    x.setsockopt(socket.SOL_SOCKET, socket.SO_LINGER, struct.pack('ii', 1, 0))
                except OSError:
                    pass
            x.close()


def pid_alive(pid):
    try:
        with open(f'/proc/{pid}/stat') as f:
            return f.read().rsplit(')', 1)[1].split()[0] not in ('Z', 'X')
    except Exception:
        return False


def descendants(pid):
    kids = {}
    for d in os.listdir('/proc'):
        if d.isdigit():
            try:
                with open(f'/proc/{d}/stat') as f:
                    rest = f.read().rsplit(')', 1)[1].split()
                if rest[0] not in ('Z', 'X'):
                    kids.setdefault(int(rest[1]), []).append(int(d))
            except Exception:
                pass
    out, todo = [], [pid]
    while todo:
        p = todo.pop()
        for c in kids.get(p, []):
            out.append(c)
            todo.append(c)
    return out


def round_trip(addr, timeout=8):
    """a fresh well-behaved RemoteWorker computes 7*7? no: f_add(7, 1) = 8 - within the watchdog"""
    from pyworkers.remote import RemoteWorker
    box = {}

    def go():
        w = RemoteWorker(TG.f_add, args=[7], host=addr, main_path='')
        w.wait(5)
        box['r'] = (w.has_error, w.result)
    st, e = watchdog(go, timeout)
    if st == 'ok':
        return box.get('r')
    return ('hang',) if st == 'hang' else ('raised', type(e).__name__)
