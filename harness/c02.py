"""C02 — all worker kinds compute exactly what a direct call would."""
import socket
import time

from common import Ctx, watchdog
import inject
import pwv_targets as TG


def pipe_capacity():
    """bytes that can be written to a fresh multiprocessing Pipe before the writer blocks"""
    import multiprocessing as mp
    a, b = mp.Pipe()
    s = socket.socket(fileno=a.fileno()) if False else None
    import os
    import fcntl
    fd = a.fileno()
    fl = fcntl.fcntl(fd, fcntl.F_GETFL)
    fcntl.fcntl(fd, fcntl.F_SETFL, fl | os.O_NONBLOCK)
    n = 0
    try:
        while True:
            n += os.write(fd, b'x' * 4096)
    except BlockingIOError:
        pass
    a.close()
    b.close()
    return n


def direct(fn, args, kwargs):
    try:
        return ('ok', fn(*args, **kwargs))
    except Exception as e:
        return ('err', type(e), e.args)


def observed(w):
    if w.has_error:
        e = w.error
        return ('err', type(e), getattr(e, 'args', None)) if w.result is None else ('err+result', type(e), None)
    return ('ok', w.result) if w.error is None else ('ok+error', w.result)


def mk(kind, sess, fn, args, kwargs, via_create, run=None):
    from pyworkers.worker import Worker, WorkerType
    kw = dict(args=list(args), kwargs=dict(kwargs))
    if run is not None:
        kw['run'] = run
    if kind == 'remote':
        kw.update(host=sess.addr(), main_path='')
    sess.write_conf(None)
    if via_create:
        return Worker.create({'thread': WorkerType.THREAD, 'process': WorkerType.PROCESS, 'remote': WorkerType.REMOTE}[kind], fn, **kw)
    mod = __import__('pyworkers.' + kind, fromlist=['x'])
    return getattr(mod, kind.capitalize() + 'Worker')(fn, **kw)


def main(ctx: Ctx):
    ctx.assumptions += [
        'targets are deterministic and picklable; values compared with ==, exceptions by type and args',
        'capacity of a multiprocessing Pipe is measured each run, not assumed',
        'classes defined in the main script are not exercised in this check',
    ]
    ctx.cov['rule'] = ('menu of module-level targets x positional/keyword shapes x values (None, falsy, nested containers, custom class, bytes of 0..4 MB incl. sizes around the measured pipe capacity) x exception classes/args '
                       'x {thread, process, remote} x {constructor, Worker.create} x run {None, True, False} x target None; non-trivial = value is falsy/large/nested or an exception; distinct by (target, args, kind, how)')
    ctx.lean()
    T = ctx.thorough
    rng = ctx.rng
    cap = pipe_capacity()
    ctx.cov['measured_pipe_capacity_bytes'] = cap
    menu = [
        (TG.f_add, (1,), {}), (TG.f_add, (1, 2), {}), (TG.f_add, (1,), {'b': 5}), (TG.f_none, (), {}), (TG.f_none, (1,), {'x': 2}),
        (TG.f_falsy, ('zero',), {}), (TG.f_falsy, ('empty',), {}), (TG.f_falsy, ('list',), {}), (TG.f_falsy, ('false',), {}), (TG.f_falsy, ('dict',), {}),
        (TG.f_nested, (3,), {}), (TG.f_varargs, (1, 'a', None), {'k': [1], 'z': 0}), (TG.f_varargs, (), {}), (TG.f_custom, (7,), {}),
        (TG.f_bytes, (0,), {}), (TG.f_bytes, (1,), {}), (TG.f_bytes, (65535,), {}), (TG.f_bytes, (65537,), {}),
        (TG.f_raise, ('value', 'x', 1), {}), (TG.f_raise, ('key', 'k'), {}), (TG.f_raise, ('my',), {}), (TG.f_raise, ('runtime', 'a', 'b', 3), {}),
    ]
    big = [(TG.f_bytes, (max(cap - 4096, 1),), {}), (TG.f_bytes, (cap + 4096,), {}), (TG.f_bytes, (1 << 20,), {})] + ([(TG.f_bytes, (4 << 20,), {})] if T else [])
    sess = inject.Session()
    try:
        cases = []
        for fn, a, k in menu:
            for kind in ('thread', 'process', 'remote'):
                if T or rng.random() < (0.9 if kind != 'remote' else 0.5):
                    cases.append((fn, a, k, kind, rng.random() < 0.4))
        for fn, a, k in big:
            for kind in ('thread', 'process', 'remote'):
                cases.append((fn, a, k, kind, False))
        for i, (fn, a, k, kind, via_create) in enumerate(cases):
            exp = direct(fn, a, k)
            size = a[0] if fn is TG.f_bytes else 0
            w = None
            try:
                w = mk(kind, sess, fn, a, k, via_create)
                st, r = watchdog(lambda: w.wait(6), 15)
                if st != 'ok' or r is not True:
                    got = ('not-finished', st, r)
                else:
                    got = observed(w)
            except Exception as e:  # noqa
                got = ('ctor-or-access-raised', type(e).__name__, str(e)[:80])
            finally:
                try:
                    if w is not None and w.is_alive():
                        w.terminate(0.5, **({'force': True} if kind != 'thread' else {}))
                except BaseException:  # noqa
                    pass
            nontrivial = exp[0] == 'err' or not exp[1] or size > 1000 or isinstance(exp[1], (dict, tuple, TG.Custom))
            ctx.case((fn.__name__, repr(a), repr(k), kind, via_create), nontrivial,
                     sample={'target': fn.__name__, 'args': repr(a)[:60], 'kwargs': k, 'kind': kind, 'create': via_create, 'outcome': repr(got)[:80]} if i % 23 == 0 else None)
            ctx.count(kind)
            if got != exp:
                cls = 'big' if size > cap else ('exception' if exp[0] == 'err' else 'value')
                sig = f'differs-from-direct:{kind}:{cls}' + (':not-finished' if got[0] == 'not-finished' else '')
                ctx.fail(sig, f'{kind} worker ({"Worker.create" if via_create else "constructor"}) running {fn.__name__}{a!r}{k!r}: {repr(got)[:120]} instead of {repr(exp)[:120]}',
                         {'target': fn.__name__, 'args': list(a), 'kwargs': k, 'kind': kind, 'via_create': via_create, 'result_bytes': size, 'pipe_capacity': cap})
        # ---- remote kind, big result, parent draining the data connection slowly (the backend exits long before)
        import pyworkers.remote as R
        orig_exact = R._recv_exact

        def slow_exact(sock, n):
            if n < (1 << 20):
                return orig_exact(sock, n)
            chunks = []
            while n:                       # small reads with pauses: the sender's data stays in its socket buffer
                c = sock.recv(min(32768, n))
                if not c:
                    raise R.ConnectionClosedError()
                n -= len(c)
                chunks.append(c)
                time.sleep(0.01)
            return b''.join(chunks)
        R._recv_exact = slow_exact
        try:
            w = mk('remote', sess, TG.f_bytes, (4 << 20,), {}, False)
            st, r = watchdog(lambda: w.wait(20), 40)
            got = observed(w) if st == 'ok' and r else ('not-finished', st, r)
            ok = got[0] == 'ok' and isinstance(got[1], bytes) and len(got[1]) == (4 << 20)
            ctx.case(('remote-slow-reader',), True, sample={'case': '4 MiB result, parent reads slowly', 'outcome': (got[0], len(got[1]) if ok else repr(got)[:80])})
            if not ok:
                ctx.fail('differs-from-direct:remote:big:slow-reader', f'remote worker returning 4 MiB while the parent drains the connection slowly: {repr(got)[:120]}', {'target': 'f_bytes', 'args': [4 << 20], 'kind': 'remote', 'scenario': 'slow-reader'})
        finally:
            R._recv_exact = orig_exact
        # ---- a remote target may be silent for any length of time: the connections the parent waits on must not carry a
        #      timeout (a timeout T makes every target that runs longer than T come back as "no outcome")
        silent = 12.0 if T else 0.0
        for persistent in (False, True):
            sess.write_conf(None)
            if persistent:
                from pyworkers.persistent_remote import PersistentRemoteWorker
                w = PersistentRemoteWorker(TG.f_after, host=sess.addr(), main_path='')
            else:
                w = mk('remote', sess, TG.f_after, (0.3, 'late'), {}, False)
            socks = {n: getattr(w, n) for n in ('_socket', '_ctrl_sock') if hasattr(getattr(w, n, None), 'gettimeout')}
            limits = {n: s_.gettimeout() for n, s_ in socks.items() if s_.gettimeout() is not None}
            ctx.case(('remote-silence', persistent), True, sample={'case': 'timeouts on the parent-side connections of a remote worker', 'persistent': persistent, 'timeouts': limits or None})
            try:
                w.terminate(0.5, force=True)
            except Exception:
                pass
            wait_for = max([silent] + [t + 1.5 for t in limits.values() if t <= 25])
            if wait_for:
                # run a target that is silent for longer than the shortest limit (thorough tier: 12 s in any case)
                sess.write_conf(None)
                if persistent:
                    w = PersistentRemoteWorker(TG.f_after, host=sess.addr(), main_path='')
                    w.enqueue(wait_for, 'late')
                    st, r = watchdog(lambda: w.next_result(timeout=wait_for + 15), wait_for + 30)
                    got = ('ok', r) if st == 'ok' else (st, repr(r)[:80])
                else:
                    w = mk('remote', sess, TG.f_after, (wait_for, 'late'), {}, False)
                    st, r = watchdog(lambda: w.wait(wait_for + 15), wait_for + 30)
                    got = observed(w) if st == 'ok' and r else ('not-finished', st, r)
                try:
                    w.terminate(0.5, force=True)
                except Exception:
                    pass
                if got != ('ok', 'late'):
                    ctx.fail(f'differs-from-direct:remote:silent-target', f'{"persistent " if persistent else ""}remote worker whose target returns after {wait_for:.1f} s of silence: {got!r} instead of ("ok", "late")'
                             + (f' (timeouts on the connections: {limits})' if limits else ''), {'kind': 'remote', 'scenario': 'silent-target', 'persistent': persistent, 'seconds': wait_for})
            elif limits:
                ctx.fail('differs-from-direct:remote:silent-target', f'the parent-side connections of a remote worker carry timeouts {limits}: a target that runs longer comes back without its outcome',
                         {'kind': 'remote', 'scenario': 'silent-target', 'persistent': persistent, 'seconds': max(limits.values()) + 1.5})
        # ---- not-run workers and the create() table
        from pyworkers.worker import Worker, WorkerType
        from pyworkers.persistent import PersistentWorker
        for kind in ('thread', 'process', 'remote'):
            for target, run, expect_run in ((None, None, False), (TG.f_add, False, False), (None, True, True), (TG.f_add, None, True)):
                kw = {'host': sess.addr(), 'main_path': ''} if kind == 'remote' else {}
                if run is not None:
                    kw['run'] = run
                sess.write_conf(None)
                mod = __import__('pyworkers.' + kind, fromlist=['x'])
                w = getattr(mod, kind.capitalize() + 'Worker')(target, args=[1], **kw)
                alive0 = w.is_alive()
                watchdog(lambda: w.wait(5), 10)
                got = (w.is_alive(), w.has_error, w.result if target is None or not expect_run else 'v')
                exp = (False, False, None if (target is None or not expect_run) else 'v')
                ctx.case(('norun', kind, target is None, run), True)
                if got != exp or (not expect_run and alive0):
                    ctx.fail(f'norun:{kind}', f'{kind} worker target={"None" if target is None else "f"} run={run}: (is_alive, has_error, result)={got}, alive right after construction={alive0}', {'kind': kind, 'scenario': 'norun', 'target_none': target is None, 'run': run})
        table = {}
        for wt in WorkerType:
            for base in (Worker, PersistentWorker):
                kw = {'host': sess.addr(), 'main_path': ''} if wt == WorkerType.REMOTE else {}
                w = base.create(wt, None, run=False, **kw)
                table[(wt.name, base is PersistentWorker)] = type(w).__name__
        exp_table = {(n, p): ('Persistent' if p else '') + n.capitalize() + 'Worker' for n in ('THREAD', 'PROCESS', 'REMOTE') for p in (False, True)}
        ctx.case(('create-table',), True, sample={'create_table': {f'{k[0]}/{"persistent" if k[1] else "oneshot"}': v for k, v in table.items()}})
        if table != exp_table:
            ctx.fail('create-table', f'Worker.create maps {table}', {'scenario': 'create-table'})
        model = ctx.model(['c02create'])
        if model is not None and model[0] != ','.join(table[(n, p)] for p in (False, True) for n in ('THREAD', 'PROCESS', 'REMOTE')):
            ctx.broke('correspondence', 'Create.className vs Worker.create', f'model {model[0]} impl {table}')
    finally:
        sess.close()


def replay(case):
    print(case)
    sess = inject.Session()
    try:
        if case.get('scenario') == 'silent-target':
            secs = float(case.get('seconds', 12))
            if case.get('persistent'):
                from pyworkers.persistent_remote import PersistentRemoteWorker
                sess.write_conf(None)
                w = PersistentRemoteWorker(TG.f_after, host=sess.addr(), main_path='')
                w.enqueue(secs, 'late')
                print('result after', secs, 's of silence:', watchdog(lambda: w.next_result(timeout=secs + 15), secs + 30))
            else:
                w = mk('remote', sess, TG.f_after, (secs, 'late'), {}, False)
                st, r = watchdog(lambda: w.wait(secs + 15), secs + 30)
                print('outcome after', secs, 's of silence:', observed(w) if st == 'ok' and r else ('not-finished', st, r), '(direct call: ("ok", "late"))')
            try:
                w.terminate(0.5, force=True)
            except Exception:
                pass
        elif 'target' in case and 'kind' in case and isinstance(case.get('args'), list):
            fn = getattr(TG, case['target'])
            w = mk(case['kind'], sess, fn, tuple(case['args']), case.get('kwargs') or {}, case.get('via_create', False))
            st, r = watchdog(lambda: w.wait(20), 40)
            print('worker :', observed(w) if st == 'ok' and r else ('not-finished', st, r))
            print('direct :', direct(fn, tuple(case['args']), case.get('kwargs') or {}))
            try:
                w.terminate(0.5, **({'force': True} if case['kind'] != 'thread' else {}))
            except Exception:
                pass
    finally:
        sess.close()
