"""C02 — all worker kinds compute exactly what a direct call would."""
import socket
import time

from common import Ctx, watchdog
import inject
import pwv_targets as TG


def pipe_capacity():
    """bytes that can be written to a fresh multiprocessing Pipe before the writer blocks"""
    import multiprocessing as mp
    a, b = mp.Pipe()
    s = socket.socket(fileno=a.fileno()) if False else None
    import os
    import fcntl
    fd = a.fileno()
    fl = fcntl.fcntl(fd, fcntl.F_GETFL)
    fcntl.fcntl(fd, fcntl.F_SETFL, fl | os.O_NONBLOCK)
    n = 0
    try:
        while True:
            n += os.write(fd, b'x' * 4096)
    except BlockingIOError:
        pass
    a.close()
    b.close()
    return n


def direct(fn, args, kwargs):
    try:
        return ('ok', fn(*args, **kwargs))
    except Exception as e:
        return ('err', type(e), e.args)


def observed(w):
    if w.has_error:
        e = w.error
        return ('err', type(e), getattr(e, 'args', None)) if w.result is None else ('err+result', type(e), None)
    return ('ok', w.result) if w.error is None else ('ok+error', w.result)


def mk(kind, sess, fn, args, kwargs, via_create, run=None):
    from pyworkers.worker import Worker, WorkerType
    kw = dict(args=list(args), kwargs=dict(kwargs))
    if run is not None:
        kw['run'] = run
    if kind == 'remote':
        kw.update(host=sess.addr(), main_path='')
    sess.write_conf(None)
    if via_create:
        return Worker.create({'thread': WorkerType.THREAD, 'process': WorkerType.PROCESS, 'remote': WorkerType.REMOTE}[kind], fn, **kw)
    mod = __import__('pyworkers.' + kind, fromlist=['x'])
    return getattr(mod, kind.capitalize() + 'Worker')(fn, **kw)


def main(ctx: Ctx):
    ctx.assumptions += [
        'targets are deterministic and picklable; values compared with ==, exceptions by type and args',
        'capacity of a multiprocessing Pipe is measured each run, not assumed',
        'classes defined in the main script are not exercised in this check',
    ]
    ctx.cov['rule'] = ('menu of module-level targets x positional/keyword shapes x values (None, falsy, nested containers, custom class, bytes of 0..4 MB incl. sizes around the measured pipe capacity) x exception classes/args '
                       'x {thread, process, remote} x {constructor, Worker.create} x run {None, True, False} x target None; non-trivial = value is falsy/large/nested or an exception; distinct by (target, args, kind, how)')
    ctx.lean()
    T = ctx.thorough
    rng = ctx.rng
    cap = pipe_capacity()
    ctx.cov['measured_pipe_capacity_bytes'] = cap
    menu = [
        (TG.f_add, (1,), {}), (TG.f_add, (1, 2), {}), (TG.f_add, (1,), {'b': 5}), (TG.f_none, (), {}), (TG.f_none, (1,), {'x': 2}),
        (TG.f_falsy, ('zero',), {}), (TG.f_falsy, ('empty',), {}), (TG.f_falsy, ('list',), {}), (TG.f_falsy, ('false',), {}), (TG.f_falsy, ('dict',), {}),
        (TG.f_nested, (3,), {}), (TG.f_varargs, (1, 'a', None), {'k': [1], 'z': 0}), (TG.f_varargs, (), {}), (TG.f_custom, (7,), {}),
        (TG.f_bytes, (0,), {}), (TG.f_bytes, (1,), {}), (TG.f_bytes, (65535,), {}), (TG.f_bytes, (65537,), {}),
        (TG.f_raise, ('value', 'x', 1), {}), (TG.f_raise, ('key', 'k'), {}), (TG.f_raise, ('my',), {}), (TG.f_raise, ('runtime', 'a', 'b', 3), {}),
    ]
    big = [(TG.f_bytes, (max(cap - 4096, 1),), {}), (TG.f_bytes, (cap + 4096,), {}), (TG.f_bytes, (1 << 20,), {})] + ([(TG.f_bytes, (4 << 20,), {})] if T else [])
    sess = inject.Session()
    try:
        cases = []
        for fn, a, k in menu:
            for kind in ('thread', 'process', 'remote'):
                if T or rng.random() < (0.9 if kind != 'remote' else 0.5):
                    cases.append((fn, a, k, kind, rng.random() < 0.4))
        for fn, a, k in big:
            for kind in ('thread', 'process', 'remote'):
                cases.append((fn, a, k, kind, False))
        for i, (fn, a, k, kind, via_create) in enumerate(cases):
            exp = direct(fn, a, k)
            size = a[0] if fn is TG.f_bytes else 0
            w = None
            try:
                w = mk(kind, sess, fn, a, k, via_create)
                st, r = watchdog(lambda: w.wait(6), 15)
                if st != 'ok' or r is not True:
                    got = ('not-finished', st, r)
                else:
                    got = observed(w)
            except Exception as e:  # noqa
                got = ('ctor-or-access-raised', type(e).__name__, str(e)[:80])
            finally:
                try:
                    if w is not None and w.is_alive():
                        w.terminate(0.5, **({'force': True} if kind != 'thread' else {}))
                except BaseException:  # noqa
                    pass
            nontrivial = exp[0] == 'err' or not exp[1] or size > 1000 or isinstance(exp[1], (dict, tuple, TG.Custom))
            ctx.case((fn.__name__, repr(a), repr(k), kind, via_create), nontrivial,
                     sample={'target': fn.__name__, 'args': repr(a)[:60], 'kwargs': k, 'kind': kind, 'create': via_create, 'outcome': repr(got)[:80]} if i % 23 == 0 else None)
            ctx.count(kind)
            if got != exp:
                cls = 'big' if size > cap else ('exception' if exp[0] == 'err' else 'value')
                sig = f'differs-from-direct:{kind}:{cls}' + (':not-finished' if got[0] == 'not-finished' else '')
                ctx.fail(sig, f'{kind} worker ({"Worker.create" if via_create else "constructor"}) running {fn.__name__}{a!r}{k!r}: {repr(got)[:120]} instead of {repr(exp)[:120]}',
                         {'target': fn.__name__, 'args': list(a), 'kwargs': k, 'kind': kind, 'via_create': via_create, 'result_bytes': size, 'pipe_capacity': cap})
        # ---- remote kind, big result, parent draining the data connection slowly (the backend exits long before)
        import pyworkers.remote as R
        orig_exact = R._recv_exact

        def slow_exact(sock, n):
            if n < (1 << 20):
                return orig_exact(sock, n)
            chunks = []
            while n:                       # small reads with pauses: the sender's data stays in its socket buffer
                c = sock.recv(min(32768, n))
                if not c:
                    raise R.ConnectionClosedError()
                n -= len(c)
                chunks.append(c)
                time.sleep(0.01)
            return b''.join(chunks)
        R._recv_exact = slow_exact
        try:
            w = mk('remote', sess, TG.f_bytes, (4 << 20,), {}, False)
            st, r = watchdog(lambda: w.wait(20), 40)
            got = observed(w) if st == 'ok' and r else ('not-finished', st, r)
            ok = got[0] == 'ok' and isinstance(got[1], bytes) and len(got[1]) == (4 << 20)
            ctx.case(('remote-slow-reader',), True, sample={'case': '4 MiB result, parent reads slowly', 'outcome': (got[0], len(got[1]) if ok else repr(got)[:80])})
            if not ok:
                ctx.fail('differs-from-direct:remote:big:slow-reader', f'remote worker returning 4 MiB while the parent drains the connection slowly: {repr(got)[:120]}', {'target': 'f_bytes', 'args': [4 << 20], 'kind': 'remote', 'scenario': 'slow-reader'})
        finally:
            R._recv_exact = orig_exact
        # ---- not-run workers and the create() table
        from pyworkers.worker import Worker, WorkerType
        from pyworkers.persistent import PersistentWorker
        for kind in ('thread', 'process', 'remote'):
            for target, run, expect_run in ((None, None, False), (TG.f_add, False, False), (None, True, True), (TG.f_add, None, True)):
                kw = {'host': sess.addr(), 'main_path': ''} if kind == 'remote' else {}
                if run is not None:
                    kw['run'] = run
                sess.write_conf(None)
                mod = __import__('pyworkers.' + kind, fromlist=['x'])
                w = getattr(mod, kind.capitalize() + 'Worker')(target, args=[1], **kw)
                alive0 = w.is_alive()
                watchdog(lambda: w.wait(5), 10)
                got = (w.is_alive(), w.has_error, w.result if target is None or not expect_run else 'v')
                exp = (False, False, None if (target is None or not expect_run) else 'v')
                ctx.case(('norun', kind, target is None, run), True)
                if got != exp or (not expect_run and alive0):
                    ctx.fail(f'norun:{kind}', f'{kind} worker target={"None" if target is None else "f"} run={run}: (is_alive, has_error, result)={got}, alive right after construction={alive0}', {'kind': kind, 'scenario': 'norun', 'target_none': target is None, 'run': run})
        table = {}
        for wt in WorkerType:
            for base in (Worker, PersistentWorker):
                kw = {'host': sess.addr(), 'main_path': ''} if wt == WorkerType.REMOTE else {}
                w = base.create(wt, None, run=False, **kw)
                table[(wt.name, base is PersistentWorker)] = type(w).__name__
        exp_table = {(n, p): ('Persistent' if p else '') + n.capitalize() + 'Worker' for n in ('THREAD', 'PROCESS', 'REMOTE') for p in (False, True)}
        ctx.case(('create-table',), True, sample={'create_table': {f'{k[0]}/{"persistent" if k[1] else "oneshot"}': v for k, v in table.items()}})
        if table != exp_table:
            ctx.fail('create-table', f'Worker.create maps {table}', {'scenario': 'create-table'})
        model = ctx.model(['c02create'])
        if model is not None and model[0] != ','.join(table[(n, p)] for p in (False, True) for n in ('THREAD', 'PROCESS', 'REMOTE')):
            ctx.broke('correspondence', 'Create.className vs Worker.create', f'model {model[0]} impl {table}')
    finally:
        sess.close()


def replay(case):
    print(case)
