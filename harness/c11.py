"""C11 — the remote server survives every client failure."""
import time

from common import Ctx, watchdog
import inject
import remote_peer as RP
import pwv_targets as TG


def slow_item(x=0, *a, **k):
    time.sleep(0.05)
    return x + 1000


class ServerUnderTest:
    """one real server + a healthy client's long-lived persistent worker (plain and in a context)"""

    def __init__(self, sess):
        from common import spawn_server
        from pyworkers.persistent_remote import PersistentRemoteWorker
        from pyworkers.remote_context import RemoteContext
        sess.write_conf(None)
        self.server = spawn_server(('127.0.0.1', 0))
        self.addr = self.server.addr
        self.ctx = RemoteContext(901, host=self.addr, target=slow_item)
        self.healthy = PersistentRemoteWorker(slow_item, host=self.addr, main_path='')
        self.healthy_ctx = PersistentRemoteWorker(None, host=self.addr, context=901, main_path='')
        self.n = 0

    def check(self):
        """returns a failure description or None"""
        if not self.server.is_alive():
            return 'server-dead', f'the server process is gone (error: {self.server.error!r})'
        rt = RP.round_trip(self.addr)
        if rt != (False, 8):
            return 'no-service', f'a fresh well-behaved RemoteWorker after the fault gives {rt}'
        # a fresh worker inside the healthy client's context (served by the context's own process, not by the accept loop)
        from pyworkers.persistent_remote import PersistentRemoteWorker
        box = {}

        def fresh_ctx():
            w = PersistentRemoteWorker(None, host=self.addr, context=901, main_path='')
            try:
                box['v'] = w.call(5)
            finally:
                try:
                    w.terminate(0.5, force=False)
                except BaseException:  # noqa
                    pass
        st, e = watchdog(fresh_ctx, 10)
        if st != 'ok' or box.get('v') != 1005:
            return 'no-service-in-context', f'a fresh well-behaved worker in the healthy client\'s context after the fault: {st} {e!r} {box.get("v")!r}'
        for name, w in (('plain', self.healthy), ('in-context', self.healthy_ctx)):
            self.n += 1
            st, v = watchdog(lambda: w.call(self.n), 8)
            if st != 'ok' or v != self.n + 1000:
                return f'healthy-{name}-disturbed', f'the healthy client\'s {name} worker answers {v!r} ({st}) after another client failed'
        return None

    def close(self):
        import os
        import signal
        for w in (self.healthy, self.healthy_ctx):
            try:
                w.terminate(0.5, force=False)
            except BaseException:  # noqa
                pass
        try:
            for p in RP.descendants(self.server.pid):
                os.kill(p, signal.SIGKILL)
            os.kill(self.server.pid, signal.SIGKILL)
        except Exception:
            pass


def main(ctx: Ctx):
    ctx.assumptions += [
        'FIN/RST visibility timing of the kernel on loopback; a fault is followed by a 50 ms pause before the server is probed',
        'request streams are recorded from the real client code each run (so they follow /repo\'s current wire format)',
        'the server-side exception policy is regenerated from /repo (T-srv, Gen/ServerLoop.lean)',
    ]
    ctx.cov['rule'] = ('recorded client byte streams of the five request kinds {worker, persistent worker, context create, context delete, worker in context} cut at byte offsets (every 7th + all message boundaries in quick; every offset in thorough) with FIN and RST; '
                       'control-handshake faults {never connect, connect then close, close after runtime info}; a healthy client holds a plain and an in-context persistent worker throughout; sequences of faulty clients between probes; '
                       'non-trivial = a fault; distinct by (request kind, offset/step, FIN|RST)')
    import translate
    errors, _ = translate.regenerate_serverloop()
    for e in errors:
        ctx.broke('translation', 'harness/translate.py (T-srv)', e)
    ctx.lean()
    T = ctx.thorough
    rng = ctx.rng
    sess = inject.Session()
    sut = None
    try:
        streams = RP.recorded_streams()
        ctx.cov['recorded_stream_bytes'] = {k: len(v) for k, v in streams.items()}
        faults = []
        for kind, stream in streams.items():
            if kind == 'worker-slow':
                continue
            L = len(stream)
            # (offset L: the complete request is sent and the client vanishes at once)
            offs = set(range(0, L, 1 if T else 7)) | {0, 1, 2, 3, 4, 5, L - 1, L}
            # message boundaries: 4-byte length prefixes
            o = 0
            while o + 4 <= L:
                n = int.from_bytes(stream[o:o + 4], 'big')
                for d in (-1, 0, 1, 3, 4, 5):
                    offs.add(o + d)
                o += 4 + n
            # (a complete context-delete request is a valid deletion, not a failure of that client)
            for off in sorted(x for x in offs if 0 <= x <= L and not (x == L and kind == 'ctx-delete')):
                for how in (('fin', 'rst') if (T or off % 2 == 0) else ('fin',)):
                    faults.append(('cut', kind, off, how))
        for kind in ('worker', 'pworker', 'worker-in-ctx'):
            for step in ('no-connect', 'connect-close', 'after-info'):
                for how in ('fin', 'rst'):
                    faults.append(('handshake', kind, step, how))
        # the client vanishes while the backend is still starting up (after the control connect, before the runtime info)
        for how in ('fin', 'rst'):
            faults.append(('handshake', 'worker-slow', 'connect-close', how))
            faults.append(('handshake', 'worker-slow', 'during-startup', how))
        if not T:
            keep = [f for f in faults if f[0] == 'handshake' or (f[0] == 'cut' and f[2] == len(streams[f[1]]))]
            cuts = [f for f in faults if f[0] == 'cut' and f[2] != len(streams[f[1]])]
            keep += rng.sample(cuts, min(len(cuts), 110))
            faults = keep
        # ---- a server that has not served anybody yet: the faulty client is its very first one
        from common import spawn_server
        for kind in ('worker', 'pworker'):
            stream = streams[kind]
            hdr = 4 + int.from_bytes(stream[:4], 'big')
            for off in (hdr + 10, len(stream) - 1):
                sess.write_conf(None)
                srv = spawn_server(('127.0.0.1', 0))
                try:
                    RP.send_cut(srv.addr, stream, off, 'fin')
                    time.sleep(0.1)
                    rt = RP.round_trip(srv.addr) if srv.is_alive() else ('server-dead',)
                    ctx.case(('first-client', kind, off), True)
                    if rt != (False, 8):
                        ctx.fail(f'first-client:{kind}:payload', f'a server whose very first client sent a {kind} request cut at byte {off}: a following well-behaved client gets {rt}', {'fault': ['cut', kind, off, 'fin'], 'scenario': 'first-client'})
                finally:
                    import os
                    import signal
                    try:
                        for p_ in RP.descendants(srv.pid):
                            os.kill(p_, signal.SIGKILL)
                        os.kill(srv.pid, signal.SIGKILL)
                    except Exception:
                        pass
        # ---- a server started the way the command line starts it (close_on_none=True: an explicit `None` request shuts it
        #      down): a client that vanishes before its header is complete has not asked for anything
        hdr_len = 4 + int.from_bytes(streams['worker'][:4], 'big')
        for off in (0, 2, 4, hdr_len - 1):
            for how in ('fin', 'rst'):
                sess.write_conf(None)
                srv = spawn_server(('127.0.0.1', 0), close_on_none=True)
                try:
                    RP.send_cut(srv.addr, streams['worker'], off, how)
                    time.sleep(0.2)
                    rt = RP.round_trip(srv.addr) if srv.is_alive() else ('server-dead', repr(getattr(srv, 'error', None)))
                    ctx.case(('close-on-none', off, how), True, sample={'case': 'server with close_on_none=True, client vanishes inside its header', 'offset': off, 'how': how, 'then': rt} if (off, how) == (0, 'fin') else None)
                    if rt != (False, 8):
                        ctx.fail('close-on-none:header', f'a server running with close_on_none=True: a client that sent {off} bytes of its header and vanished ({how}) - a following well-behaved client gets {rt}',
                                 {'fault': ['cut', 'worker', off, how], 'scenario': 'close-on-none'})
                finally:
                    import os
                    import signal
                    try:
                        for p_ in RP.descendants(srv.pid):
                            os.kill(p_, signal.SIGKILL)
                        os.kill(srv.pid, signal.SIGKILL)
                    except Exception:
                        pass
        rng.shuffle(faults)
        sut = ServerUnderTest(sess)
        pending = []
        for i, f in enumerate(faults):
            if sut is None:
                sut = ServerUnderTest(sess)
            try:
                if f[0] == 'cut':
                    RP.send_cut(sut.addr, streams[f[1]], f[2], f[3])
                else:
                    RP.handshake_fault(sut.addr, streams[f[1]], f[2], f[3])
            except Exception as e:  # the server may already be gone
                pending.append(f)
            pending.append(f)
            ctx.case(f, True, sample={'fault': f} if i % 37 == 0 else None)
            ctx.count(f'{f[0]}:{f[1]}')
            # probe after every 1-3 faulty clients (sequences of several faulty clients)
            if len(pending) >= rng.randint(1, 3) or i == len(faults) - 1:
                time.sleep(0.05)
                bad = sut.check()
                if bad:
                    # attribute to the last faults; re-test each alone on a fresh server to name the culprit
                    culprit = None
                    sut.close()
                    for g in pending:
                        s2 = ServerUnderTest(sess)
                        try:
                            if g[0] == 'cut':
                                RP.send_cut(s2.addr, streams[g[1]], g[2], g[3])
                            else:
                                RP.handshake_fault(s2.addr, streams[g[1]], g[2], g[3])
                            time.sleep(0.05)
                            b2 = s2.check()
                        finally:
                            s2.close()
                        if b2:
                            culprit = (g, b2)
                            break
                    g, b = culprit if culprit else (pending[-1], bad)
                    where = f'{g[0]}:{g[1]}:{g[2] if g[0] == "handshake" else ("header" if g[2] < len(streams[g[1]]) and g[2] <= 4 + int.from_bytes(streams[g[1]][:4], "big") else "complete" if g[2] >= len(streams[g[1]]) else "payload")}'
                    ctx.fail(f'{b[0]}:{where}', f'after a client sent a {g[1]} request and failed ({g[0]} at {g[2]}, {g[3]}): {b[1]}', {'fault': list(g), 'sequence': [list(x) for x in pending]})
                    sut = None
                pending = []
    finally:
        if sut is not None:
            sut.close()
        sess.close()


def replay(case):
    sess = inject.Session()
    streams = RP.recorded_streams()
    if case.get('scenario') == 'close-on-none':
        from common import spawn_server
        import os
        import signal
        srv = spawn_server(('127.0.0.1', 0), close_on_none=True)
        try:
            g = case['fault']
            RP.send_cut(srv.addr, streams[g[1]], g[2], g[3])
            time.sleep(0.2)
            print('server alive:', srv.is_alive(), '- a well-behaved client afterwards gets', RP.round_trip(srv.addr) if srv.is_alive() else None, '(expected (False, 8))')
        finally:
            for p_ in RP.descendants(srv.pid) + [srv.pid]:
                try:
                    os.kill(p_, signal.SIGKILL)
                except Exception:
                    pass
            sess.close()
        return
    sut = ServerUnderTest(sess)
    try:
        for g in case.get('sequence', [case['fault']]):
            if g[0] == 'cut':
                # (offset -1 in a corpus file: the complete request)
                RP.send_cut(sut.addr, streams[g[1]], len(streams[g[1]]) if g[2] == -1 else g[2], g[3])
            else:
                RP.handshake_fault(sut.addr, streams[g[1]], g[2], g[3])
        time.sleep(0.1)
        print('check:', sut.check())
    finally:
        sut.close()
        sess.close()
