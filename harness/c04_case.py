"""One C04 scenario, run in its own process (a forced terminate of a thread/remote frontend SIGTERMs the
calling process, and an unbounded call must not take the whole check down).
usage: c04_case.py '<json: kind, behaviour, timeout, ops, persistent>'  -> prints one JSON line"""
import json
import os
import signal
import sys
import threading
import time
from pathlib import Path

HERE = Path(__file__).resolve().parent
sys.path.insert(0, str(HERE))
sys.path.insert(0, str(HERE / 'site'))
import logging  # noqa: E402
logging.disable(logging.CRITICAL)
from common import REPO  # noqa: E402
sys.path.insert(0, str(REPO))


def b_coop(*a, **k):
    while True:
        time.sleep(0.005)


def b_swallow(*a, **k):
    while True:
        try:
            time.sleep(0.005)
        except Exception:
            pass


def b_stop_when_asked(*a, **k):
    # reacts to the request by stopping its whole process (SIGSTOP): it becomes stopped *after* the child's control
    # thread has acknowledged the request
    while True:
        try:
            time.sleep(0.005)
        except Exception:
            os.kill(os.getpid(), signal.SIGSTOP)


def b_sleep(*a, **k):
    time.sleep(1000)


def b_hog(*a, **k):
    return sum(range(10 ** 11))


def b_quick(*a, **k):
    return 1


BEH = {'resumes': b_coop, 'stops': b_stop_when_asked, 'coop': b_coop, 'swallow': b_swallow, 'sleep': b_sleep, 'hog': b_hog, 'stopped': b_coop, 'finished': b_quick, 'notrun': b_quick}


def pid_state(pid):
    try:
        with open(f'/proc/{pid}/stat') as f:
            return f.read().rsplit(')', 1)[1].split()[0]
    except Exception:
        return None


def main():
    spec = json.loads(sys.argv[1])
    kind, beh, timeout, ops, persistent = spec['kind'], spec['behaviour'], spec['timeout'], spec['ops'], spec.get('persistent', False)
    mod = {'thread': 'thread', 'process': 'process', 'remote': 'remote'}[kind]
    clsname = ('Persistent' if persistent else '') + mod.capitalize() + 'Worker'
    m = __import__('pyworkers.' + ('persistent_' if persistent else '') + mod, fromlist=[clsname])
    cls = getattr(m, clsname)
    kw = {}
    server = None
    if kind == 'remote':
        from common import spawn_server
        server = spawn_server(('127.0.0.1', 0))
        kw = {'host': server.addr, 'main_path': ''}
    out = {'calls': [], 'spec': spec}
    try:
        if beh == 'notrun':
            w = cls(BEH[beh], run=False, **kw)
        else:
            w = cls(BEH[beh], **kw)
        if persistent and beh not in ('notrun',):
            w.enqueue(1)
        time.sleep(0.4 if beh != 'finished' else 0.8)
        pid = w.pid if kind != 'thread' else None
        out['pid'] = pid
        if beh in ('stopped', 'resumes') and pid:
            os.kill(pid, signal.SIGSTOP)
            time.sleep(0.1)
        if beh == 'finished':
            if persistent:
                w.close()
            time.sleep(0.4)
        for opi, op in enumerate(ops):
            name = op[0]
            t0 = time.time()
            box = {}
            if beh == 'resumes' and opi == 1 and pid:
                # the child that was unresponsive during the first call comes back in the middle of the second one
                def cont():
                    time.sleep(0.15)
                    try:
                        os.kill(pid, signal.SIGCONT)
                    except Exception:
                        pass
                threading.Thread(target=cont, daemon=True).start()

            def call():
                try:
                    if name == 'wait':
                        box['r'] = w.wait(timeout)
                    elif name == 'terminate':
                        box['r'] = w.terminate(timeout, force=op[1]) if len(op) > 1 else w.terminate(timeout)
                    elif name == 'is_alive':
                        box['r'] = w.is_alive()
                    elif name == 'close':
                        w.close()
                        box['r'] = 'closed'
                except BaseException as e:  # noqa
                    box['r'] = 'RAISES:' + type(e).__name__
            th = threading.Thread(target=call, daemon=True)
            th.start()
            th.join(spec.get('hang_after', 12))
            dt = time.time() - t0
            if th.is_alive():
                out['calls'].append({'op': op, 'ret': 'HANG', 'dt': round(dt, 2), 'state': pid_state(pid) if pid else None})
                break
            st = pid_state(pid) if pid else ('T' if False else None)
            thread_alive = w._child.is_alive() if kind == 'thread' and getattr(w, '_started', False) else None
            out['calls'].append({'op': op, 'ret': box.get('r'), 'dt': round(dt, 3), 'state': st, 'thread_alive': thread_alive})
    finally:
        try:
            if out.get('pid') and out['pid'] != os.getpid():
                try:
                    os.kill(out['pid'], signal.SIGKILL)
                except Exception:
                    pass
            if server is not None:
                os.kill(server.pid, signal.SIGKILL)
        except Exception:
            pass
        sys.stdout.write('RESULT ' + json.dumps(out) + '\n')
        sys.stdout.flush()
        os._exit(0)


if __name__ == '__main__':
    main()
