"""One isolated C09 scenario in a process of its own (it needs the main thread for a signal):
  c09_case.py interrupted-close <exit: with|close-again>
A KeyboardInterrupt (SIGINT to the main thread) arrives while Pool.close() is waiting for busy workers inside a
with-block. Afterwards - the with-block left through the exception, or terminate() called again - no worker of the pool may be alive.
Prints `RESULT {...}`."""
import json
import os
import signal
import sys
import threading
import time

sys.path.insert(0, os.path.dirname(os.path.abspath(__file__)))
sys.path.insert(0, os.path.join(os.path.dirname(os.path.abspath(__file__)), 'site'))
import logging  # noqa: E402
logging.disable(logging.CRITICAL)
from common import REPO  # noqa: E402
sys.path.insert(0, str(REPO))
import pwv_targets as TG  # noqa: E402


def pid_alive(pid):
    try:
        with open(f'/proc/{pid}/stat') as f:
            return f.read().rsplit(')', 1)[1].split()[0] not in ('Z', 'X')
    except Exception:
        return False


def main():
    how = sys.argv[2] if len(sys.argv) > 2 else 'with'
    from pyworkers.pool import Pool
    from pyworkers.worker import WorkerType
    out = {'how': how}
    pool = Pool(TG.t_pool, close_timeout=1)
    pids = []
    try:
        for _ in range(2):
            w = pool.add_worker(WorkerType.PROCESS)
            pids.append(w.pid)
        idle = pool.add_worker(WorkerType.PROCESS)
        pids.append(idle.pid)
        for w in list(pool.workers)[:2]:
            w.enqueue('hang')            # busy in an uncooperative target: close() has to wait, then to kill
        time.sleep(0.3)
        main_ident = threading.main_thread().ident

        def fire():
            time.sleep(0.4)
            signal.pthread_kill(main_ident, signal.SIGINT)
        interrupted = False
        try:
            with pool:
                threading.Thread(target=fire, daemon=True).start()
                pool.close()
        except KeyboardInterrupt:
            interrupted = True
        out['interrupted'] = interrupted
        if how == 'close-again':
            try:
                pool.terminate()
            except BaseException as e:  # noqa
                out['second_terminate'] = type(e).__name__
        time.sleep(0.5)
        out['alive_pids'] = [p for p in pids if pid_alive(p)]
        out['alive_workers'] = [i for i, w in enumerate(pool.workers) if w.is_alive()]
    finally:
        for p in pids:
            try:
                os.kill(p, signal.SIGKILL)
            except Exception:
                pass
        sys.stdout.write('RESULT ' + json.dumps(out) + '\n')
        sys.stdout.flush()
        os._exit(0)


if __name__ == '__main__':
    main()
