"""Shared by C01 / C03 / C06 / C16: enumerate landing points of the generated run-loop programs,
run the real worker and the model for each, compare."""
import time

import common
import inject
import translate


META = {}


def regenerate(ctx):
    """T-run: regenerate Gen/RunLoops.lean from /repo; a failure is a broken tie."""
    errors, meta, changed = translate.regenerate()
    ctx.cov['translated_programs'] = {k: f"{v['file']}:{v['first_line']} ({v['class']}.{v['function']})" for k, v in meta.items()}
    for e in errors:
        ctx.broke('translation', 'harness/translate.py (T-run)', e)
    META.clear()
    META.update(meta)
    return meta


def model_runs(ctx, lines):
    out = ctx.model(lines)
    return [inject.parse_model(l) for l in out] if out is not None else None


def plan(ctx, meta, progs, targets, modes, items=2, per_prog=None, assigns=False):
    """list of cases (prog, target, k, mode) over all landing points after start-up"""
    base = []
    for prog in progs:
        persistent = inject.KINDS[prog][3]
        for t in targets:
            base.append((prog, t, persistent))
    ml = model_runs(ctx, [inject.model_line(p, t, items, None, None, pers, assigns=assigns) for p, t, pers in base])
    if ml is None:
        return [], {}
    cases = []
    undisturbed = {}
    for (prog, t, pers), m in zip(base, ml):
        tr = m['trace']
        undisturbed[(prog, t)] = m
        sl = (meta.get(prog) or {}).get('startup_line')
        if sl is None or sl not in tr:
            ctx.broke('translation', f'Gen.{prog}', f'start-up line {sl} not in the model trace')
            # search for a failing input on the real code all the same: take the landing points from a real undisturbed run
            try:
                sl = translate.startup_line_fallback(prog)
                sess = inject.Session()
                try:
                    tr = inject.run_case(sess, prog, t, None, None, items=items).get('trace') or []
                finally:
                    sess.close()
            except Exception:
                continue
            if sl is None or sl not in tr:
                continue
        kmin = tr.index(sl) + 1
        ks = list(range(kmin, len(tr)))
        cases.append((prog, t, None, None))
        for mode in modes:
            if mode == 'defer':
                # deferred delivery (process / remote kinds): arrival point k x delay d, sampled; half of the
                # samples are raised after the target has returned (where the join fence matters)
                if inject.KINDS[prog][2] == 'thread':
                    continue
                combos = [(k, d) for k in ks for d in range(0, len(tr) - k + 1)]
                after = tr.index(0) if 0 in tr else kmin
                late = [c for c in combos if c[0] + 1 + c[1] > after]
                n = (per_prog or {}).get('defer', 60)
                pick = ctx.rng.sample(late, min(n // 2, len(late))) + ctx.rng.sample(combos, min(n - n // 2, len(combos)))
                for k, d in sorted(set(pick)):
                    cases.append((prog, t, k, f'defer:{d}'))
                continue
            if mode == 'kill' and inject.KINDS[prog][2] == 'thread':
                continue
            if mode == 'raise' and inject.KINDS[prog][2] != 'thread':
                continue      # in a process the exception can only come from the child's control thread (a real terminate)
            sel = ks
            if per_prog is not None and len(ks) > per_prog.get(inject.KINDS[prog][2], 10 ** 6):
                sel = sorted(ctx.rng.sample(ks, per_prog[inject.KINDS[prog][2]]))
            for k in sel:
                cases.append((prog, t, k, mode))
    return cases, undisturbed


def run_cases(ctx, cases, items=2, stateful=False, consumer=False):
    """runs real + model; yields records"""
    lines = [inject.model_line(p, t, items, k, mode, inject.KINDS[p][3], assigns=stateful) for p, t, k, mode in cases]
    ml = model_runs(ctx, lines)
    sess = inject.Session()
    recs = []
    try:
        for i, (prog, t, k, mode) in enumerate(cases):
            t0 = time.time()
            r = inject.run_case(sess, prog, t, k, mode, items=items, stateful=stateful, consumer=consumer)
            rec = {'prog': prog, 'target': t, 'k': k, 'mode': mode, 'real': r, 'model': ml[i] if ml else None, 'line': lines[i], 'dt': time.time() - t0}
            recs.append(rec)
    finally:
        sess.close()
    return recs


def landing_line(rec):
    """source line of the landing point (0 = inside the target); for a deferred delivery: the line event at
    which the delayed exception is due (None if the run ends before)"""
    if rec['k'] is None:
        return None
    idx = rec['k']
    if (rec['mode'] or '').startswith('defer'):
        idx = rec['k'] + 1 + int(rec['mode'].split(':')[1])
    rt = rec['real'].get('trace') or []
    if len(rt) > idx:
        return rt[idx]
    if (rec['mode'] or '').startswith('defer'):
        return rt[-1] if rt and 'deferred-raise-never-arrived' not in rec['real'].get('notes', []) and len(rt) > rec['k'] + 1 else None
    mt = (rec['model'] or {}).get('trace') or []
    return mt[idx] if len(mt) > idx else None


def describe(rec):
    r = rec['real']
    return {'prog': rec['prog'], 'target': rec['target'], 'k': rec['k'], 'mode': rec['mode'],
            'landing_line': landing_line(rec),
            'obs': r.get('obs'), 'results': r.get('results'), 'ctor': r.get('ctor'), 'notes': r.get('notes'), 'model_line': rec['line']}


def correspond(ctx, rec, what='Py.run + Lifecycle.observe vs real worker'):
    """trace (prefix up to the landing point) and first post-mortem observation must agree with the model"""
    r, m = rec['real'], rec['model']
    if m is None:
        return
    ctx.cov['traces_validated_against_impl'] += 1
    if r.get('ctor') != 'ok':
        ctx.broke('correspondence', what, f'{rec["line"]}: constructor {r.get("ctor")}')
        return
    rt = r['trace']
    mt = m['trace']
    sd = (META.get(rec['prog']) or {}).get('shutdown_line')
    if rec['k'] is None or (rt and rt[-1] == sd and len(rt) < rec['k'] + 1):
        # the backend's final socket.shutdown() may fail (ENOTCONN) when the parent has already closed
        # its side: the run then ends at that line - a modelled environment race, not a difference
        ok = rt == mt or (sd is not None and rt and rt[-1] == sd and rt == mt[:len(rt)])
    else:
        ok = rt == mt[:len(rt)] and len(rt) >= min(rec['k'] + 1, len(mt))
    if not ok:
        ctx.broke('correspondence', what + ' (line events)', f'{rec["line"]}\n real ={rt}\n model={mt}')
        return
    if 'landing-point-not-reached' in r.get('notes', []) or 'terminate-never-arrived' in r.get('notes', []):
        return
    o = (r.get('obs') or [{}])[0]
    if o.get('has_error') != m['has_error'] or (o.get('error') or 'None').split(':')[0] != m['error'].replace('other', 'other'):
        if not (str(o.get('error', '')).startswith('other') and m['error'] == 'user'):
            ctx.broke('correspondence', what + ' (outcome)', f'{rec["line"]}\n real ={o}\n model=has_error {m["has_error"]} error {m["error"]}')


class _Collector:
    """stands in for ctx while one record is judged: collects fail()/broke() calls"""

    def __init__(self, ctx):
        self._ctx = ctx
        self.fails, self.brokes = [], []
        self.cov = {'traces_validated_against_impl': 0}
        self.rng = ctx.rng

    def fail(self, sig, what, case):
        self.fails.append((sig, what, case))

    def broke(self, kind, name, detail):
        self.brokes.append((kind, name, detail))

    def __getattr__(self, name):
        return getattr(self._ctx, name)


def judge(ctx, rec, evaluate, items=2, stateful=False, consumer=False):
    """evaluate(ctxlike, rec) reports through ctxlike.fail / ctxlike.broke. A failing record is re-run once in a fresh
    session; only what fails both times (same signature / same correspondence name) is reported: process scheduling
    noise (a terminate that arrives a moment late, a spawn that takes long) must not raise an alarm."""
    c1 = _Collector(ctx)
    evaluate(c1, rec)
    ctx.cov['traces_validated_against_impl'] += c1.cov['traces_validated_against_impl']
    if not c1.fails and not c1.brokes:
        return
    sess = inject.Session()
    try:
        r2 = inject.run_case(sess, rec['prog'], rec['target'], rec['k'], rec['mode'], items=items, stateful=stateful, consumer=consumer)
    finally:
        sess.close()
    rec2 = dict(rec, real=r2)
    c2 = _Collector(ctx)
    evaluate(c2, rec2)
    sigs2 = {f[0] for f in c2.fails}
    names2 = {b[1] for b in c2.brokes}
    for f in c1.fails:
        if f[0] in sigs2:
            ctx.fail(*f)
        else:
            ctx.count('not-reproduced-on-rerun')
    for b in c1.brokes:
        if b[1] in names2:
            ctx.broke(*b)
        else:
            ctx.count('not-reproduced-on-rerun')
