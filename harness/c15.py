"""C15 — load-time patches reach only the addressed objects and leave no residue."""
import threading

from common import Ctx
import frames as F
from pyworkers import remote_pickle


class Raiser(F.OptSet):
    def __setstate__(self, state):
        raise RuntimeError('boom')


def gen_patches(rng, spec, depth=0):
    """patch dict addressing the given (opt) node: values for existing/new keys, dict patches for direct opt children,
    sometimes for missing keys"""
    p = {}
    if spec[0] != 'o':
        if rng.random() < 0.7:
            p[rng.randint(1, 6)] = 100 + rng.randint(0, 9)
        return p
    keys = [k for k, _ in spec[3]]
    for _ in range(rng.randint(0, 2)):
        p[rng.choice(keys + [8, 9]) if keys else 9] = 100 + rng.randint(0, 9)
    for k, c in F.direct_opt_children(spec):
        if c[0] == 'o' and rng.random() < 0.6 and depth < 3:
            sub = gen_patches(rng, c, depth + 1)
            if sub or rng.random() < 0.35:
                p[k] = sub            # (an empty dict patch overrides nothing: the child must stay as it is)
    if rng.random() < 0.1:
        p[10] = {1: 5}        # dict patch for a key that does not exist
    return p


def expected_states(spec, patches):
    """final canonical attribute dicts per opt id, according to the property"""
    exp = {o[1]: dict(F.own_state(o)) for o in F.opt_nodes(spec)}

    def apply(o, p):
        st = exp[o[1]]
        kids = {k: c for k, c in F.direct_opt_children(o) if c[0] == 'o'}
        for k, v in p.items():
            if isinstance(v, dict):
                if k in kids:
                    apply(kids[k], v)
                else:
                    st[f'k{k}'] = 'd'
            else:
                st[f'k{k}'] = f'v{v}'
    if spec[0] == 'o' and spec[2] != 'T':
        apply(spec, patches)
    return exp


def addressed_ok(spec, patches):
    """patches whose meaning the property defines: dict patches only for direct opt-in children or new keys"""
    return True


def one_load(spec, patches):
    res = F.run_real(spec, patches)
    out = {'status': res['status'], 'error': res.get('error')}
    if res['status'] == 'ok':
        out['final'] = F.final_states(res['obj'])
    return out


class SharesState(F.SupportRemoteGetState):
    """opt-in class whose __getstate__ hands out a dictionary that something else in the graph holds too"""

    def __init__(self, state):
        self.__dict__ = state

    def __getstate__(self, remote=False):
        return self.__dict__          # not a copy: the pickle memo may see the very same dict elsewhere

    def __setstate__(self, state):
        self.__dict__.update(state)


class Holder:
    pass


def aliased_state_cases(ctx):
    """patches are merged into the state of the addressed object only: a dictionary that happens to BE that state
    (same object before pickling) and is also reachable elsewhere in the graph must not show them"""
    from pyworkers import remote_pickle
    import pickle

    def graphs():
        # (a) top-level opt-in object, a plain holder keeps a view of its attributes
        d = {'lr': 1, 'epochs': 3}
        top = SharesState(d)
        h = Holder()
        h.fields = d
        top.__dict__['audit'] = h
        yield 'top+holder', top, {'lr': 5, 'new': 7}, lambda g: g.audit.fields, lambda g: g
        # (b) child opt-in object whose state dict is also an attribute of its (opt-in) parent
        d2 = {'lr': 1, 'epochs': 3}
        parent = F.OptSet.__new__(F.OptSet)
        parent._id = 1
        parent.defaults = d2
        parent.job = SharesState(d2)
        yield 'child+parent-attr', parent, {'job': {'lr': 5, 'seed': 7}}, lambda g: g.defaults, lambda g: g.job
        # (c) the same inside a list holder next to the opt-in object
        d3 = {'x': 1}
        yield 'list-sibling', [SharesState(d3), d3][0:1] + [d3], None, None, None
    for name, g, patches, other, target in graphs():
        if patches is None:
            continue
        data = remote_pickle.dumps(g)
        for rep in (1, 2):            # (a second load must not see residue of the first either)
            try:
                plain = remote_pickle.loads(data)
                patched = remote_pickle.loads(data, extra_kwargs=patches)
            except BaseException as e:  # noqa
                ctx.fail(f'aliased-state:load-error:{name}', f'{name}: load failed with {type(e).__name__}: {e}', {'kind': 'aliased_state', 'graph': name})
                break
            before, after = dict(other(plain)), dict(other(patched))
            before.pop('audit', None), after.pop('audit', None)
            ctx.case(('aliased-state', name, rep), True, sample={'case': 'state dict shared with another object of the graph', 'graph': name, 'other_object_unpatched': before, 'other_object_patched_load': after} if rep == 1 else None)
            if name != 'top+holder' and after != before:
                ctx.fail(f'misdelivery:aliased-state:{name}', f'{name}: patches {patches} for one object changed another object of the graph: {before} became {after}', {'kind': 'aliased_state', 'graph': name})
            if name == 'top+holder':
                # the holder's dictionary is the state itself before pickling; after the load it is a dictionary of its own:
                # it must look as in an unpatched load
                keys = {k for k in after if k not in before}
                if after != before:
                    ctx.fail(f'misdelivery:aliased-state:{name}', f'{name}: patches {patches} for the top-level object also show in a plain object of the graph: {before} became {after} (new keys {sorted(keys)})', {'kind': 'aliased_state', 'graph': name})


def main(ctx: Ctx):
    ctx.assumptions += [
        'E-P1 (hook order of CPython pickle) as in C14',
        'per-thread state: threading.local gives each thread its own stack (CPython); concurrent loads are probed on 4 threads each run',
        'graphs in which an opt-in object names two or more opt-in children are excluded here: they do not load at all (C14 known finding)',
    ]
    ctx.cov['rule'] = ('graphs of C14 without opt-in siblings x patch dicts (values for existing/new keys, nested dict patches for direct opt-in children, dict patches for missing keys) ; '
                       'sequences: failing load (truncated stream / raising __setstate__ / assertion) followed by a normal load on the same thread; 4 concurrent threads; '
                       'non-trivial = non-empty patch dict and at least one opt-in object; distinct by (shape, patches)')
    ctx.lean()
    T = ctx.thorough
    rng = ctx.rng
    cases = []
    shapes = [g for g in F.all_shapes(3, 2 if not T else 3) if not F.has_siblings(g)]
    for g in (shapes if len(shapes) < 600 else rng.sample(shapes, 600 if not T else 6000)):
        cases.append((g, gen_patches(rng, g)))
    n = 0
    while n < (500 if not T else 5000):
        g = F.gen_graph(rng)
        if F.has_siblings(g) or any(o[2] == 'T' for o in F.opt_nodes(g)):
            continue
        n += 1
        cases.append((g, gen_patches(rng, g)))
    # corpus: the recorded misdelivery witness
    cases.insert(0, (('o', 1, 0, [(3, ('p', 'list', [('o', 2, 0, [(9, ('a', 1))])])), (4, ('o', 3, 0, [(8, ('a', 1))]))]), {1: 101, 4: {8: 105}}))
    cases.insert(1, (('o', 1, 0, [(3, ('o', 2, 0, [(9, ('a', 1))])), (4, ('a', 2))]), {3: {}}))
    cases.insert(2, (('o', 1, 1, [(3, ('o', 2, 0, [(5, ('o', 3, 1, [(9, ('a', 1))]))]))]), {3: {5: {}}, 7: 101}))
    model = ctx.model(['frames %s %s' % (F.model_graph(g), F.model_patches(p)) for g, p in cases])
    results = []
    for i, (g, p) in enumerate(cases):
        r = one_load(g, p)
        results.append(r)
        opts = F.opt_nodes(g)
        chain = F.is_pure_chain(g)
        ctx.case((F.model_graph(g), F.model_patches(p)), bool(p) and bool(opts),
                 sample={'graph': F.model_graph(g), 'patches': F.model_patches(p), 'status': r['status'], 'final': r.get('final')} if i % 173 == 0 else None)
        ctx.count('chain' if chain else 'nonchain')
        ctx.count('patched' if p else 'unpatched')
        case = {'graph': g, 'patches': p}
        cls = 'chain' if chain else 'nonchain'
        if not p:
            cls = 'nopatch'
        exp = expected_states(g, p)
        if r['status'] != 'ok':
            ctx.fail(f'load-fails:{cls}:{r["error"]}', f'loads of {F.model_graph(g)} with patches {F.model_patches(p)} fails with {r["error"]}', case)
        elif any(exp.get(i) != st for i, st in r['final'].items()) or (g[0] == 'o' and g[1] not in r['final']):
            # (objects replaced by a non-dict patch value are no longer reachable: only reachable objects are compared)
            wrong = sorted(i for i in r['final'] if r['final'].get(i) != exp.get(i))
            ctx.fail(f'misdelivery:{cls}', f'{F.model_graph(g)} patches {F.model_patches(p)}: objects {wrong} end up as { {i: r["final"].get(i) for i in wrong} } instead of { {i: exp[i] for i in wrong} }', case)
        # correspondence: model's delivered patches overlaid on own state must give the real final state
        if model is not None:
            ctx.cov['traces_validated_against_impl'] += 1
            m = F.parse_model(model[i])
            if m[0] == 'err':
                ok = r['status'] == 'load-error' and r['error'] in ('AssertionError', 'IndexError')
            else:
                ok = r['status'] == 'ok'
                if ok:
                    pred = {o[1]: dict(F.own_state(o)) for o in opts}
                    for oid, ents in m[1]:
                        pred[oid].update(ents)
                    ok = all(pred.get(i) == st for i, st in r['final'].items())
            if not ok:
                ctx.broke('correspondence', 'Frames.load vs remote_pickle.loads (patches)',
                          f'graph={F.model_graph(g)} patches={F.model_patches(p)} model={model[i]} impl={r}')
    # ---- independence: a failing load followed by each of a sample of cases, same thread
    sample = rng.sample(range(len(cases)), min(len(cases), 120 if not T else 1000))
    sib = ('o', 1, 0, [(1, ('o', 2, 0, [])), (2, ('o', 3, 0, []))])

    def failing(kind):
        try:
            if kind == 0:
                data = remote_pickle.dumps(F.build(sib))
                remote_pickle.loads(data[:-4], extra_kwargs={'k1': {'k2': 3}})
            elif kind == 1:
                r = object.__new__(Raiser)
                r._id = 77
                r.k1 = F.build(('o', 78, 0, []))
                remote_pickle.loads(remote_pickle.dumps(r), extra_kwargs={'k1': {'k5': 1}, 'k9': 2})
            else:
                remote_pickle.loads(remote_pickle.dumps(F.build(sib)), extra_kwargs={'k1': {'k5': 1}})
        except BaseException:  # noqa
            return True
        return False
    for j in sample:
        g, p = cases[j]
        kind = rng.randrange(3)
        box = {}

        def seq():
            box['failed'] = failing(kind)
            box['r'] = one_load(g, p)
        t = threading.Thread(target=seq)
        t.start()
        t.join(60)
        ctx.case(('seq', kind, F.model_graph(g), F.model_patches(p)))
        ctx.count('sequence')
        if box.get('r') != results[j]:
            ctx.fail(f'residue:after-failing-load-{kind}', f'after a failing loads (kind {kind}) on the same thread, loads of {F.model_graph(g)} patches {F.model_patches(p)} gives {box.get("r")} instead of {results[j]}',
                     {'graph': g, 'patches': p, 'preceded_by_failing_load': kind})
    # ---- concurrency: 4 threads
    errs = []

    def worker(seed):
        import random
        r = random.Random(seed)
        for _ in range(150 if not T else 1500):
            j = r.randrange(len(cases))
            if one_load(*cases[j]) != results[j]:
                errs.append(j)
    ts = [threading.Thread(target=worker, args=(ctx.seed * 10 + k,)) for k in range(4)]
    [t.start() for t in ts]
    [t.join(300) for t in ts]
    ctx.case(('threads', 4))
    if errs:
        g, p = cases[errs[0]]
        ctx.fail('threads:interference', f'concurrent loads on 4 threads: {len(errs)} loads differ from their single-threaded result', {'graph': g, 'patches': p, 'threads': 4})

    aliased_state_cases(ctx)


def replay(case):
    if case.get('kind') == 'aliased_state':
        class C:
            def case(self, *a, **k): print('observed', k.get('sample'))
            def fail(self, sig, what, desc): print('FAIL', sig, what)
        aliased_state_cases(C())
        return
    def tup(x):
        return tuple(tup(y) for y in x) if isinstance(x, list) and x and isinstance(x[0], str) else ([tup(y) for y in x] if isinstance(x, list) else x)
    spec = tup(case['graph'])
    p = case['patches']

    def fix(d):
        return {int(k): (fix(v) if isinstance(v, dict) else v) for k, v in d.items()}
    p = fix(p)
    print(F.model_graph(spec), F.model_patches(p))
    print('real    :', one_load(spec, p))
    print('expected:', expected_states(spec, p))
