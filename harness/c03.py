"""C03 — graceful terminate interrupts the target wherever it is, and is reported as such."""
import os

from common import Ctx, watchdog
import inject
import landing
import pwv_targets as TG

OWN = {'r': (False, 'None'), 'u': (True, 'user'), 'b': (True, 'base')}


def main(ctx: Ctx):
    ctx.assumptions += [
        'E-L1/E-L2 as in C01 (trace-hook delivery = asynchronous delivery at that line; translator patterns validated by the line-event correspondence)',
        'delivery latency of PyThreadState_SetAsyncExc and C code that never returns to the interpreter are outside the model (C04 covers unresponsive children)',
        'line-level landing points; opcode-level only through the target-internal pseudo event',
    ]
    ctx.cov['rule'] = ('real terminate() arriving at every line event after start-up of the six generated run-loop programs (thread kinds additionally: exception raised by the hook at the line; '
                       'process/remote kinds additionally: deferred delivery - the control thread receives the request at event k and raises d line events later or when joined, (k, d) sampled), '
                       'targets {returns, raises Exception, raises KeyboardInterrupt}; plus a target with try/finally interrupted inside the try (marker file); '
                       'non-trivial = a landing point; distinct by (program, target, k, mode)')
    meta = landing.regenerate(ctx)
    ctx.lean()
    T = ctx.thorough
    per = {'defer': 40} if T else {'thread': 10 ** 6, 'process': 7, 'remote': 6, 'defer': 6}
    cases, und = landing.plan(ctx, meta, list(inject.KINDS), ['r', 'u', 'b'], ['raise', 'terminate', 'defer'], per_prog=per)
    # always include the landing point inside the target for every program
    for prog in inject.KINDS:
        for t in ('r',):
            m = und.get((prog, t))
            if m and 0 in m['trace']:
                c = (prog, t, m['trace'].index(0), 'terminate')
                if c not in cases:
                    cases.append(c)
    recs = landing.run_cases(ctx, cases)
    # the target's own outcome as each kind reports it (undisturbed run of the same program and target)
    own = {}
    for rec in recs:
        if rec['k'] is None and rec['real'].get('obs'):
            o = rec['real']['obs'][0]
            own[(rec['prog'], rec['target'])] = (o.get('has_error'), str(o.get('error')).split(':')[0])
    def evaluate(c, rec):
        r = rec['real']
        landing.correspond(c, rec)
        if rec['k'] is None or r.get('ctor') != 'ok' or 'obs' not in r:
            return
        if 'landing-point-not-reached' in r['notes'] or 'terminate-never-arrived' in r['notes']:
            return
        kind = inject.KINDS[rec['prog']][2]
        o = r['obs'][0]
        got = (o.get('has_error'), str(o.get('error')).split(':')[0])
        line = landing.landing_line(rec)
        mine = own.get((rec['prog'], rec['target']), OWN[rec['target']])
        in_target = line == 0 and 'deferred-raise-never-arrived' not in r['notes']
        d = landing.describe(rec)
        if (rec['mode'] == 'terminate' or rec['mode'].startswith('defer')) and r.get('term_ret') is not True:
            c.fail(f'terminate-returned-{str(r.get("term_ret")).split(":")[0]}:{kind}', f'{rec["prog"]}: terminate(3) returned {r.get("term_ret")} (landing at line {line})', d)
        if not r.get('dead'):
            c.fail(f'not-dead:{kind}', f'{rec["prog"]}: worker still alive after terminate (landing at line {line})', d)
            return
        if in_target:
            if got != (True, 'wte'):
                c.fail(f'in-target-not-wte:{kind}:target={rec["target"]}', f'{rec["prog"]}: terminate landed inside the target but the outcome is {got}', d)
        elif got != (True, 'wte') and got != mine:
            where = 'handler' if line in handler_lines(meta, rec['prog']) else 'other'
            c.fail(f'neither-outcome:{kind}:target={rec["target"]}:{where}', f'{rec["prog"]} target={rec["target"]}: terminate landing at line {line} gives {got}: neither terminated nor the target\'s own outcome {mine}', d)
    for i, rec in enumerate(recs):
        ctx.case((rec['prog'], rec['target'], rec['k'], rec['mode']), rec['k'] is not None, sample=landing.describe(rec) if i % 53 == 0 else None)
        ctx.count(f'{inject.KINDS[rec["prog"]][2]}:{rec["mode"]}')
        landing.judge(ctx, rec, evaluate)
    # ---- the target's finally block runs (marker), for all six classes
    sess = inject.Session()
    try:
        for prog, (mod, clsname, kind, persistent) in inject.KINDS.items():
            if persistent:
                continue
            marker = os.path.join(sess.dir, f'marker_{prog}')
            und_m = und.get((prog, 'r'))
            if not und_m or 0 not in und_m['trace']:
                continue
            k = und_m['trace'].index(0)
            r = run_marker(sess, prog, k, marker)
            ctx.case(('marker', prog), sample={'case': 'terminate inside try/finally of the target', 'prog': prog, 'marker_written': os.path.exists(marker), 'obs': r.get('obs', [None])[0]})
            o = (r.get('obs') or [{}])[0]
            if not os.path.exists(marker) or (o.get('has_error'), o.get('error')) != (True, 'wte') or r.get('term_ret') is not True:
                ctx.fail(f'finally-not-run:{kind}', f'{prog}: terminate inside the target\'s try block: marker written={os.path.exists(marker)}, outcome {o}, terminate returned {r.get("term_ret")}',
                         {'prog': prog, 'scenario': 'marker', 'k': k})
        # ---- a second terminate() while the target is unwinding: the request was delivered once, the clean-up of the target
        #      (finally / with blocks) must run to its end. (Thread workers re-raise on every call by design: not included.)
        import time
        for prog, (mod, clsname, kind, persistent) in inject.KINDS.items():
            if persistent or kind == 'thread':
                continue
            marker = os.path.join(sess.dir, f'marker2_{prog}')
            cls = getattr(__import__(mod, fromlist=[clsname]), clsname)
            kw = {'host': sess.addr(), 'main_path': ''} if kind == 'remote' else {}
            sess.write_conf(None)
            w = cls(TG.t_slow_finally, args=[marker, 1.0], **kw)
            time.sleep(0.5)
            st1, r1 = watchdog(lambda: w.terminate(0, force=False), 10)
            time.sleep(0.25)
            st2, r2 = watchdog(lambda: w.terminate(5, force=False), 15)
            time.sleep(0.2)
            done = os.path.exists(marker)
            err = type(w.error).__name__ if st2 == 'ok' and not w.is_alive() else None
            ctx.case(('second-terminate', prog), True, sample={'case': 'second terminate() while the target runs its finally block', 'prog': prog, 'first': (st1, r1), 'second': (st2, r2), 'cleanup_completed': done, 'error': err})
            if st2 != 'ok' or r2 is not True or not done or err != 'WorkerTerminatedError':
                ctx.fail(f'cleanup-cut-short:{kind}', f'{prog}: terminate(0) then terminate(5) 0.25 s later while the target was in a finally block that needs 1 s: second call {st2} {r2!r}, '
                         f'clean-up completed={done}, error={err}', {'prog': prog, 'scenario': 'second-terminate'})
            try:
                w.terminate(0.5, force=True)
            except Exception:
                pass
    finally:
        sess.close()


def run_marker(sess, prog, k, marker):
    """like inject.run_case but with the try/finally target; landing = second line event of the target (inside try)"""
    old = inject.TARGETS['r']
    inject.TARGETS['r'] = TG.t_try
    try:
        return inject.run_case(sess, prog, 'r', k, 'terminate', extra_kwargs={'args': [marker]})
    finally:
        inject.TARGETS['r'] = old


_HL = {}


def handler_lines(meta, prog):
    """line numbers of except-clauses and their bodies in the translated program (from the generated Lean text)"""
    if prog not in _HL:
        import re
        from common import LEAN
        txt = (LEAN / 'PwVerif' / 'Gen' / 'RunLoops.lean').read_text()
        m = re.search(r'def ' + prog + r' : List Stmt :=\n(.*?)\n\n', txt, re.S)
        lines = set()
        if m:
            for h in re.finditer(r'\(\.(?:exception|baseException|\(only[^)]*\))|\(\(\.only[^)]*\)', m.group(1)):
                pass
            # handlers look like `(.exception, 187, [ ... ])`: collect the except line and every `.line N` up to the matching bracket
            body = m.group(1)
            for hm in re.finditer(r'\((?:\.exception|\.baseException|\(\.only \[[^\]]*\]\)), (\d+), \[', body):
                lines.add(int(hm.group(1)))
                depth, i = 1, hm.end()
                while depth and i < len(body):
                    if body[i] == '[':
                        depth += 1
                    elif body[i] == ']':
                        depth -= 1
                    i += 1
                for lm in re.finditer(r'\.(?:line|call|ret|ifS|brk) (\d+)', body[hm.end():i]):
                    lines.add(int(lm.group(1)))
        _HL[prog] = lines
    return _HL[prog]


def replay(case):
    import c01
    c01.replay(case)
