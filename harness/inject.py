"""Runs one real worker with an asynchronous event landed at a chosen line event of its child-side
run loop, and reports the canonical observation. Used by C01 / C03 / C06 / C16."""
import json
import os
import sys
import tempfile
import threading
import time
from pathlib import Path

from common import REPO, watchdog

SITE = str(Path(__file__).resolve().parent / 'site')
for p in (str(REPO), SITE):
    if p not in sys.path:
        sys.path.insert(0, p)

import pwv_tracer  # noqa: E402
import pwv_targets as TG  # noqa: E402

KINDS = {
    'threadRun': ('pyworkers.thread', 'ThreadWorker', 'thread', False),
    'processRun': ('pyworkers.process', 'ProcessWorker', 'process', False),
    'remoteRun': ('pyworkers.remote', 'RemoteWorker', 'remote', False),
    'pthreadRun': ('pyworkers.persistent_thread', 'PersistentThreadWorker', 'thread', True),
    'pprocessRun': ('pyworkers.persistent_process', 'PersistentProcessWorker', 'process', True),
    'premoteRun': ('pyworkers.persistent_remote', 'PersistentRemoteWorker', 'remote', True),
}
TARGETS = {'r': TG.t_ret, 'u': TG.t_raise, 'b': TG.t_base}


class Session:
    """scratch dir + environment for spawned children + (lazily) one remote server"""

    def __init__(self):
        self.dir = tempfile.mkdtemp(prefix='pwv_')
        self.conf = os.path.join(self.dir, 'inject.json')
        self.server = None
        os.environ['PWV_INJECT_FILE'] = self.conf
        os.environ['PWV_QUIET'] = '1'
        os.environ['PYWORKERS_VERIF'] = '1'
        pp = os.environ.get('PYTHONPATH', '').split(os.pathsep)
        for p in (SITE, str(REPO)):
            if p not in pp:
                pp.insert(0, p)
        os.environ['PYTHONPATH'] = os.pathsep.join(x for x in pp if x)
        self.write_conf(None)
        self.n = 0

    def write_conf(self, conf):
        with open(self.conf, 'w') as f:
            json.dump(conf or {}, f)

    def addr(self):
        if self.server is None or not self.server.is_alive():
            from common import spawn_server
            self.write_conf(None)
            self.server = spawn_server(('127.0.0.1', 0))
        return self.server.addr

    def reset_server(self):
        try:
            if self.server is not None:
                self.server.terminate(timeout=0.5, force=True)
                if self.server.is_alive():
                    os.kill(self.server.pid, 9)
        except Exception:
            pass
        self.server = None

    def close(self):
        try:
            if self.server is not None:
                self.server.terminate(timeout=2, force=True)
        except Exception:
            pass
        import shutil
        shutil.rmtree(self.dir, ignore_errors=True)


def exc_kind(e):
    from pyworkers.worker import WorkerTerminatedError
    if e is None:
        return 'None'
    if isinstance(e, WorkerTerminatedError):
        return 'wte'
    if isinstance(e, ValueError) and e.args == ('x', 1):
        return 'user'
    if isinstance(e, KeyboardInterrupt):
        return 'base'
    return 'other:' + type(e).__name__


def observe(w, rounds=3):
    """repeated observation of a dead worker; never blocks (watchdog)"""
    obs = []
    for _ in range(rounds):
        def one():
            r = {}
            for name in ('is_alive', 'has_error', 'result', 'error'):
                try:
                    v = w.is_alive() if name == 'is_alive' else getattr(w, name)
                    if name == 'error':
                        v = exc_kind(v)
                    elif name == 'result':
                        v = 'None' if v is None else 'value'
                    r[name] = v
                except BaseException as e:  # noqa
                    r[name] = 'RAISES:' + type(e).__name__
            return r
        st, r = watchdog(one, 10)
        obs.append(r if st == 'ok' else {'hang': True})
    return obs


def run_case(sess, prog, target='r', k=None, mode=None, items=0, wait_timeout=6, target_none=False, extra_kwargs=None, stateful=False, consumer=False):
    """returns dict(trace, dead, obs (list), results (persistent stream), term_ret, notes)"""
    import importlib
    mod, clsname, kind, persistent = KINDS[prog]
    cls = getattr(importlib.import_module(mod), clsname)
    if stateful:
        clsname = 'S' + clsname
        cls = getattr(TG, clsname)
    sess.n += 1
    log = os.path.join(sess.dir, f'log{sess.n}')
    sync = os.path.join(sess.dir, f'sync{sess.n}')
    tfn = None if target_none else (TG.t_item if persistent else TARGETS[target])
    if persistent and target != 'r':
        tfn = {'u': _item_raise, 'b': _item_base}[target]
    if stateful:
        tfn = {'r': TG.t_sret, 'u': TG.t_sraise, 'b': TG.t_sbase}[target]
    kw = dict(extra_kwargs or {})
    if stateful:
        kw['init_state'] = 10
    res = {'notes': []}
    tracer = None
    reached = threading.Event()
    if kind == 'thread':
        tracer = pwv_tracer.Tracer(clsname, k, mode, reached=reached)
        threading.settrace(tracer.global_trace)
    else:
        sess.write_conf({'cls': clsname, 'k': k, 'mode': mode, 'log': log, 'sync': sync})
        if kind == 'remote':
            kw['host'] = sess.addr()
            kw.setdefault('main_path', '')      # no re-execution of the main script in the backend (not modelled)
            sess.write_conf({'cls': clsname, 'k': k, 'mode': mode, 'log': log, 'sync': sync})
    box = {}

    def ctor():
        box['w'] = cls(tfn, **kw)
    try:
        st, e = watchdog(ctor, 15)
    finally:
        if kind == 'thread':
            threading.settrace(None)
    if st != 'ok':
        res['ctor'] = 'hang' if st == 'hang' else 'raises:' + type(e).__name__
        res['trace'] = _read_trace(kind, tracer, log)
        if kind == 'remote':
            sess.reset_server()
        return res
    w = box['w']
    res['ctor'] = 'ok'
    try:
        if persistent:
            for i in range(items):
                try:
                    # enqueues of different shapes: the first overrides two positionals, the others one
                    w.enqueue(*((i + 2, 3) if i == 0 else (i + 2,)))
                except Exception:
                    res['notes'].append('enqueue-refused')
        cons = None
        if consumer and persistent:
            got = []
            cons = threading.Thread(target=lambda: got.extend(w.results_iter()), daemon=True)
            cons.start()
            time.sleep(0.05)
        if mode == 'terminate' or (mode or '').startswith('defer'):
            if persistent:
                w.close()       # the release marker follows the items, so that landing points after the loop are reachable
            # wait until the child sits at the landing point (or is gone), then call the real terminate()
            t0 = time.time()
            hit = False
            while time.time() - t0 < 5:
                if (kind == 'thread' and reached.is_set()) or (kind != 'thread' and os.path.exists(sync)):
                    hit = True
                    break
                if persistent and time.time() - t0 > 0.3 and kind == 'thread' and not w._child.is_alive():
                    break
                if not persistent and not _os_alive(w, kind):
                    break
                time.sleep(0.002)
            if hit:
                res['alive_state'] = repr(w.user_state)      # the child is held at the landing point: still alive
                # (remote kind: the server waits remote_timeout for a graceful end before it kills the backend; the
                #  deferred mode holds the control thread back for up to 0.6 s, so give it the full timeout)
                tkw = {'remote_timeout': 3} if kind == 'remote' else {}
                st, r = watchdog(lambda: w.terminate(3, **tkw), 20)
                res['term_ret'] = r if st == 'ok' else (st if st == 'hang' else f'exc:{type(r).__name__}:{r}')
            else:
                res['notes'].append('landing-point-not-reached')
        st, r = watchdog(lambda: w.wait(wait_timeout), wait_timeout + 20)
        res['wait_ret'] = r if st == 'ok' else st
        if st != 'ok' or r is not True:
            # still alive (e.g. stuck): make sure it goes away, note it
            res['notes'].append('not-dead-after-wait')
            watchdog(lambda: w.terminate(1, **({'force': True} if kind != 'thread' else {})), 10)
        res['dead'] = not w.is_alive()
        res['obs'] = observe(w)
        if cons is not None:
            cons.join(4)
            res['consumer_blocked'] = cons.is_alive()
            res['results'] = list(got)
        elif persistent:
            st, r = watchdog(lambda: list(w.results_iter()), 10)
            res['results'] = r if st == 'ok' else st
        res['user_state'] = repr(w.user_state)
    finally:
        try:
            if w.is_alive():
                w.terminate(0.5, **({'force': True} if kind != 'thread' else {}))
        except BaseException:  # noqa
            pass
    res['trace'] = _read_trace(kind, tracer, log)
    if tracer is not None:
        res['notes'] += tracer.notes
    return res


def _item_raise(x=0, *a, **k):
    return TG.t_raise()


def _item_base(x=0, *a, **k):
    return TG.t_base()


def _os_alive(w, kind):
    try:
        return w._child.is_alive()
    except Exception:
        return True


def _read_trace(kind, tracer, log):
    if kind == 'thread':
        return list(tracer.trace)
    out = []
    try:
        for l in open(log):
            l = l.strip()
            if l.lstrip('-').isdigit():
                out.append(int(l))
    except FileNotFoundError:
        pass
    return out


def model_line(prog, target, items, k, mode, persistent, target_none=False, assigns=False):
    inputs = ('i' * items + 'r') if persistent else '-'
    a = 'D' + mode.split(':')[1] if (mode or '').startswith('defer') else {'raise': 'w', 'terminate': 'c', 'kill': 'k', None: 'w'}[mode]
    if mode == 'terminate' and KINDS[prog][2] == 'thread':
        a = 'w'        # ThreadWorker.terminate raises directly in the target thread: no control thread involved
    return f'run {prog} {target} {int(target_none)} {inputs} {"-" if k is None else k} {a}' + (' assign' if assigns else '')


def parse_model(line):
    d = {}
    for part in line.split():
        k, _, v = part.partition('=')
        d[k] = v
    he, _, er = d.get('obs', '/').partition('/')
    return {'out': d.get('out'), 'ustate': d.get('ustate'), 'raised_at': d.get('raisedAt'), 'has_error': {'True': True, 'False': False, 'None': None}.get(he), 'error': er,
            'trace': [int(x) for x in d.get('trace', '').split(',') if x],
            'results': [x for x in d.get('results', '').split(',') if x]}


class gated_recv:
    """context manager: the parent-side frontend thread's recv_msg for messages whose comment starts with
    `prefix` blocks until .gate is set (models a slow network between two messages)"""

    def __init__(self, prefix):
        import threading
        self.prefix = prefix
        self.gate = threading.Event()

    def __enter__(self):
        import pyworkers.remote as R
        import pyworkers.persistent_remote as PR
        self.R, self.PR, self.orig, self.orig_pr = R, PR, R.recv_msg, PR.recv_msg

        def gated(sock, *a, comment=None, **k):
            if comment and comment.startswith(self.prefix):
                self.gate.wait(15)
            return self.orig(sock, *a, comment=comment, **k)
        R.recv_msg = gated
        PR.recv_msg = gated
        return self

    def __exit__(self, *exc):
        self.gate.set()
        self.R.recv_msg = self.orig
        self.PR.recv_msg = self.orig_pr
