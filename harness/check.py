"""Entry point: check.py <id> <quick|thorough>  |  check.py <id> --replay <file>"""
import importlib
import json
import os
import sys
from pathlib import Path

sys.path.insert(0, str(Path(__file__).resolve().parent))
import common  # noqa: E402
import logging  # noqa: E402
logging.disable(logging.CRITICAL)   # the library logs every worker death/exception of the driven scenarios


def main():
    if len(sys.argv) < 3:
        print(__doc__)
        return 2
    pid = sys.argv[1].upper()
    mod = importlib.import_module(pid.lower())
    if sys.argv[2] == '--replay':
        data = json.loads(Path(sys.argv[3]).read_text())
        if data.get('no_failing_input_found'):
            print('this replay names proof obligations / correspondences that no longer check:')
            for b in data['broken']:
                print(f"- {b['kind']}: {b['name']}\n{b['detail'][:3000]}")
            return 0
        print('replaying', data.get('signature'), '-', data.get('what'))
        mod.replay(data.get('case', data))
        return 0
    # children of the driven scenarios print tracebacks of the faults we inject: keep them out of the way
    logdir = common.REPLAYS / pid
    logdir.mkdir(parents=True, exist_ok=True)
    sys.stderr.flush()
    fd = os.open(str(logdir / 'stderr.log'), os.O_WRONLY | os.O_CREAT | os.O_TRUNC)
    os.dup2(fd, 2)
    tier = os.environ.get('VERIF_TIER') or sys.argv[2]
    if tier not in ('quick', 'thorough'):
        tier = sys.argv[2]
    return common.run_check(pid, tier, mod.main)


def _kill_descendants():
    # leave no worker / server process of the driven scenarios behind
    import signal
    me = os.getpid()
    kids = {}
    for d in os.listdir('/proc'):
        if d.isdigit():
            try:
                with open(f'/proc/{d}/stat') as f:
                    ppid = int(f.read().rsplit(')', 1)[1].split()[1])
                kids.setdefault(ppid, []).append(int(d))
            except Exception:
                pass
    todo, seen = [me], set()
    while todo:
        p = todo.pop()
        for c in kids.get(p, []):
            if c not in seen:
                seen.add(c)
                todo.append(c)
    for c in seen:
        try:
            os.kill(c, signal.SIGKILL)
        except Exception:
            pass


if __name__ == '__main__':
    rc = main()
    sys.stdout.flush()
    _kill_descendants()
    os._exit(rc)          # worker threads of the driven scenarios that cannot be stopped must not keep us alive
