"""Entry point: check.py <id> <quick|thorough>  |  check.py <id> --replay <file>"""
import importlib
import json
import os
import sys
from pathlib import Path

sys.path.insert(0, str(Path(__file__).resolve().parent))
import common  # noqa: E402
import logging  # noqa: E402
logging.disable(logging.CRITICAL)   # the library logs every worker death/exception of the driven scenarios


def main():
    if len(sys.argv) < 3:
        print(__doc__)
        return 2
    pid = sys.argv[1].upper()
    mod = importlib.import_module(pid.lower())
    if sys.argv[2] == '--replay':
        data = json.loads(Path(sys.argv[3]).read_text())
        if data.get('no_failing_input_found'):
            print('this replay names proof obligations / correspondences that no longer check:')
            for b in data['broken']:
                print(f"- {b['kind']}: {b['name']}\n{b['detail'][:3000]}")
            return 0
        print('replaying', data.get('signature'), '-', data.get('what'))
        mod.replay(data.get('case', data))
        return 0
    # children of the driven scenarios print tracebacks of the faults we inject: keep them out of the way
    logdir = common.REPLAYS / pid
    logdir.mkdir(parents=True, exist_ok=True)
    sys.stderr.flush()
    fd = os.open(str(logdir / 'stderr.log'), os.O_WRONLY | os.O_CREAT | os.O_TRUNC)
    os.dup2(fd, 2)
    tier = os.environ.get('VERIF_TIER') or sys.argv[2]
    if tier not in ('quick', 'thorough'):
        tier = sys.argv[2]
    os.environ['PWV_RUN_TAG'] = f'{pid}-{os.getpid()}-{os.urandom(4).hex()}'
    _arm_deadline(pid, tier)
    return common.run_check(pid, tier, mod.main)


def _arm_deadline(pid, tier):
    """A check never hangs: past its global deadline it dumps every thread's stack to the stderr log and
    ends with an infrastructure error (exit 2, no VIOLATION line). `kill -USR1 <pid>` dumps the stacks of a
    running check without stopping it."""
    import faulthandler
    import signal
    import threading
    import time
    faulthandler.register(signal.SIGUSR1, all_threads=True, file=sys.stderr)
    limit = float(os.environ.get('VERIF_DEADLINE') or (1800 if tier == 'quick' else 4 * 3600))

    def guard():
        time.sleep(limit)
        try:
            faulthandler.dump_traceback(file=sys.stderr, all_threads=True)
        except Exception:
            pass
        print(f'INFRA-ERROR {pid}: the check did not finish within its global deadline of {limit:.0f} s (stacks in replays/{pid}/stderr.log)')
        sys.stdout.flush()
        _kill_descendants()
        os._exit(2)
    threading.Thread(target=guard, daemon=True).start()


def _kill_descendants():
    # leave no worker / server process of the driven scenarios behind
    import signal
    me = os.getpid()
    kids = {}
    for d in os.listdir('/proc'):
        if d.isdigit():
            try:
                with open(f'/proc/{d}/stat') as f:
                    ppid = int(f.read().rsplit(')', 1)[1].split()[1])
                kids.setdefault(ppid, []).append(int(d))
            except Exception:
                pass
    todo, seen = [me], set()
    while todo:
        p = todo.pop()
        for c in kids.get(p, []):
            if c not in seen:
                seen.add(c)
                todo.append(c)
    # orphans (children of a server that was killed are re-parented to init): found by the tag that every
    # process started by this check inherits in its environment
    tag = ('PWV_RUN_TAG=' + os.environ.get('PWV_RUN_TAG', '\0none')).encode()
    for d in os.listdir('/proc'):
        if d.isdigit() and int(d) != me:
            try:
                with open(f'/proc/{d}/environ', 'rb') as f:
                    if tag in f.read().split(b'\0'):
                        seen.add(int(d))
            except Exception:
                pass
    for c in seen:
        try:
            os.kill(c, signal.SIGKILL)
        except Exception:
            pass


if __name__ == '__main__':
    rc = main()
    sys.stdout.flush()
    _kill_descendants()
    os._exit(rc)          # worker threads of the driven scenarios that cannot be stopped must not keep us alive
