"""C19 — active_children(): histories on real workers vs PwVerif.Registry."""
import sys
import threading
import time

from common import Ctx, REPO, watchdog
sys.path.insert(0, str(REPO))


def noop(*a, **k):
    return None


def sleeper():
    while True:
        time.sleep(0.01)


def coop_wait(ev):
    # cooperative: an asynchronous WorkerTerminatedError is delivered between the short sleeps
    while not ev.is_set():
        time.sleep(0.002)


class Real:
    """Runs one history on real workers."""

    def __init__(self, kinds):
        from pyworkers.worker import Worker
        self.Worker = Worker
        with Worker._children_lock:
            Worker._active_children.clear()
        self.ws = []       # (kind, worker, event)
        self.kinds = kinds

    def create(self, kind, run):
        from pyworkers.thread import ThreadWorker
        from pyworkers.persistent_thread import PersistentThreadWorker
        from pyworkers.process import ProcessWorker
        from pyworkers.persistent_process import PersistentProcessWorker
        ev = None
        if not run:
            w = {'T': ThreadWorker, 'PT': PersistentThreadWorker, 'P': ProcessWorker, 'PP': PersistentProcessWorker}[kind](noop, run=False)
        elif kind == 'T':
            ev = threading.Event()
            w = ThreadWorker(coop_wait, args=(ev,))
        elif kind == 'PT':
            w = PersistentThreadWorker(noop)
        elif kind == 'P':
            w = ProcessWorker(sleeper)
        else:
            w = PersistentProcessWorker(noop)
        self.ws.append((kind, w, ev))

    def finish(self, i, how):
        kind, w, ev = self.ws[i]
        if not w.is_alive():
            return
        if kind == 'T':
            if how == 'terminate':
                w.terminate(2)
            else:
                ev.set()
                w.wait(5)
        elif kind in ('PT', 'PP'):
            if how == 'terminate':
                w.terminate(2)
            else:
                w.wait(5)
        else:
            w.terminate(2)

    def restart(self, i):
        self.ws[i][1].restart()

    def active(self):
        out = list(self.Worker.active_children())
        idx = []
        for c in out:
            idx.append(next(j for j, (_, w, _) in enumerate(self.ws) if w is c))
        return idx, len(self.Worker._active_children)

    def peek(self):
        """registry size and how many registered workers are dead - without pruning"""
        with self.Worker._children_lock:
            reg = list(self.Worker._active_children)
        return len(reg), sum(1 for c in reg if not c.is_alive())

    def alive(self):
        return [j for j, (_, w, _) in enumerate(self.ws) if w.is_alive()]

    def cleanup(self):
        for i in range(len(self.ws)):
            try:
                self.finish(i, 'normal')
            except Exception:
                pass
        with self.Worker._children_lock:
            self.Worker._active_children.clear()


def gen_history(rng, n, procs):
    """list of ops: ('c', kind, run) ('f', i, how) ('r', i) ('a',) ('x',)"""
    ops, kinds, alive = [], [], set()
    for _ in range(n):
        r = rng.random()
        if r < 0.35 or not kinds:
            kind = rng.choice(['T', 'T', 'PT', 'PT'] + (['P', 'PP'] if procs and rng.random() < 0.3 else []))
            run = rng.random() > 0.12
            ops.append(('c', kind, run))
            kinds.append((kind, run))
            if run:
                alive.add(len(kinds) - 1)
        elif r < 0.6 and alive:
            i = rng.choice(sorted(alive))
            ops.append(('f', i, rng.choice(['normal', 'normal', 'terminate'])))
            alive.discard(i)
        elif r < 0.72:
            cand = [i for i, (k, run) in enumerate(kinds) if k in ('PT', 'PP') and run]
            if cand:
                i = rng.choice(cand)
                ops.append(('r', i))
                alive.add(i)
        elif r < 0.86:
            ops.append(('a',))
        elif r < 0.97:
            ops.append(('d',))
        else:
            ops.append(('x',))
            alive.clear()
    ops.append(('a',))
    return ops


def to_line(ops):
    toks = []
    for op in ops:
        if op[0] == 'c':
            toks.append('c1' if op[2] else 'c0')
        elif op[0] == 'f':
            toks.append(f'f{op[1]}')
        elif op[0] == 'r':
            toks.append(f'r{op[1]}')
        else:
            toks.append(op[0])
    return 'c19 ' + ' '.join(toks)


def run_real(ops):
    from pyworkers.worker import autoclose_active_children
    real = Real(None)
    obs, oracle_fail = [], None
    fin_since = 0      # completions since the last active_children() call (C19_retention_history)
    try:
        for k, op in enumerate(ops):
            if op[0] == 'c':
                real.create(op[1], op[2])
            elif op[0] == 'f':
                real.finish(op[1], op[2])
                fin_since += 1
            elif op[0] == 'r':
                real.restart(op[1])
            elif op[0] == 'd':
                size, dead = real.peek()
                obs.append('D%d,%d' % (size, dead))
                if oracle_fail is None and dead > fin_since:
                    oracle_fail = (k, f'the registry retains {dead} dead workers although only {fin_since} workers ended since the last active_children() call')
            elif op[0] == 'a':
                fin_since = 0
                idx, size = real.active()
                alive = real.alive()
                obs.append('%s;%d' % (','.join(map(str, sorted(idx))), size))
                if oracle_fail is None and (sorted(idx) != sorted(alive) or len(set(idx)) != len(idx) or size != len(alive)):
                    oracle_fail = (k, f'active_children() yielded {sorted(idx)} (registry size {size}) but the live workers are {sorted(alive)}')
            else:
                with autoclose_active_children():
                    pass
                # no pruning call here: the probes that follow must see the registry as autoclose left it
                size, _dead = real.peek()
                fin_since = size      # every worker autoclose yielded has ended since its (pruning) call
                alive = real.alive()
                # model prints yielded-by-autoclose; compare only what is observable: nothing alive afterwards
                obs.append(('AUTO', sorted(alive), size))
                if oracle_fail is None and alive:
                    oracle_fail = (k, f'workers {alive} alive after leaving autoclose_active_children()')
    finally:
        real.cleanup()
    return obs, oracle_fail


def _pid_alive(pid):
    try:
        with open(f'/proc/{pid}/stat') as f:
            return f.read().rsplit(')', 1)[1].split()[0] not in ('Z', 'X')
    except Exception:
        return False


def forgotten_handles(ctx):
    """a program that drops its handle of a running worker (fire-and-forget) still created that worker: active_children()
    must list it, and leaving autoclose_active_children() must end it"""
    import gc
    import os
    from pyworkers.worker import Worker, autoclose_active_children
    from pyworkers.process import ProcessWorker
    from pyworkers.persistent_process import PersistentProcessWorker
    from pyworkers.thread import ThreadWorker
    with Worker._children_lock:
        Worker._active_children.clear()
    ev = threading.Event()
    pids = []
    tids = []

    def make():
        # (in a function of its own: no local variable of the caller keeps the handles alive)
        pids.append(ProcessWorker(sleeper).pid)
        pids.append(PersistentProcessWorker(noop).pid)
        tids.append(ThreadWorker(coop_wait, args=(ev,)).tid)
    make()
    gc.collect()
    time.sleep(0.2)
    gc.collect()
    listed = list(Worker.active_children())
    got_pids = sorted(w.pid for w in listed if not w.is_thread)
    got_tids = sorted(w.tid for w in listed if w.is_thread)
    alive_pids = sorted(p for p in pids if _pid_alive(p))
    ok_list = got_pids == sorted(alive_pids) and got_tids == sorted(tids)
    del listed
    gc.collect()
    with autoclose_active_children():
        pass
    ev.set()
    time.sleep(0.3)
    left = [p for p in pids if _pid_alive(p)]
    ctx.case(('forgotten-handles',), True, sample={'case': 'handles dropped while the workers run', 'created_pids': pids, 'listed_pids': got_pids, 'alive_after_autoclose': left})
    if not ok_list:
        ctx.fail('exactness:forgotten-handle', f'active_children() lists processes {got_pids} / threads {got_tids} although the live workers created by this process are {alive_pids} / {tids} (their handles were dropped)',
                 {'kind': 'forgotten_handles'})
    if left:
        ctx.fail('autoclose:forgotten-handle', f'worker processes {left} are still alive after leaving autoclose_active_children() (their handles had been dropped)', {'kind': 'forgotten_handles'})
    for p_ in left:
        try:
            os.kill(p_, 9)
        except Exception:
            pass
    with Worker._children_lock:
        Worker._active_children.clear()


def concurrent_registration(ctx):
    """workers are created by one thread while others are inside (slow) active_children() scans: none may be lost"""
    from pyworkers.worker import Worker
    from pyworkers.thread import ThreadWorker

    class SlowAlive(ThreadWorker):
        def is_alive(self):
            if threading.current_thread().name.startswith('scanner'):
                time.sleep(0.002)
            return super().is_alive()
    with Worker._children_lock:
        Worker._active_children.clear()
    stop = threading.Event()

    def scanner():
        while not stop.is_set():
            list(Worker.active_children())
            time.sleep(0.004)        # (give the creating thread a chance to take the registry lock)
    ts = [threading.Thread(target=scanner, daemon=True, name=f'scanner{i}') for i in range(2)]
    evs, ws = [], []
    for _ in range(8):
        ev = threading.Event()
        ws.append(SlowAlive(coop_wait, args=(ev,)))
        evs.append(ev)
    for t in ts:
        t.start()
    for _ in range(25):
        ev = threading.Event()
        ws.append(SlowAlive(coop_wait, args=(ev,)))
        evs.append(ev)
        time.sleep(0.003)
    stop.set()
    for t in ts:
        t.join(5)
    out = list(Worker.active_children())
    lost = [i for i, w in enumerate(ws) if w.is_alive() and not any(w is c for c in out)]
    for ev in evs:
        ev.set()
    for w in ws:
        w.wait(5)
    ctx.case(('concurrent-registration', len(ws)), True, sample={'concurrent_registration_workers': len(ws), 'lost': lost})
    if lost:
        ctx.fail('concurrent:registration-lost', f'{len(lost)} of {len(ws)} live workers created while other threads were inside active_children() are no longer listed', {'kind': 'concurrent_registration', 'lost_indices': lost})
    with Worker._children_lock:
        Worker._active_children.clear()


def concurrent_stress(ctx, seconds):
    """several threads call active_children() while the main thread creates and finishes workers"""
    from pyworkers.worker import Worker
    from pyworkers.thread import ThreadWorker
    with Worker._children_lock:
        Worker._active_children.clear()
    stop = threading.Event()
    errors = []
    created = []

    def reader():
        while not stop.is_set():
            out = list(Worker.active_children())
            if len(set(map(id, out))) != len(out):
                errors.append('duplicate in one active_children() result')
            for c in out:
                if not any(c is w for w in list(created)):
                    errors.append('yielded a worker that was never created')
    ts = [threading.Thread(target=reader, daemon=True) for _ in range(3)]
    for t in ts:
        t.start()
    t0 = time.time()
    n = 0
    while time.time() - t0 < seconds:
        evs = []
        for _ in range(5):
            ev = threading.Event()
            w = ThreadWorker(coop_wait, args=(ev,))
            created.append(w)
            evs.append((ev, w))
            n += 1
        for ev, w in evs:
            ev.set()
            w.wait(5)
    stop.set()
    for t in ts:
        t.join(5)
    final = list(Worker.active_children())
    if final or len(Worker._active_children) != 0:
        errors.append(f'after quiescence {len(final)} workers are still yielded / registry size {len(Worker._active_children)}')
    ctx.case(('concurrent', n), sample={'concurrent_stress_workers': n, 'errors': errors[:3]})
    if errors:
        ctx.fail('concurrent:' + errors[0][:30], errors[0], {'kind': 'concurrent_stress', 'workers': n})


def main(ctx: Ctx):
    ctx.assumptions += [
        'each registry operation is atomic (Worker._children_lock); a multi-threaded history is therefore one of the sequential histories the theorem quantifies over (stress-probed each run)',
        'autoclose theorem assumes cooperative workers (C04 covers uncooperative ones)',
    ]
    ctx.cov['rule'] = ('seeded histories over create(run / not run; thread, persistent thread, process, persistent process) / finish (return or terminate) / restart / '
                       'active_children / autoclose; non-trivial = history contains a death or restart before an active_children() call; distinct by op sequence')
    ctx.lean()
    T = ctx.thorough
    hists = []
    for n, length, procs in ([(25, 30, False), (6, 300, False), (3, 25, True)] if not T else [(150, 40, False), (30, 300, False), (25, 30, True)]):
        for _ in range(n):
            hists.append(gen_history(ctx.rng, length, procs))
    # corpus: the two histories behind the fixed defects (typo: dead never pruned; restart after prune)
    hists.insert(0, [('c', 'T', True)] * 5 + [('f', i, 'normal') for i in range(5)] + [('a',)])
    hists.insert(1, [('c', 'PT', True), ('f', 0, 'normal'), ('a',), ('r', 0), ('a',), ('f', 0, 'normal'), ('a',)])
    lines = [to_line(h) for h in hists]
    model = ctx.model(lines)
    for hi, ops in enumerate(hists):
        st, res = watchdog(run_real, 300, ops)
        if st != 'ok':
            ctx.fail('history:hang' if st == 'hang' else f'history:{type(res).__name__}', f'running the history on real workers {st}: {res!r}', {'ops': ops})
            continue
        obs, oracle_fail = res
        nontrivial = any(o[0] in ('f', 'r') for o in ops)
        ctx.case(tuple(ops), nontrivial, sample={'ops': to_line(ops)[:200], 'observed': obs[:6]} if hi < 3 else None)
        ctx.count('ops', len(ops))
        if oracle_fail:
            k, msg = oracle_fail
            kind = 'restart' if any(o[0] == 'r' for o in ops[:k]) else 'death'
            ctx.fail(f'exactness:{kind}', msg, {'ops': ops[:k + 1]})
        if model is not None:
            ctx.cov['traces_validated_against_impl'] += 1
            mo = model[hi].split('|')
            ok = len(mo) == len(obs)
            if ok:
                for m, o in zip(mo, obs):
                    if isinstance(o, tuple):      # autoclose: model line is "<yielded>;<size>", afterwards nothing alive
                        continue
                    if m != o:
                        ok = False
            if not ok:
                ctx.broke('correspondence', 'Registry.run vs Worker registry', f'ops={to_line(ops)[:400]}\n model={mo[:20]}\n impl ={obs[:20]}')
    concurrent_stress(ctx, 2 if not T else 10)
    concurrent_registration(ctx)
    forgotten_handles(ctx)


def replay(case):
    if case.get('kind') == 'forgotten_handles':
        class C:
            def case(self, *a, **k): print('observed', k.get('sample'))
            def fail(self, sig, what, desc): print('FAIL', sig, what)
        forgotten_handles(C())
        return
    print(run_real([tuple(o) for o in case['ops']]))
