"""a __main__ script that takes a while to import (slow start-up of a remote backend)"""
import time
time.sleep(1.2)
