"""Line-level event injection (shared by the in-process thread cases and spawned children)."""
import json
import os
import signal
import sys
import threading
import time

FUNCS = {'_run', '_run_backend', '_init_child', 'do_work', 'run', '_send_result', '_cleanup'}


class Tracer:
    def __init__(self, cls, k=None, mode=None, log_path=None, sync_path=None, reached=None, only_ident=None):
        self.cls, self.k, self.mode = cls, k, mode
        self.log_path, self.sync_path, self.reached = log_path, sync_path, reached
        self.count = 0
        self.trace = []
        self.fired = False
        self.log_f = open(log_path, 'a') if log_path else None
        self.notes = []
        # deferred delivery (mode 'defer:<d>'): the control thread gets the request at event k, raises at event k+1+d
        self.fire_at = None
        self.got = threading.Event()
        self.go = threading.Event()

    def _log(self, ln):
        self.trace.append(ln)
        if self.log_f:
            self.log_f.write('%d\n' % ln)
            self.log_f.flush()

    def event(self, ln):
        idx = self.count
        self.count += 1
        self._log(ln)
        if self.k is not None and idx == self.k and not self.fired:
            self.fired = True
            self.fire()
        elif self.fire_at is not None and idx == self.fire_at:
            # the delayed control thread may raise now: wait here for the exception
            self.fire_at = None
            self.go.set()
            t0 = time.time()
            while time.time() - t0 < 0.7:
                time.sleep(0.0005)
            self.notes.append('deferred-raise-never-arrived')
            if self.log_f:
                self.log_f.write('timeout\n')
                self.log_f.flush()

    def fire(self):
        if self.mode == 'kill':
            if self.log_f:
                self.log_f.write('fired\n')
                self.log_f.flush()
            os.kill(os.getpid(), signal.SIGKILL)
            time.sleep(10)
        elif self.mode == 'raise':
            from pyworkers.worker import WorkerTerminatedError
            raise WorkerTerminatedError()
        elif self.mode.startswith('defer'):
            d = int(self.mode.split(':')[1])
            self._install_defer()
            if self.reached is not None:
                self.reached.set()
            if self.sync_path:
                with open(self.sync_path, 'w') as f:
                    f.write('reached')
            # hold the working thread here until the control thread has received the request ...
            if not self.got.wait(3):
                self.notes.append('terminate-never-arrived')
                if self.log_f:
                    self.log_f.write('timeout\n')
                    self.log_f.flush()
                return
            # ... and let it run on: the control thread raises d line events later (or when it is joined)
            self.fire_at = self.count + d
        elif self.mode == 'terminate':
            # let the parent call the real terminate() now and wait here for the asynchronous exception
            if self.reached is not None:
                self.reached.set()
            if self.sync_path:
                with open(self.sync_path, 'w') as f:
                    f.write('reached')
            t0 = time.time()
            while time.time() - t0 < 0.7:
                time.sleep(0.0005)
            self.notes.append('terminate-never-arrived')
            if self.log_f:
                self.log_f.write('timeout\n')
                self.log_f.flush()

    def _install_defer(self):
        """wrap foreign_raise where the control threads look it up: the request is `received` when the wrapper is
        entered; the exception is raised when the working thread reaches its chosen line event - or after 0.6 s,
        which is what happens when the working thread is blocked joining the control thread"""
        import importlib
        tr = self
        for name in ('pyworkers.process', 'pyworkers.remote'):
            try:
                m = importlib.import_module(name)
            except Exception:
                continue
            orig = m.foreign_raise
            if getattr(orig, '_pwv', False):
                continue

            def delayed(*a, _orig=orig, **k):
                tr.got.set()
                tr.go.wait(0.6)
                return _orig(*a, **k)
            delayed._pwv = True
            m.foreign_raise = delayed

    def global_trace(self, frame, event, arg):
        if event != 'call':
            return None
        code = frame.f_code
        if code.co_name in FUNCS and 'pyworkers' in code.co_filename:
            s = frame.f_locals.get('self')
            if type(s).__name__ == self.cls:
                return self.local_trace
            return None
        if code.co_filename.endswith('pwv_targets.py') and code.co_name.startswith('t_'):
            st = {'n': 0, 'land': 2 if code.co_name.endswith('_try') else 1}

            def target_trace(frame, event, arg, st=st):
                if event == 'line':
                    st['n'] += 1
                    if st['n'] == st['land']:
                        self.event(0)
                return target_trace
            return target_trace
        return None

    def local_trace(self, frame, event, arg):
        if event == 'line':
            self.event(frame.f_lineno)
        return self.local_trace


CURRENT = None


def install_from_file(path):
    """child processes: read the configuration written by the harness for the next worker"""
    global CURRENT
    try:
        conf = json.load(open(path))
    except Exception:
        return
    if not conf.get('cls'):
        return
    CURRENT = Tracer(conf['cls'], conf.get('k'), conf.get('mode'), conf.get('log'), conf.get('sync'))
    sys.settrace(CURRENT.global_trace)
