"""Line-level event injection (shared by the in-process thread cases and spawned children)."""
import json
import os
import signal
import sys
import threading
import time

FUNCS = {'_run', '_run_backend', '_init_child', 'do_work', 'run', '_send_result', '_cleanup'}


class Tracer:
    def __init__(self, cls, k=None, mode=None, log_path=None, sync_path=None, reached=None, only_ident=None):
        self.cls, self.k, self.mode = cls, k, mode
        self.log_path, self.sync_path, self.reached = log_path, sync_path, reached
        self.count = 0
        self.trace = []
        self.fired = False
        self.log_f = open(log_path, 'a') if log_path else None
        self.notes = []

    def _log(self, ln):
        self.trace.append(ln)
        if self.log_f:
            self.log_f.write('%d\n' % ln)
            self.log_f.flush()

    def event(self, ln):
        idx = self.count
        self.count += 1
        self._log(ln)
        if self.k is not None and idx == self.k and not self.fired:
            self.fired = True
            self.fire()

    def fire(self):
        if self.mode == 'kill':
            if self.log_f:
                self.log_f.write('fired\n')
                self.log_f.flush()
            os.kill(os.getpid(), signal.SIGKILL)
            time.sleep(10)
        elif self.mode == 'raise':
            from pyworkers.worker import WorkerTerminatedError
            raise WorkerTerminatedError()
        elif self.mode == 'terminate':
            # let the parent call the real terminate() now and wait here for the asynchronous exception
            if self.reached is not None:
                self.reached.set()
            if self.sync_path:
                with open(self.sync_path, 'w') as f:
                    f.write('reached')
            t0 = time.time()
            while time.time() - t0 < 0.7:
                time.sleep(0.0005)
            self.notes.append('terminate-never-arrived')
            if self.log_f:
                self.log_f.write('timeout\n')
                self.log_f.flush()

    def global_trace(self, frame, event, arg):
        if event != 'call':
            return None
        code = frame.f_code
        if code.co_name in FUNCS and 'pyworkers' in code.co_filename:
            s = frame.f_locals.get('self')
            if type(s).__name__ == self.cls:
                return self.local_trace
            return None
        if code.co_filename.endswith('pwv_targets.py') and code.co_name.startswith('t_'):
            st = {'n': 0, 'land': 2 if code.co_name.endswith('_try') else 1}

            def target_trace(frame, event, arg, st=st):
                if event == 'line':
                    st['n'] += 1
                    if st['n'] == st['land']:
                        self.event(0)
                return target_trace
            return target_trace
        return None

    def local_trace(self, frame, event, arg):
        if event == 'line':
            self.event(frame.f_lineno)
        return self.local_trace


CURRENT = None


def install_from_file(path):
    """child processes: read the configuration written by the harness for the next worker"""
    global CURRENT
    try:
        conf = json.load(open(path))
    except Exception:
        return
    if not conf.get('cls'):
        return
    CURRENT = Tracer(conf['cls'], conf.get('k'), conf.get('mode'), conf.get('log'), conf.get('sync'))
    sys.settrace(CURRENT.global_trace)
