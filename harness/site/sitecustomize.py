# Installed on PYTHONPATH by the /verif harness only (PYWORKERS_VERIF=1): lets the checks land an
# asynchronous event at a chosen line event inside spawned children without touching /repo.
import os
if os.environ.get('PYWORKERS_VERIF') == '1' and os.environ.get('PWV_INJECT_FILE'):
    try:
        import pwv_tracer
        pwv_tracer.install_from_file(os.environ['PWV_INJECT_FILE'])
    except Exception:  # never break the child because of the harness
        pass
if os.environ.get('PYWORKERS_VERIF') == '1' and os.environ.get('PWV_QUIET') == '1':
    import logging
    logging.disable(logging.CRITICAL)
