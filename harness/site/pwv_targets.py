"""Targets used by the injection harness (importable in spawned children: harness/site is on PYTHONPATH).
Functions named t_*: their first line event (second for *_try) is the model's pseudo line event 0."""
import os
import time


class NeedsTwo(Exception):
    def __init__(self, a, b):
        super().__init__(a)
        self.b = b


def t_ret():
    return 7


def t_raise():
    raise ValueError('x', 1)


def t_base():
    raise KeyboardInterrupt('stop')


def t_two():
    raise NeedsTwo(1, 2)


def t_try(marker):
    try:
        x = 7
        return x
    finally:
        with open(marker, 'w') as f:
            f.write('finally')


def t_item(x=0, *a, **k):
    return x * x


def t_state(worker_ref=None):
    return 1
