"""Targets used by the injection harness (importable in spawned children: harness/site is on PYTHONPATH).
Functions named t_*: their first line event (second for *_try) is the model's pseudo line event 0."""
import os
import time


class NeedsTwo(Exception):
    def __init__(self, a, b):
        super().__init__(a)
        self.b = b


def t_ret():
    return 7


def t_raise():
    raise ValueError('x', 1)


def t_base():
    raise KeyboardInterrupt('stop')


def t_two():
    raise NeedsTwo(1, 2)


def t_two_item(x=0, *a, **k):
    raise NeedsTwo(1, 2)


def t_try(marker):
    try:
        x = 7
        return x
    finally:
        with open(marker, 'w') as f:
            f.write('finally')


def t_slow_finally(marker, seconds=1.0):
    """lets WorkerTerminatedError propagate; its clean-up takes a while (interruptible Python code) and then writes a marker"""
    try:
        while True:
            time.sleep(0.005)
    finally:
        t0 = time.time()
        while time.time() - t0 < seconds:
            time.sleep(0.002)
        with open(marker, 'w') as f:
            f.write('cleaned')


def t_item(x=0, y=1, *a, **k):
    return x * x * y


def t_state(worker_ref=None):
    return 1


# ---- C16: workers whose target assigns user_state. The mixin only publishes the worker object; the targets
# t_s* assign (after their first line = the model's pseudo line event) and then return / raise.
CURRENT = None


class StateMixin:
    def run(self, *args, **kwargs):
        global CURRENT
        CURRENT = self
        return super().run(*args, **kwargs)


def t_sret(*a, **k):
    x = 7
    CURRENT.user_state = 11
    CURRENT.user_state = 12
    return x


def t_sslow(*a, **k):
    x = 7
    CURRENT.user_state = 11
    CURRENT.user_state = 12
    for _ in range(300):
        time.sleep(0.01)
    return x


def t_sraise(*a, **k):
    x = 7
    CURRENT.user_state = 11
    CURRENT.user_state = 12
    raise ValueError('x', 1)


def t_sclear(*a, **k):
    # the last value assigned is a falsy one given as the first argument (None, 0, [], ...)
    x = 7
    CURRENT.user_state = 11
    CURRENT.user_state = a[0] if a else None
    return x


class SlowState(dict):
    """a state whose serialisation takes a while (the parent waits for it after it has received the result)"""

    def __reduce__(self):
        time.sleep(self.get('pickling_takes', 0))
        return (dict, (dict(self),))


def t_sslowstate(*a, **k):
    x = 7
    CURRENT.user_state = 11
    CURRENT.user_state = SlowState(last=12, pickling_takes=a[0] if a else 0)
    return x


def t_slinger(*a, **k):
    """assigns the state, leaves a non-daemon thread behind (the process outlives its final report by ~2.5 s), returns"""
    import threading
    x = 7
    CURRENT.user_state = 11
    CURRENT.user_state = 12
    threading.Thread(target=time.sleep, args=(a[0] if a else 2.5,), daemon=False).start()
    return x


def t_sbase(*a, **k):
    x = 7
    CURRENT.user_state = 11
    CURRENT.user_state = 12
    raise KeyboardInterrupt('stop')


def _mk():
    from pyworkers.thread import ThreadWorker
    from pyworkers.process import ProcessWorker
    from pyworkers.remote import RemoteWorker
    from pyworkers.persistent_thread import PersistentThreadWorker
    from pyworkers.persistent_process import PersistentProcessWorker
    from pyworkers.persistent_remote import PersistentRemoteWorker
    g = globals()
    for base in (ThreadWorker, ProcessWorker, RemoteWorker, PersistentThreadWorker, PersistentProcessWorker, PersistentRemoteWorker):
        name = 'S' + base.__name__
        g[name] = type(name, (StateMixin, base), {'__module__': __name__})


_mk()


# ---- C05: echo targets
def t_echo(*args, **kwargs):
    return (list(args), dict(kwargs))


def t_echo_mutating(*args, **kwargs):
    out = (list(args), dict(kwargs))
    for a in args:
        if isinstance(a, list):
            a.append('mutated')
    kwargs['mutated'] = True
    return out


def t_fail_on_neg(x=0, *a, **k):
    if x < 0:
        raise ValueError('negative')
    return x * x


def t_slow_sq(x=0, *a, **k):
    time.sleep(0.15)
    return x * x


def t_swallow_on_neg(x=0, *a, **k):
    """answers non-negative inputs; on a negative one it never ends and swallows every exception (only a forced kill stops it)"""
    if x < 0:
        while True:
            try:
                time.sleep(0.005)
            except Exception:
                pass
    return x * x


# ---- C02: a menu of deterministic, picklable targets and values
class Custom:
    def __init__(self, a, b=None):
        self.a, self.b = a, b

    def __eq__(self, o):
        return type(o) is Custom and (o.a, o.b) == (self.a, self.b)

    def __repr__(self):
        return f'Custom({self.a!r}, {self.b!r})'


class MyError(Exception):
    pass


def f_add(a, b=1):
    return a + b


def f_none(*a, **k):
    return None


def f_falsy(kind):
    return {'zero': 0, 'empty': '', 'list': [], 'false': False, 'dict': {}}[kind]


def f_nested(n):
    return {'k': [1, (2, 3), {'x': Custom(n, [n])}], 'n': n}


def f_varargs(*args, **kwargs):
    return (args, sorted(kwargs.items()))


def f_bytes(n):
    return b'x' * n


def f_raise(kind, *args):
    raise {'value': ValueError, 'key': KeyError, 'my': MyError, 'runtime': RuntimeError}[kind](*args)


def f_custom(a):
    return Custom(a, {'a': a})


# ---- C20: an argument whose unpickling kills the process that rebuilds it (the remote backend child,
# before it reported its identity). Pickled by reference to `_bomb_build`.
def _bomb_build(parent_guard):
    import os
    if os.getpid() != parent_guard:
        os._exit(7)
    return Bomb(parent_guard)


class Bomb:
    def __init__(self, guard):
        self.guard = guard

    def __reduce__(self):
        return (_bomb_build, (self.guard,))


# ---- C18: context targets
def t_ctx(x=0, tag=None, base=0, *a, **k):
    if x == 'stubborn':
        # a worker that cannot be stopped by anything but SIGKILL: ignores SIGTERM, swallows every exception
        import signal
        signal.signal(signal.SIGTERM, signal.SIG_IGN)
        while True:
            try:
                time.sleep(0.01)
            except BaseException:  # noqa
                pass
    return (tag, base + x)


def f_after(seconds, value):
    """returns `value` after `seconds` of silence"""
    time.sleep(seconds)
    return value


def f_gate(path=None, x=0, *a, **k):
    """waits (at most 10 s) until the file `path` exists, then returns x * x"""
    t0 = time.time()
    while path and not os.path.exists(path) and time.time() - t0 < 10:
        time.sleep(0.002)
    return x * x


def _mk_failing_init():
    """subclasses of the six worker classes whose child-side start-up hook raises"""
    from pyworkers.thread import ThreadWorker
    from pyworkers.process import ProcessWorker
    from pyworkers.remote import RemoteWorker
    from pyworkers.persistent_thread import PersistentThreadWorker
    from pyworkers.persistent_process import PersistentProcessWorker
    from pyworkers.persistent_remote import PersistentRemoteWorker
    g = globals()

    def _init_child(self):
        raise RuntimeError('start-up hook failed')
    for base in (ThreadWorker, ProcessWorker, RemoteWorker, PersistentThreadWorker, PersistentProcessWorker, PersistentRemoteWorker):
        name = 'FailingInit' + base.__name__
        if name not in g:
            g[name] = type(name, (base,), {'__module__': __name__, '_init_child': _init_child})
    return [g['FailingInit' + b.__name__] for b in (ThreadWorker, ProcessWorker, RemoteWorker, PersistentThreadWorker, PersistentProcessWorker, PersistentRemoteWorker)]


# ---- C09: pool target: squares; 'hang' -> uncooperative loop; negative -> raises (kills the worker)
def t_pool(x=0, *a, **k):
    if x == 'hang':
        while True:
            try:
                time.sleep(0.005)
            except Exception:
                pass
    if x == -2:
        # hard death in the middle of a run: no Python-level clean-up, no end marker (in a thread worker: an exception)
        import multiprocessing as _mp
        if _mp.current_process().name != 'MainProcess':
            os.kill(os.getpid(), 9)
    if isinstance(x, int) and x < 0:
        raise ValueError('poison')
    return x * x
