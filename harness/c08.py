"""C08 — Pool failure reports are sound: PoolError only when no worker is left; partial results genuine."""
import c07


def main(ctx):
    c07.main(ctx, prop='C08')


replay = c07.replay
