"""Deterministic driver for the real Pool.run: fake workers + scripted mp.connection.wait.

A script is a list of events: ('w', k) worker k answers its next input; ('d', k, marker) worker k
dies (marker: writes the end marker first / bare EOF); ('p', [k...]) connection.wait reports these
queues ready. The same script is consumed by PwVerif.Pool (model line `pool ...`)."""
import sys
import types

from common import REPO
sys.path.insert(0, str(REPO))

import pyworkers.pool as P  # noqa: E402
from pyworkers.persistent import WorkerClosedError  # noqa: E402


class ScriptEnd(BaseException):
    pass


class Livelock(BaseException):
    pass


class Env:
    def __init__(self, n, script, poison=()):
        self.alive = [True] * n
        self.inbox = [[] for _ in range(n)]
        self.chan = [[] for _ in range(n)]
        self.eof = [False] * n
        self.counter = [0] * n
        self.script = list(script)
        self.pos = 0
        self.enq_ok = []          # successful enqueues (w, inp)
        self.enq_try = []         # every enqueue attempt incl. refused by a dead worker
        self.fn_calls = 0
        self.dead_at_error = None
        self.poison = set(poison)
        self.flaky = set()        # (worker, input): the next enqueue of that pair raises although the worker is alive

    def ready(self, k):
        return bool(self.chan[k]) or self.eof[k]

    def apply(self, ev):
        if ev[0] == 'w':
            k = ev[1]
            if self.alive[k] and self.inbox[k]:
                i = self.inbox[k].pop(0)
                self.counter[k] += 1
                self.chan[k].append((self.counter[k], True, i, k))
        elif ev[0] == 'd':
            k = ev[1]
            if self.alive[k]:
                self.alive[k] = False
                self.inbox[k] = []
                if ev[2]:
                    self.chan[k].append((self.counter[k], False, None, k))
                self.eof[k] = True

    def enabled(self, conns_present, deaths_left):
        evs = []
        n = len(self.alive)
        for k in range(n):
            if self.alive[k] and self.inbox[k]:
                evs.append(('w', k))
        for k in range(n):
            if self.alive[k] and deaths_left > 0:
                evs.append(('d', k, True))
                evs.append(('d', k, False))
        rd = [k for k in range(n) if k in conns_present and self.ready(k)]
        for k in rd:
            evs.append(('p', [k]))
        if len(rd) >= 2:
            evs.append(('p', rd))
            evs.append(('p', rd[::-1]))
        return evs


class FakeConn:
    def __init__(self, env, k):
        self.env, self.k = env, k
        self.closed = False

    def recv(self):
        if self.closed:          # what multiprocessing.connection.Connection does
            raise OSError('handle is closed')
        ch = self.env.chan[self.k]
        if ch:
            return ch.pop(0)
        raise EOFError

    def close(self):
        self.closed = True


class FakeWorker:
    def __init__(self, env, k, **kw):
        self.env, self.k = env, k
        self.name = kw.get('name')

    @property
    def id(self):
        return self.k

    def is_alive(self):
        return self.env.alive[self.k]

    def enqueue(self, x):
        self.env.enq_try.append((self.k, x))
        if len(self.env.enq_try) > 20000:
            # the pool keeps offering work for ever (a re-dispatch loop that makes no progress): flag it; the escape is
            # raised from the fake time.sleep inside the pool's bare `except:` handler (see run_script)
            self.env.livelock = True
        if not self.env.alive[self.k]:
            raise WorkerClosedError(self)
        if (self.k, x) in self.env.flaky:
            # a transient failure of enqueue on a live worker (the pool is expected to offer the same input again)
            self.env.flaky.discard((self.k, x))
            raise RuntimeError('transient enqueue failure')
        self.env.inbox[self.k].append(x)
        self.env.enq_ok.append((self.k, x))

    has_error = False
    error = None
    result = None
    # the rest of the public Worker interface, so that pool code which asks a worker what it is keeps working
    is_thread = True
    is_process = False
    is_remote = False
    is_persistent = True
    is_child = False
    host = 'fake'
    user_state = None

    @property
    def userid(self):
        return self.k

    @property
    def pid(self):
        return self.k

    @property
    def tid(self):
        return self.k

    def close(self):
        pass

    def wait(self, timeout=None):
        return True

    def terminate(self, timeout=None, force=None):
        return True

    def __repr__(self):
        return f'FakeWorker({self.k})'


def run_script(n, inputs, script, retry=True, extra=0, return_results=True, refused=(), pool=None, env=None, pre=(), flaky=()):
    """Run the real Pool.run under the script. Returns dict(outcome, ret, enq, closed, env, pool, conns)."""
    env = env or Env(n, script)
    env.flaky = set(flaky)
    refused = set(refused)
    if pool is None:
        pool = P.Pool(lambda x: x, retry=retry)
        for k in range(n):
            pool.add_worker(lambda k=k, **kw: FakeWorker(env, k, **kw))
            pool._queues[k].close()
            pool._queues[k] = FakeConn(env, k)
    res = {'env': env, 'pool': pool}
    for ev in pre:          # workers that are already dead when run() is called
        env.apply(ev)

    def wait(conns, timeout=None):
        conns = list(conns)
        for c in conns:
            if c.closed:         # mp.connection.wait calls fileno() on every object
                raise OSError('handle is closed')
        present = {c.k: c for c in conns}
        while True:
            if env.pos >= len(env.script):
                res['present'] = set(present)
                raise ScriptEnd()
            ev = env.script[env.pos]
            env.pos += 1
            if ev[0] == 'p':
                rd = [present[k] for k in ev[1] if k in present and env.ready(k)]
                if rd:
                    return rd
            else:
                env.apply(ev)
    shim = types.SimpleNamespace(connection=types.SimpleNamespace(wait=wait))
    def fake_sleep(_):
        # try_enqueue swallows every exception of enqueue_fn with a bare `except:`; the escape from a
        # detected livelock is therefore raised again from here (inside the handler)
        if getattr(env, 'livelock', False):
            raise Livelock()
    tshim = types.SimpleNamespace(sleep=fake_sleep, time=lambda: 0.0)

    def enqueue_fn(worker, x):
        env.fn_calls += 1
        if env.fn_calls > 20000:
            env.livelock = True
            raise Livelock()
        if (worker.k, x) in refused:
            return False
        worker.enqueue(x)
        return True
    old_mp, old_time = P.mp, P.time
    P.mp, P.time = shim, tshim
    try:
        try:
            ret = pool.run(iter(list(inputs)), worker_extra_pending_inputs=extra, return_results=return_results,
                           enqueue_fn=enqueue_fn if refused else None)
            res['outcome'] = 'returned'
            res['none'] = ret is None          # run() returns None at once when the pool has no usable worker
            res['ret'] = list(ret) if ret is not None else []
        except P.PoolError as e:
            res['outcome'] = 'poolerror'
            res['ret'] = list(e.partial_results) if e.partial_results is not None else []
            res['dead_at_error'] = [not a for a in env.alive]
        except ScriptEnd:
            res['outcome'] = 'running'
            res['ret'] = None
        except Livelock:
            res['outcome'] = 'livelock'
            res['ret'] = None
        except Exception as e:  # internal error of the pool
            res['outcome'] = 'internal:' + type(e).__name__
            res['ret'] = None
    finally:
        P.mp, P.time = old_mp, old_time
        pool._map_guard = False
    res['enq'] = list(env.enq_ok)
    res['closed'] = sorted(pool._closed)
    return res


def script_tokens(script):
    out = []
    for ev in script:
        if ev[0] == 'w':
            out.append(f'w{ev[1]}')
        elif ev[0] == 'd':
            out.append(f'd{ev[1]}' + ('m' if ev[2] else 'e'))
        else:
            out.append('p' + '.'.join(map(str, ev[1])))
    return out


def model_line(n, inputs, script, retry=True, extra=0, return_results=True, refused=(), pre=()):
    return 'pool %d %d %d %d %s %s %s' % (int(retry), extra, int(return_results), n, ','.join(map(str, inputs)) or '-',
                                          ','.join(f'{w}:{i}' for w, i in sorted(refused)) or '-', ' '.join(script_tokens(pre) + ['|'] + script_tokens(script)))


def parse_model(line):
    parts = line.split()
    d = {'outcome': parts[0]}
    for p in parts[1:]:
        k, _, v = p.partition('=')
        d[k] = v
    ret = [int(x) for x in d.get('ret', '').split(',') if x]
    enq = [tuple(map(int, x.split(':'))) for x in d.get('enq', '').split(',') if x]
    closed = [int(x) for x in d.get('closed', '').split(',') if x]
    return d['outcome'], ret, enq, closed


def parse_drops(line):
    """the ghost record `drop=w:i:h,...` of the first run of a model line"""
    first = line.split(' || ')[0]
    for p in first.split():
        if p.startswith('drop='):
            return [tuple(map(int, x.split(':'))) for x in p[5:].split(',') if x]
    return []


def run_chain(n, runs, retry=True, extra=0):
    """consecutive run() calls on ONE pool of fake workers; runs = [(inputs, pre, script), ...]. Returns the list of result dicts."""
    env = pool = None
    outs = []
    for inputs, pre, script in runs:
        if env is None:
            r = run_script(n, inputs, script, retry=retry, extra=extra, pre=pre)
            env, pool = r['env'], r['pool']
        else:
            env.script, env.pos, env.enq_ok, env.enq_try, env.fn_calls = list(script), 0, [], [], 0
            r = run_script(n, inputs, script, retry=retry, extra=extra, pool=pool, env=env, pre=pre)
        outs.append(dict(r))
        if r['outcome'] not in ('returned', 'poolerror'):
            break
    return outs


def chain_line(n, runs, retry=True, extra=0):
    first = runs[0]
    line = model_line(n, first[0], first[2], retry=retry, extra=extra, pre=first[1])
    for inputs, pre, script in runs[1:]:
        line += ' || ' + (','.join(map(str, inputs)) or '-') + ' ' + ' '.join(script_tokens(pre) + ['|'] + script_tokens(script))
    return line
