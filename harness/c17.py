"""C17 — restart() always yields a fresh, equivalent, live worker."""
import os
import signal
import time

from common import Ctx, watchdog
import inject
import pwv_targets as TG
import c05


def t_tagged(x=0, tag='T', *a, **k):
    return (tag, x)


def t_swallow(x=0, *a, **k):
    while True:
        try:
            time.sleep(0.005)
        except Exception:
            pass


def t_neg_raises(x=0, tag='T', *a, **k):
    if x < 0:
        raise ValueError('neg')
    return (tag, x)


def t_big_state(x=0, *a, **k):
    return x


STATES = ['never-used', 'results-unread', 'inputs-queued', 'closed', 'died-by-exception', 'killed', 'uncooperative', 'killed-mid-final-message']


def expected_userid(state):
    return 0 if STATES.index(state) % 2 == 0 else 42


def prepare(kind, sess, state, supplied_pipe):
    """create a persistent worker and bring it into `state`; returns (worker, info)"""
    from pyworkers.utils import Pipe
    # falsy-but-meaningful constructor options must survive a restart too (userid 0 is what Pool gives its first worker)
    kw = dict(args=[0, 'T'], name=f'w-{kind}', userid=expected_userid(state), set_names=False)
    if supplied_pipe:
        from pyworkers.utils import LocalPipe
        kw['results_pipe'] = LocalPipe() if kind == 'thread' else Pipe()
    target = t_neg_raises
    if state == 'uncooperative':
        target = t_swallow
    if state == 'killed-mid-final-message':
        kw['init_state'] = b'x' * (8 << 20)
        target = t_big_state
        kw['args'] = [0]
    w = c05.mk(kind, sess, target, **kw)
    if state == 'results-unread':
        w.enqueue(1)
        w.enqueue(2)
        time.sleep(0.4)
    elif state == 'inputs-queued':
        for x in range(6):
            w.enqueue(x)
    elif state == 'closed':
        w.enqueue(1)
        w.close()
        time.sleep(0.3)
    elif state == 'died-by-exception':
        w.enqueue(-1)
        time.sleep(0.5)
    elif state == 'killed':
        w.enqueue(1)
        time.sleep(0.3)
        if kind != 'thread':
            os.kill(w.pid, signal.SIGKILL)
            time.sleep(0.3)
    elif state == 'uncooperative':
        w.enqueue(1)
        time.sleep(0.3)
    elif state == 'killed-mid-final-message':
        w.close()
        time.sleep(1.0)          # the child is blocked sending ((True, n), <8 MB state>)
        os.kill(w.pid, signal.SIGKILL)
        time.sleep(0.3)
    return w


def check_fresh(ctx, kind, state, w, old_id, step, supplied, desc):
    tag = f'{kind}:{state}'
    alive = w.is_alive()
    if not alive:
        ctx.fail(f'not-alive-after-restart:{tag}', f'{kind} worker in state {state}: not alive after restart #{step}', desc)
        return False
    if (w.name, w.userid, getattr(w, '_set_names', None)) != (f'w-{kind}', expected_userid(state), False):
        ctx.fail(f'ctor-args-lost:{tag}', f'{kind}: after restart name/userid/set_names are {(w.name, w.userid, getattr(w, "_set_names", None))} instead of {(f"w-{kind}", expected_userid(state), False)}', desc)
    if kind != 'thread' and w.id == old_id:
        ctx.fail(f'identity-not-new:{tag}', f'{kind}: same child identity {w.id} after restart', desc)
    if kind != 'thread' and old_id is not None:
        try:
            st = open(f'/proc/{old_id[1]}/stat').read().rsplit(')', 1)[1].split()[0]
        except Exception:
            st = None
        if st not in (None, 'Z', 'X'):
            ctx.fail(f'old-child-running:{tag}', f'{kind}: the previous incarnation (pid {old_id[1]}) is still running (state {st}) after restart returned', desc)
    if state in ('killed-mid-final-message', 'uncooperative'):
        return True      # (targets of these two states do not produce comparable results)
    # empty stream; first result belongs to the new input; counter restarts
    x = 100 + step
    w.enqueue(x)
    st, v = watchdog(w.next_result, 10)
    if st != 'ok' or v != ('T', x):
        ctx.fail(f'old-or-wrong-result:{tag}', f'{kind} ({state}, restart #{step}{", supplied pipe" if supplied else ""}): first result after restart is {v!r} ({st}), expected {("T", x)!r}', desc)
    return True


def run_combo(ctx, sess, kind, state, supplied, nrestarts):
    desc = {'kind': kind, 'state': state, 'supplied_pipe': supplied, 'restarts': nrestarts}
    w = prepare(kind, sess, state, supplied)
    ok = True
    outcome = []
    for step in range(1, nrestarts + 1):
        old_id = w.id if kind != 'thread' else None
        from pyworkers.utils import Pipe
        kw = {'results_pipe': Pipe()} if supplied is True else {}
        st, e = watchdog(lambda: w.restart(timeout=1.0, **kw), 40)
        if st == 'exc':
            outcome.append('raised:' + type(e).__name__)
            if state == 'uncooperative' and kind == 'thread' and isinstance(e, RuntimeError):
                # must not have abandoned the running child: the same thread is still alive
                if not w._child.is_alive():
                    ctx.fail('stuck-but-gone:thread', 'restart raised although the old thread is gone', desc)
            else:
                ctx.fail(f'restart-raised:{kind}:{state}:{type(e).__name__}', f'{kind} worker in state {state}: restart() raised {type(e).__name__}: {e}', desc)
            ok = False
            break
        if st == 'hang':
            outcome.append('hang')
            ctx.fail(f'restart-hangs:{kind}:{state}', f'{kind} worker in state {state}: restart() did not return within 40 s', desc)
            ok = False
            break
        outcome.append('ok')
        if state == 'uncooperative' and kind == 'thread':
            ctx.fail('stuck-restart-succeeded:thread', 'restart() of a thread worker that cannot be stopped returned instead of raising', desc)
        if not check_fresh(ctx, kind, state, w, old_id, step, supplied, desc):
            ok = False
            break
    ctx.case((kind, state, supplied, nrestarts), state != 'never-used', sample={**desc, 'outcome': outcome} if len(outcome) and (hash((kind, state)) % 3 == 0) else None)
    ctx.count(f'{kind}:{state}')
    if ok:
        st, r = watchdog(lambda: w.wait(5), 15)
        if st == 'ok' and r and state not in ('killed-mid-final-message', 'uncooperative') and w.result != 1:
            ctx.fail(f'counter-not-reset:{kind}:{state}', f'{kind} ({state}): result={w.result} after one enqueue in the last incarnation', desc)
    try:
        if state == 'uncooperative' and kind == 'thread':
            pass      # the swallowing thread cannot be stopped; it is a daemon-less thread: kill it via its loop? (left running until exit)
        elif w.is_alive():
            w.terminate(0.5, **({'force': True} if kind != 'thread' else {}))
    except BaseException:  # noqa
        pass


def main(ctx: Ctx):
    ctx.assumptions += [
        '"new identity" = a different (host, pid, tid) for process/remote kinds: pid freshness is an OS fact',
        'an uncooperative target swallows Exception in a sleep loop: thread kind cannot be stopped (restart must raise), process/remote kinds are force-terminated by restart\'s default terminate()',
    ]
    ctx.cov['rule'] = ('states at restart {never used, results unread, inputs queued, closed, died by exception, SIGKILLed, uncooperative target, killed while sending its final message} x 1-3 consecutive restarts x {thread, process, remote} '
                       'x {own pipe, caller-supplied Pipe()} ; non-trivial = state other than never-used; distinct by (kind, state, supplied, restarts)')
    import translate
    errors, _ = translate.regenerate_tables()
    for e in errors:
        ctx.broke('translation', 'harness/translate.py (T-tab)', e)
    ctx.lean()
    T = ctx.thorough
    rng = ctx.rng
    sess = inject.Session()
    try:
        combos = []
        for kind in ('thread', 'process', 'remote'):
            for state in STATES:
                if state in ('killed', 'killed-mid-final-message') and kind == 'thread':
                    continue
                if state == 'killed-mid-final-message' and kind != 'process':
                    continue
                # supplied: False = no results pipe given; True = given to the constructor and to every restart();
                # 'ctor-only' = given to the constructor only, restart() called plainly (it must then create a fresh one)
                for supplied in ((False, True, 'ctor-only') if (T or state in ('results-unread', 'inputs-queued')) else (rng.random() < 0.3,)):
                    if kind == 'thread' and supplied is True:
                        continue
                    combos.append((kind, state, supplied, rng.randint(1, 3) if T else (2 if state in ('results-unread',) else 1)))
        for kind, state, supplied, nrestarts in combos:
            run_combo(ctx, sess, kind, state, supplied, nrestarts)
        # ---- remote kind: the old incarnation's frontend thread is still receiving results when restart() is called
        for supplied in (False, True):
            from pyworkers.utils import Pipe
            desc = {'kind': 'remote', 'state': 'frontend-still-receiving', 'supplied_pipe': supplied}
            with inject.gated_recv('data: result') as g:
                w = c05.mk('remote', sess, t_neg_raises, args=[0, 'T'], name='w-remote', userid=42, **({'results_pipe': Pipe()} if supplied else {}))
                w.enqueue(3)
                time.sleep(0.6)
                kw = {'results_pipe': Pipe()} if supplied else {}
                st, e = watchdog(lambda: w.restart(0.3, False, timeout=0.5, **kw), 30)
                outcome = 'raised:' + type(e).__name__ if st == 'exc' else st
                g.gate.set()
                time.sleep(0.5)
                if st == 'exc' and isinstance(e, RuntimeError):
                    # refused to abandon the old incarnation: fine; once it is gone a restart must work
                    st2, e2 = watchdog(lambda: w.restart(timeout=2, **({'results_pipe': Pipe()} if supplied else {})), 30)
                    if st2 != 'ok':
                        ctx.fail('restart-after-refusal:remote', f'second restart after a refused one: {st2} {e2!r}', desc)
                        continue
                elif st != 'ok':
                    ctx.fail(f'restart-{outcome}:remote:frontend-still-receiving', f'restart() {outcome}', desc)
                    continue
                w.enqueue(100)
                stn, v = watchdog(w.next_result, 10)
                ctx.case(('frontend-still-receiving', supplied), True, sample={**desc, 'restart': outcome, 'first_result_after': repr(v)})
                if stn != 'ok' or v != ('T', 100):
                    ctx.fail('old-or-wrong-result:remote:frontend-still-receiving', f'restart() {outcome} while the old frontend thread was still receiving: first result of the new incarnation is {v!r} ({stn})', desc)
                try:
                    w.terminate(0.5)
                except BaseException:  # noqa
                    pass
    finally:
        sess.close()


def replay(case):
    if 'state' in case and case.get('state') != 'frontend-still-receiving':
        class C:
            def case(self, *a, **k): print('observed', k.get('sample'))
            def count(self, *a, **k): pass
            def fail(self, sig, what, desc): print('FAIL', sig, what)
        sess = inject.Session()
        try:
            run_combo(C(), sess, case['kind'], case['state'], case.get('supplied_pipe', False), case.get('restarts', 1))
            print('done')
        finally:
            sess.close()
        return
    print(case)
