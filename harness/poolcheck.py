"""Shared by C07 / C08: script generation (seeded random + exhaustive DFS on the real Pool.run),
correspondence with PwVerif.Pool, and the two properties' oracles on the real outcome."""
import time

import pool_driver as D


def gen_case(rng):
    n = rng.choice([1, 2, 2, 3, 3])
    ninp = rng.randint(0, 6)
    inputs = list(range(1, ninp + 1))
    extra = rng.choice([0, 0, 1, 2])
    retry = rng.random() < 0.75
    rr = rng.random() < 0.85
    deaths = rng.choice([0, 1, 1, 2, 3])
    refused = set()
    if rng.random() < 0.15:
        for _ in range(rng.randint(1, 3)):
            refused.add((rng.randrange(n), rng.randint(1, max(ninp, 1))))
    poison = set()
    if rng.random() < 0.2 and ninp:
        poison.add(rng.randint(1, ninp))
    pre = []
    if rng.random() < 0.25:
        for k in rng.sample(range(n), rng.randint(1, n)):
            if rng.random() < 0.6:
                pre.append(('d', k, rng.random() < 0.5))
    flaky = set()
    if rng.random() < 0.2 and ninp:
        # transient enqueue failures on live workers: the code must simply offer the same input again (the model has no
        # such event: it is a stutter)
        for _ in range(rng.randint(1, 2)):
            flaky.add((rng.randrange(n), rng.randint(1, ninp)))
    return dict(n=n, inputs=inputs, extra=extra, retry=retry, rr=rr, deaths=deaths, refused=refused, poison=poison, pre=pre, flaky=flaky)


def random_script(rng, case, maxlen=60):
    """Grow a script event by event, asking the real code what is enabled after each prefix."""
    script = []
    deaths_left = case['deaths']
    for _ in range(maxlen):
        r = run(case, script)
        if r['outcome'] != 'running':
            return script, r
        env = r['env']
        evs = env.enabled(r.get('present', set()), deaths_left)
        # poison inputs: a worker whose next input is poison dies instead of answering
        evs2 = []
        for ev in evs:
            if ev[0] == 'w' and env.inbox[ev[1]] and env.inbox[ev[1]][0] in case['poison']:
                evs2.append(('d', ev[1], rng.random() < 0.5))
            else:
                evs2.append(ev)
        if not evs2:
            return script, r
        weights = [3 if e[0] == 'p' else 2 if e[0] == 'w' else 1 for e in evs2]
        ev = rng.choices(evs2, weights)[0]
        if ev[0] == 'd':
            deaths_left -= 1
        script.append(ev)
    return script, run(case, script)


def run(case, script):
    return D.run_script(case['n'], case['inputs'], script, retry=case['retry'], extra=case['extra'],
                        return_results=case['rr'], refused=case['refused'], pre=case.get('pre', ()), flaky=case.get('flaky', ()))


def line(case, script):
    return D.model_line(case['n'], case['inputs'], script, retry=case['retry'], extra=case['extra'],
                        return_results=case['rr'], refused=case['refused'], pre=case.get('pre', ()))


def describe(case, script):
    c = dict(case)
    c['refused'] = sorted(c['refused'])
    c['poison'] = sorted(c['poison'])
    c['flaky'] = sorted(c.get('flaky', ()))
    c['script'] = D.script_tokens(script)
    c['pre'] = D.script_tokens(c.get('pre', ()))
    return c


def oracle(ctx, prop, case, script, r, deaths_left=0):
    """the two properties, evaluated on the real outcome `r`; reports through ctx.fail"""
    inputs = case['inputs']
    env = r['env']
    out = r['outcome']
    desc = describe(case, script)
    refusing = bool(case['refused'])
    cfg = f'retry={int(case["retry"])},extra={min(case["extra"], 1)},fn={int(refusing)}'
    if prop == 'C07':
        if out.startswith('internal'):
            ctx.fail(f'{out}:{cfg}', f'Pool.run ended with an internal {out.split(":")[1]} (script {" ".join(desc["script"])})', desc)
        elif out == 'livelock':
            ctx.fail(f'livelock:{cfg}', 'Pool.run spins for ever re-offering an input (to a worker whose enqueue_fn refuses it, or to a dead worker that is never declared dead)', desc)
        elif out == 'returned' and case['retry'] and case['rr']:
            if sorted(r['ret']) != sorted(inputs):
                ctx.fail(f'wrong-results:{cfg}', f'Pool.run returned {r["ret"]} for inputs {inputs}', desc)
        elif out == 'running':
            # blocked in wait(): something must be enabled (a worker that can answer, or a ready queue)
            evs = [e for e in env.enabled(r.get('present', set()), 0)]
            if not evs:
                ctx.fail(f'deadlock:{cfg}', 'Pool.run blocks in connection.wait although no worker can make progress and no queue is ready', desc)
    else:  # C08
        if out == 'poolerror':
            live = [k for k in range(case['n']) if env.alive[k] and k not in r['closed']]
            if live and not refusing:
                ctx.fail(f'poolerror-with-live-worker:{cfg}', f'PoolError although workers {live} are alive and not closed', desc)
        if out in ('poolerror', 'returned') and case['rr']:
            ret = r['ret']
            if len(set(ret)) != len(ret) or not set(ret) <= set(inputs):
                ctx.fail(f'results-not-genuine:{cfg}', f'results {ret} are not a duplicate-free subset of inputs {inputs}', desc)
            if out == 'returned' and not case['retry']:
                missing = set(inputs) - set(ret)
                handed_to_dead = {x for (k, x) in env.enq_try if not env.alive[k]}
                bad = missing - handed_to_dead
                if bad:
                    ctx.fail(f'noretry-missing-unhanded:{cfg}', f'inputs {sorted(bad)} are missing from the result but were never handed to a worker that died', desc)
        if out == 'returned' and case['retry'] and not refusing and case['rr'] and sorted(r['ret']) != sorted(inputs):
            ctx.fail(f'returned-incomplete:{cfg}', f'returned {r["ret"]} for {inputs} with retry on', desc)


def correspond(ctx, case, script, r, mline, name='Pool.runEvents vs Pool.run'):
    mo, mret, menq, mclosed = D.parse_model(mline)
    ok = mo == r['outcome'] and menq == r['enq'] and mclosed == r['closed']
    if ok and r['ret'] is not None:
        ok = mret == r['ret']
    if ok and not case['retry'] and not case['refused']:
        # the model's ghost record of given-up inputs (St.dropped) against the real run: every entry names a worker
        # that is dead in the real environment; a `handed` entry is a real successful enqueue; and when the run
        # returned, the given-up inputs are exactly the inputs missing from the real result
        drops = D.parse_drops(mline)
        env = r['env']
        for (w, i, handed) in drops:
            if env.alive[w] or (handed and (w, i) not in r['enq']):
                ok = False
        if r['outcome'] == 'returned' and r['ret'] is not None and case['rr']:
            missing = sorted(case['inputs'])
            for x in r['ret']:
                if x in missing:
                    missing.remove(x)
            if sorted(i for (_, i, _) in drops) != missing:
                ok = False
        if not ok:
            name = name + ' (ghost record of given-up inputs)'
    if not ok:
        ctx.broke('correspondence', name, f'{line(case, script)}\n model={mline}\n impl ={r["outcome"]} ret={r["ret"]} enq={r["enq"]} closed={r["closed"]}')
    return ok


def dfs(ctx, case, budget_s, on_leaf, max_scripts=200000):
    """exhaustive exploration of all scripts of the real Pool.run for this configuration
    (re-executing every prefix). Returns (leaves, complete)."""
    t0 = time.time()
    stack = [([], case['deaths'])]
    leaves = 0
    total = 0
    while stack:
        if time.time() - t0 > budget_s or total > max_scripts:
            return leaves, False
        script, deaths_left = stack.pop()
        r = run(case, script)
        total += 1
        if r['outcome'] != 'running':
            leaves += 1
            on_leaf(script, r)
            continue
        evs = r['env'].enabled(r.get('present', set()), deaths_left)
        evs = [e for e in evs if not (e[0] == 'p' and len(e[1]) > 1)] if case.get('single_polls') else evs
        if not evs:
            leaves += 1
            on_leaf(script, r)
            continue
        for ev in evs:
            stack.append((script + [ev], deaths_left - (1 if ev[0] == 'd' else 0)))
    return leaves, True
