"""C12 — stopping the server reaps its children and every parent finds out."""
import itertools
import os
import signal
import time

from common import Ctx, watchdog
import inject
import remote_peer as RP
import pwv_targets as TG
import c04_case as B

STATES = ['cooperative', 'swallowing', 'idle-persistent', 'finished', 'in-context', 'busy-persistent']


def make_child(state, addr, ctx_holder):
    from pyworkers.remote import RemoteWorker
    from pyworkers.persistent_remote import PersistentRemoteWorker
    from pyworkers.remote_context import RemoteContext
    if state == 'cooperative':
        return RemoteWorker(B.b_coop, host=addr, main_path='')
    if state == 'swallowing':
        return RemoteWorker(B.b_swallow, host=addr, main_path='')
    if state == 'idle-persistent':
        return PersistentRemoteWorker(TG.t_item, host=addr, main_path='')
    if state == 'busy-persistent':
        w = PersistentRemoteWorker(B.b_coop, host=addr, main_path='')
        w.enqueue(1)
        return w
    if state == 'finished':
        w = RemoteWorker(TG.f_add, args=[1], host=addr, main_path='')
        w.wait(5)
        return w
    if state == 'in-context':
        if 'ctx' not in ctx_holder:
            ctx_holder['ctx'] = RemoteContext(77, host=addr, target=TG.t_item)
        return PersistentRemoteWorker(None, host=addr, context=77, main_path='')
    raise ValueError(state)


def main(ctx: Ctx):
    ctx.assumptions += [
        'signal delivery, reaping and the orphaned context helper noticing EOF on its pipe are OS behaviour: the check waits up to 6 s for the process table to be clean',
        'a child that had already finished keeps its own outcome (C01 stability): has_error True is required only of children still running or idle at shutdown',
        'the shape of the two shutdown paths is regenerated from /repo (Gen/ShutdownPaths.lean)',
    ]
    ctx.cov['rule'] = ('real server with 0-4 children in states {cooperative target, swallowing target, idle persistent, busy persistent, already finished, inside a context} (multisets enumerated / sampled) x shutdown by {terminate(), SIGTERM} '
                       'x moment {after start-up, immediately after the last constructor returned}; non-trivial = at least one child; distinct by (states, how, delay)')
    import translate
    errors, _ = translate.regenerate_shutdown()
    for e in errors:
        ctx.broke('translation', 'harness/translate.py (shutdown paths)', e)
    ctx.lean()
    T = ctx.thorough
    rng = ctx.rng
    combos = [()]
    for n in (1, 2, 3, 4):
        combos += list(itertools.combinations_with_replacement(STATES, n))
    if not T:
        combos = [()] + [(s,) for s in STATES] + rng.sample([c for c in combos if len(c) >= 2], 6)
    else:
        combos = rng.sample(combos, min(len(combos), 120))
    sess = inject.Session()
    try:
        from common import spawn_server
        for ci, states in enumerate(combos):
            hows = ('terminate', 'SIGTERM') if (T or len(states) <= 1 or ci % 2 == 0) else (rng.choice(['terminate', 'SIGTERM']),)
            if 'swallowing' in states:
                hows = hows + ('terminate-then-SIGTERM',)      # SIGTERM arrives while the terminate()-initiated cleanup is waiting for the stubborn child
            for how in hows:
                delay = rng.choice([0.0, 0.4])
                sess.write_conf(None)
                srv = spawn_server(('127.0.0.1', 0))
                spid = srv.pid
                holder = {}
                ws = []
                desc = {'children': list(states), 'how': how, 'delay': delay}
                try:
                    for s in states:
                        st, w = watchdog(lambda s=s: make_child(s, srv.addr, holder), 15)
                        if st != 'ok':
                            ctx.broke('correspondence', 'c12 set-up', f'cannot create a {s} child: {st} {w!r}')
                            break
                        ws.append((s, w))
                    time.sleep(delay)
                    # the accept loop may be in the middle of a client's request when it is asked to stop: a client that has
                    # connected and stays silent for a second keeps the main thread of the server in recv_msg
                    busy = how == 'terminate' and (T or ci % 2 == 1 or not states or states == ('cooperative',))
                    desc['server_busy_with_silent_client'] = busy
                    if busy:
                        import socket
                        import threading
                        raw = socket.create_connection(srv.addr)

                        def leave():
                            time.sleep(1.0)
                            try:
                                raw.close()
                            except Exception:
                                pass
                        threading.Thread(target=leave, daemon=True).start()
                        time.sleep(0.3)
                    before = RP.descendants(spid)
                    if how == 'terminate':
                        st, r = watchdog(lambda: srv.terminate(timeout=5, force=True), 30)
                    elif how == 'terminate-then-SIGTERM':
                        st, r = watchdog(lambda: srv.terminate(timeout=0, force=False), 10)
                        time.sleep(0.35)
                        try:
                            os.kill(spid, signal.SIGTERM)
                        except ProcessLookupError:
                            pass
                    else:
                        os.kill(spid, signal.SIGTERM)
                        st, r = 'ok', None
                    # the process table must become clean
                    t0 = time.time()
                    left = before
                    while time.time() - t0 < 6:
                        left = [p for p in before if RP.pid_alive(p)]
                        if not left and not RP.pid_alive(spid):
                            break
                        time.sleep(0.1)
                    ctx.case((states, how, delay, busy), len(states) > 0, sample={**desc, 'descendants_before': len(before), 'left_after': len(left)} if ci % 5 == 0 else None)
                    ctx.count(how)
                    if st != 'ok':
                        ctx.fail(f'server-terminate-{st}', f'server.terminate() {st} with children {states}', desc)
                    if left or RP.pid_alive(spid):
                        which = sorted({s for s, w in ws if w.pid in left}) or ['helper-or-server']
                        ctx.fail(f'not-reaped:{how}:{"+".join(which)}', f'server stopped by {how} with children {states}: processes {left} (server alive: {RP.pid_alive(spid)}) are still there after 6 s', desc)
                    # every parent-side worker finds out, without blocking
                    for s, w in ws:
                        st, r = watchdog(lambda: w.wait(6), 15)
                        st2, obs = watchdog(lambda: (w.is_alive(), w.has_error, type(w.error).__name__), 10)
                        if st != 'ok' or st2 != 'ok':
                            ctx.fail(f'parent-blocks:{how}:{s}', f'parent-side worker ({s}) blocks after the server was stopped by {how}: wait {st}, accessors {st2}', desc)
                            continue
                        alive, he, et = obs
                        if alive or r is not True:
                            ctx.fail(f'parent-not-dead:{how}:{s}', f'parent-side worker ({s}) still alive after the server was stopped by {how} (wait -> {r})', desc)
                        elif s != 'finished' and he is not True:
                            ctx.fail(f'parent-no-error:{how}:{s}', f'parent-side worker ({s}): has_error={he} after the server was stopped by {how}', desc)
                        elif s in ('cooperative', 'idle-persistent', 'in-context', 'busy-persistent') and how == 'terminate' and et != 'WorkerTerminatedError':
                            ctx.fail(f'parent-no-wte:{how}:{s}', f'parent-side worker ({s}) could report but its error is {et} after server.terminate()', desc)
                        elif s == 'finished' and he is not False:
                            ctx.fail(f'finished-outcome-changed:{how}', f'a worker that had already finished now has has_error={he}', desc)
                finally:
                    for p in RP.descendants(spid) + [spid]:
                        try:
                            os.kill(p, signal.SIGKILL)
                        except Exception:
                            pass
    finally:
        sess.close()


def replay(case):
    print(case)
