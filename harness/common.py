"""Shared machinery of the /verif checks: Lean build + axiom audit, model driver,
verdict logic (VIOLATION / KNOWN-FINDING lines, exit codes), evidence writer.

Run under /venv/bin/python (the interpreter that has /repo's dependencies).
"""
import fcntl
import hashlib
import json
import os
import random
import re
import subprocess
import sys
import time
import traceback
from pathlib import Path

VERIF = Path(__file__).resolve().parent.parent
REPO = Path(os.environ.get('PYWORKERS_REPO', '/repo'))
LEAN = VERIF / 'lean'
# evidence/ is only for runs against /repo itself: a run pointed at a scratch worktree (seeded change) must not overwrite it
EVIDENCE = VERIF / 'evidence' if REPO == Path('/repo') else VERIF / 'replays' / 'evidence_scratch'
REPLAYS = VERIF / 'replays'
KNOWN = VERIF / 'known_findings.json'
ALLOWED_AXIOMS = {'propext', 'Classical.choice', 'Quot.sound'}
FORBIDDEN = re.compile(r'\b(sorry|admit|native_decide|bv_decide|implemented_by|unsafe)\b|^\s*axiom\s|maxHeartbeats\s+0')

TRUSTED_BASE = [
    'Lean 4.33.0 kernel (lake build; thorough tier re-checks the .olean files with leanchecker)',
    'axioms allowed: propext, Classical.choice, Quot.sound (checked by #print axioms on every theorem of the property file); no sorry/native_decide/bv_decide/own axioms (source scan on every run)',
    'the Python harness under /verif/harness: translators, generators, real-code drivers, canonicalisers and oracles',
    'CPython 3.12 and the Linux kernel (pipes, sockets, signals, threads) are modelled, not verified',
]


class Infra(Exception):
    """Infrastructure trouble (exit 2, never a VIOLATION)."""


def repo_on_path():
    p = str(REPO)
    if p not in sys.path:
        sys.path.insert(0, p)
    os.environ['PYTHONPATH'] = p + os.pathsep + os.environ.get('PYTHONPATH', '') if p not in os.environ.get('PYTHONPATH', '').split(os.pathsep) else os.environ['PYTHONPATH']
    os.environ.setdefault('PYWORKERS_VERIF', '1')


def _lock():
    (LEAN / '.lake').mkdir(exist_ok=True)
    f = open(LEAN / '.lake' / 'verif.lock', 'w')
    fcntl.flock(f, fcntl.LOCK_EX)
    return f


def _run(cmd, timeout, cwd=LEAN, input=None):
    try:
        p = subprocess.run(cmd, cwd=cwd, input=input, capture_output=True, text=True, timeout=timeout)
    except subprocess.TimeoutExpired as e:
        raise Infra(f'timeout after {timeout}s: {" ".join(cmd)}') from e
    except FileNotFoundError as e:
        raise Infra(f'tool missing: {cmd[0]}') from e
    return p.returncode, p.stdout + p.stderr


def write_if_changed(path, text):
    path = Path(path)
    if path.exists() and path.read_text() == text:
        return False
    path.parent.mkdir(parents=True, exist_ok=True)
    path.write_text(text)
    return True


def lake_build(modules, timeout=1500):
    """Build the given modules. Returns (ok, log)."""
    with _lock():
        rc, out = _run(['lake', 'build'] + list(modules), timeout)
    log = '\n'.join(l for l in out.splitlines() if not l.startswith('trace:'))
    return rc == 0, log


def prop_modules(prop_id):
    """Props/<id>.lean and its continuation files Props/<id><Suffix>.lean (same namespace PwVerif.<id>)"""
    d = LEAN / 'PwVerif' / 'Props'
    return [f'PwVerif.Props.{p.stem}' for p in sorted(d.glob(f'{prop_id}*.lean')) if re.fullmatch(prop_id + r'[A-Za-z]*', p.stem)]


def theorem_names(prop_id):
    out = []
    for mod in prop_modules(prop_id):
        src = (LEAN / (mod.replace('.', '/') + '.lean')).read_text()
        out += [f'PwVerif.{prop_id}.{m}' for m in re.findall(r'^theorem\s+([A-Za-z0-9_\.\']+)', src, re.M)]
    return out


def strip_comments(src):
    # remove /- ... -/ (nested) and -- comments
    out, i, depth = [], 0, 0
    while i < len(src):
        if src.startswith('/-', i):
            depth += 1
            i += 2
        elif depth and src.startswith('-/', i):
            depth -= 1
            i += 2
        elif depth:
            if src[i] == '\n':
                out.append('\n')
            i += 1
        elif src.startswith('--', i):
            while i < len(src) and src[i] != '\n':
                i += 1
        else:
            out.append(src[i])
            i += 1
    return ''.join(out)


def forbidden_scan():
    """Scan every Lean source of the library (outside comments). Returns list of hits."""
    hits = []
    for p in sorted((LEAN / 'PwVerif').rglob('*.lean')):
        for n, line in enumerate(strip_comments(p.read_text()).splitlines(), 1):
            if FORBIDDEN.search(line):
                hits.append(f'{p.relative_to(LEAN)}:{n}: {line.strip()}')
    return hits


def audit(prop_id, timeout=600):
    """#print axioms for every theorem of Props/<id>.lean.
    Returns dict theorem -> list of axioms (None if the theorem could not be found)."""
    names = theorem_names(prop_id)
    d = LEAN / '.lake' / 'audit'
    d.mkdir(parents=True, exist_ok=True)
    f = d / f'{prop_id}.lean'
    f.write_text(''.join(f'import {m}\n' for m in prop_modules(prop_id)) + ''.join(f'#print axioms {n}\n' for n in names))
    with _lock():
        rc, out = _run(['lake', 'env', 'lean', str(f)], timeout)
    res = {n: None for n in names}
    for m in re.finditer(r"'([^']+)' depends on axioms: \[([^\]]*)\]", out):
        res[m.group(1)] = [a.strip() for a in m.group(2).replace('\n', ' ').split(',') if a.strip()]
    for m in re.finditer(r"'([^']+)' does not depend on any axioms", out):
        res[m.group(1)] = []
    return res, out


def leanchecker(modules, timeout=1500):
    with _lock():
        rc, out = _run(['lake', 'env', 'leanchecker'] + list(modules), timeout)
    return rc == 0, out


def run_driver(lines, timeout=900):
    """Feed case lines to the Lean model driver; returns output lines."""
    if not lines:
        return []
    exe = LEAN / '.lake' / 'build' / 'bin' / 'pwdriver'
    rc, out = _run([str(exe)], timeout, input='\n'.join(lines) + '\n')
    if rc != 0:
        raise DriverBroken(out[-4000:])
    res = out.splitlines()
    if len(res) != len(lines):
        raise DriverBroken(f'driver returned {len(res)} lines for {len(lines)} cases\n' + out[-2000:])
    return res


class DriverBroken(Exception):
    pass


def load_known():
    if KNOWN.exists():
        return json.loads(KNOWN.read_text())
    return []


class Ctx:
    """One run of one property's check."""

    def __init__(self, prop_id, tier, level='proof'):
        self.id = prop_id
        self.tier = tier
        self.seed = int(os.environ.get('VERIF_SEED', '0') or 0)
        self.rng = random.Random(f'{prop_id}:{self.seed}')
        self.level = level
        self.t0 = time.time()
        self.violations = []       # (signature, what, case)
        self.known_hits = {}       # signature -> what
        self.sig_counts = {}
        self.broken = []           # (kind, name, detail)  proof/translation/correspondence that no longer checks
        self.cov = {'evaluations': 0, 'distinct_nontrivial': 0, 'rule': '', 'samples': [],
                    'traces_validated_against_impl': 0}
        self._distinct = set()
        self.assumptions = []
        self.notes = []
        self.known = [k for k in load_known() if k.get('property') == prop_id]
        self.thorough = tier == 'thorough'

    # ---- coverage accounting
    def case(self, key, nontrivial=True, sample=None):
        self.cov['evaluations'] += 1
        if nontrivial:
            h = hashlib.sha1(repr(key).encode()).hexdigest()
            if h not in self._distinct:
                self._distinct.add(h)
                self.cov['distinct_nontrivial'] = len(self._distinct)
        if sample is not None and len(self.cov['samples']) < 6:
            self.cov['samples'].append(sample)

    def count(self, name, n=1):
        d = self.cov.setdefault('distribution', {})
        d[name] = d.get(name, 0) + n

    # ---- failures
    def fail(self, signature, what, case):
        """The oracle failed on a concrete case of the real implementation."""
        for k in self.known:
            if k.get('status') == 'open' and re.fullmatch(k['signature'], signature):
                self.known_hits.setdefault(k['signature'], k['what'])
                return
        self.sig_counts[signature] = self.sig_counts.get(signature, 0) + 1
        if self.sig_counts[signature] == 1 and len(self.violations) < 12:
            self.violations.append((signature, what, case))

    def broke(self, kind, name, detail):
        self.nbroken = getattr(self, 'nbroken', 0) + 1
        if sum(1 for k, n, _ in self.broken if (k, n) == (kind, name)) < 3:
            self.broken.append((kind, name, detail))

    # ---- Lean side
    def lean(self, extra_modules=()):
        """Build the property's theorem file, audit axioms, scan sources."""
        mods = prop_modules(self.id) + list(extra_modules)
        ok, log = lake_build(mods)
        names = theorem_names(self.id)
        self.cov['obligations'] = len(names)
        self.cov['checker_cmd'] = f'cd lean && lake build {" ".join(mods)} && lake env lean .lake/audit/{self.id}.lean  (#print axioms of each theorem)'
        self.cov['trusted_base'] = list(TRUSTED_BASE)
        self.cov['theorems'] = names
        if not ok:
            self.cov['discharged'] = 0
            errs = '\n'.join(l for l in log.splitlines() if 'error' in l.lower())[:3000]
            self.broke('proof', ' / '.join(prop_modules(self.id)), errs + '\n----\n' + log[-6000:])
            return False
        ax, out = audit(self.id)
        good = 0
        for n, a in ax.items():
            if a is None:
                self.broke('proof', n, 'theorem not found by #print axioms\n' + out[-2000:])
            elif set(a) - ALLOWED_AXIOMS:
                self.broke('proof', n, f'uses axioms outside the accepted set: {a}')
            else:
                good += 1
        self.cov['discharged'] = good
        self.cov['axioms'] = {n: a for n, a in ax.items()}
        hits = forbidden_scan()
        if hits:
            self.broke('proof', 'source-scan', 'forbidden tokens outside comments:\n' + '\n'.join(hits))
        if self.thorough:
            ok, out = leanchecker(mods)
            self.cov['leanchecker'] = 'ok' if ok else 'FAILED'
            if not ok:
                self.broke('proof', 'leanchecker', out[-4000:])
        return not self.broken

    def model(self, lines):
        try:
            ok, log = lake_build(['pwdriver'])
            if not ok:
                raise DriverBroken(log[-4000:])
            return run_driver(lines)
        except DriverBroken as e:
            self.broke('correspondence', 'model driver', str(e))
            return None

    # ---- end of run
    def finish(self):
        wall = time.time() - self.t0
        REPLAYS.mkdir(exist_ok=True)
        rdir = REPLAYS / self.id
        lines = []
        nviol = 0
        for sig, what in self.known_hits.items():
            lines.append(f'KNOWN-FINDING: property={self.id} {what}')
        for k in self.known:
            if k.get('status') == 'open' and k['signature'] not in self.known_hits:
                self.notes.append(f'known-finding-not-reproduced: {k["signature"]}')
        for i, (sig, what, case) in enumerate(self.violations):
            rdir.mkdir(parents=True, exist_ok=True)
            path = rdir / f'violation_{self.tier}_{self.seed}_{i}.json'
            path.write_text(json.dumps({'property': self.id, 'signature': sig, 'what': what, 'case': case}, indent=1, default=repr))
            lines.append(f'VIOLATION property={self.id} replay={path}')
            nviol += 1
        if self.broken and not self.violations:
            rdir.mkdir(parents=True, exist_ok=True)
            path = rdir / f'broken_{self.tier}_{self.seed}.json'
            path.write_text(json.dumps({'property': self.id, 'no_failing_input_found': True,
                                        'broken': [{'kind': k, 'name': n, 'detail': d} for k, n, d in self.broken]}, indent=1))
            lines.append(f'VIOLATION property={self.id} replay={path} no-failing-input-found')
            nviol += 1
        elif self.broken:
            self.notes.append('also broken: ' + '; '.join(sorted({f'{k}:{n}' for k, n, _ in self.broken})) + f' ({self.nbroken} mismatches)')
        ev = {
            'property_id': self.id, 'tier': self.tier, 'seed': self.seed, 'level': self.level,
            'coverage': self.cov, 'assumptions': self.assumptions, 'wall_s': round(wall, 2),
            'violations': nviol,
        }
        if self.sig_counts:
            ev['coverage']['failing_signatures'] = dict(self.sig_counts)
        if self.notes:
            ev['coverage']['notes'] = self.notes
        if self.known_hits:
            ev['coverage']['known_findings_reproduced'] = sorted(self.known_hits)
        EVIDENCE.mkdir(parents=True, exist_ok=True)
        (EVIDENCE / f'{self.id}.json').write_text(json.dumps(ev, indent=1, default=repr) + '\n')
        for l in lines:
            print(l)
        for n in self.notes:
            print('note:', n)
        print(f'{self.id} {self.tier} seed={self.seed}: evaluations={self.cov["evaluations"]} distinct={self.cov["distinct_nontrivial"]} '
              f'obligations={self.cov.get("obligations")} discharged={self.cov.get("discharged")} violations={nviol} wall={wall:.1f}s')
        sys.stdout.flush()
        return 1 if nviol else 0


def run_check(prop_id, tier, body, level='proof'):
    ctx = Ctx(prop_id, tier, level)
    try:
        body(ctx)
        return ctx.finish()
    except Infra as e:
        print(f'INFRA-ERROR {prop_id}: {e}')
        return 2
    except Exception:
        print(traceback.format_exc())
        print(f'INFRA-ERROR {prop_id}: harness crashed')
        return 2


class Hang(BaseException):
    pass


def run_isolated(cmd, timeout):
    """Runs a scenario in a process (session) of its own and returns (returncode, stdout, stderr, timed_out). The scenario
    may be killed by a signal and leave descendants behind (a server, a stopped child): they must neither keep the caller
    waiting on inherited pipes nor survive - output goes to files and the whole session is killed afterwards."""
    import signal
    import tempfile
    with tempfile.TemporaryFile('w+') as fo, tempfile.TemporaryFile('w+') as fe:
        p = subprocess.Popen(cmd, stdout=fo, stderr=fe, stdin=subprocess.DEVNULL, start_new_session=True)
        timed_out = False
        try:
            p.wait(timeout=timeout)
        except subprocess.TimeoutExpired:
            timed_out = True
        try:
            os.killpg(p.pid, signal.SIGKILL)
        except OSError:
            pass
        p.wait()
        fo.seek(0)
        fe.seek(0)
        return p.returncode, fo.read(), fe.read(), timed_out


def watchdog(fn, timeout, *args, **kwargs):
    """Run fn in a thread. Returns ('ok', value) | ('exc', exception) | ('hang', None).
    On a hang an asynchronous `Hang` exception is raised in the thread so that a
    Python-level busy loop stops (a thread blocked in C stays blocked; it is a daemon)."""
    import ctypes
    import threading
    box = {}

    def run():
        try:
            box['r'] = ('ok', fn(*args, **kwargs))
        except Hang:
            box['r'] = ('hang', None)
        except BaseException as e:  # noqa
            box['r'] = ('exc', e)
    t = threading.Thread(target=run, daemon=True)
    t.start()
    t.join(timeout)
    if t.is_alive():
        ctypes.pythonapi.PyThreadState_SetAsyncExc(ctypes.c_ulong(t.ident), ctypes.py_object(Hang))
        t.join(2)
        return ('hang', None)
    return box.get('r', ('hang', None))


def spawn_server(addr=('127.0.0.1', 0), timeout=40, **kw):
    """pyworkers.remote_server.spawn_server under a watchdog: the constructor of the server process blocks
    without a bound while the child starts, so a start-up hiccup of the machine must not hang the check."""
    repo_on_path()
    from pyworkers.remote_server import spawn_server as real
    for attempt in (1, 2):
        st, srv = watchdog(lambda: real(addr, **kw), timeout)
        if st == 'ok':
            return srv
    raise Infra(f'cannot start a remote server process: {st} {srv!r}')
