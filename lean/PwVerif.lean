-- This module serves as the root of the `PwVerif` library.
-- Import modules here that should be built as part of the library.
import PwVerif.Basic
