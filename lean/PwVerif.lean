-- Root of the `PwVerif` library: every property file (and through them the models and lemmas).
import PwVerif.Props.C01
import PwVerif.Props.C02
import PwVerif.Props.C03
import PwVerif.Props.C04
import PwVerif.Props.C05
import PwVerif.Props.C06
import PwVerif.Props.C07
import PwVerif.Props.C08
import PwVerif.Props.C10
import PwVerif.Props.C13
import PwVerif.Props.C14
import PwVerif.Props.C15
import PwVerif.Props.C16
import PwVerif.Props.C19
import PwVerif.Driver
