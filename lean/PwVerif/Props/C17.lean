import PwVerif.Model.Restart
import PwVerif.Gen.Tables
/-!
# C17 — restart() always yields a fresh, equivalent, live worker
-/
namespace PwVerif.C17
open PwVerif.Restart PwVerif.Gen

/-- **fresh and equivalent.** From any state, a restart that does not raise gives a live, open worker
    with the same constructor data, the new identity, counter 0 and an empty stream, and the last
    synchronised user state. -/
theorem C17_fresh (w w' : W) (fresh : Nat) (h : restart w fresh = .ok w') :
    w'.alive = true ∧ w'.closed = false ∧ w'.counter = 0 ∧ w'.stream = [] ∧ w'.ctor = w.ctor ∧
    w'.ident = fresh ∧ w'.userState = w.userState := by
  unfold restart at h
  split at h
  · cases h
  · cases h; simp

/-- **raises if stuck.** If the old incarnation cannot be stopped, restart raises and nothing changed:
    in particular no second child was started. -/
theorem C17_raises_if_stuck (w : W) (fresh : Nat) (ha : w.alive = true) (hs : w.stoppable = false) :
    restart w fresh = .raised w := by
  simp [restart, ha, hs]

theorem C17_ok_otherwise (w : W) (fresh : Nat) (h : w.alive = false ∨ w.stoppable = true) :
    ∃ w', restart w fresh = .ok w' := by
  unfold restart
  rcases h with h | h <;> simp [h]

/-- **no old results.** Whatever the old stream held, after a restart every result ever read was
    produced by the new incarnation, and the counter counts exactly the new enqueues. -/
theorem C17_no_old_results (w w' : W) (fresh : Nat) (vs : List Nat) (h : restart w fresh = .ok w') :
    (∀ r ∈ (works w' vs).stream, r.1 = fresh) ∧ (works w' vs).counter = vs.length ∧
    (works w' vs).stream.map (·.2) = vs := by
  obtain ⟨ha, hc, hn, hs, _, hi, _⟩ := C17_fresh w w' fresh h
  have key : ∀ (vs : List Nat) (x : W), x.alive = true → x.closed = false → x.ident = fresh →
      (∀ r ∈ x.stream, r.1 = fresh) →
      (∀ r ∈ (works x vs).stream, r.1 = fresh) ∧ (works x vs).counter = x.counter + vs.length ∧
      (works x vs).stream.map (·.2) = x.stream.map (·.2) ++ vs := by
    intro vs
    induction vs with
    | nil => intro x _ _ _ hx; exact ⟨hx, by simp [works], by simp [works]⟩
    | cons v vs ih =>
      intro x ha hc hi hx
      have hw : work x v = { x with counter := x.counter + 1, stream := x.stream ++ [(x.ident, v)] } := by
        simp [work, ha, hc]
      obtain ⟨h1, h2, h3⟩ := ih (work x v) (by rw [hw]; exact ha) (by rw [hw]; exact hc) (by rw [hw]; exact hi)
        (by
          rw [hw]; intro r hr
          simp only [List.mem_append, List.mem_singleton] at hr
          rcases hr with hr | hr
          · exact hx r hr
          · rw [hr]; exact hi)
      refine ⟨h1, ?_, ?_⟩
      · simp only [works]; rw [h2, hw]; simp; omega
      · simp only [works]; rw [h3, hw]; simp
  have := key vs w' ha hc hi (by rw [hs]; simp)
  simpa [hn, hs] using this

/-- a chain of restarts, each of which must succeed -/
def restarts : W → List Nat → Option W
  | w, [] => some w
  | w, i :: is => match restart w i with
    | .ok y => restarts y is
    | .raised _ => none

/-- iterated restarts: the constructor data survives any number of them -/
theorem C17_chain (w w' : W) (ids : List Nat) (h : restarts w ids = some w') : w'.ctor = w.ctor := by
  induction ids generalizing w with
  | nil => simp [restarts] at h; rw [← h]
  | cons i is ih =>
    simp only [restarts] at h
    cases hr : restart w i with
    | raised x => rw [hr] at h; cases h
    | ok y =>
      rw [hr] at h
      rw [ih y h, (C17_fresh w y i hr).2.2.2.2.1]

/-- the constructor arguments `restart` re-uses (regenerated from /repo): target positionally, and
    args / kwargs / name / userid / init_state by keyword - each taken from the attribute that holds it;
    the remote kind adds host and context. -/
theorem C17_restart_args :
    restartPositional = ["self._target"] ∧
    ("args", "self._args") ∈ restartKeys ∧ ("kwargs", "self._kwargs") ∈ restartKeys ∧
    ("name", "self._name") ∈ restartKeys ∧ ("userid", "self._userid") ∈ restartKeys ∧
    ("init_state", "self._user_state") ∈ restartKeys ∧ ("run", "self._do_run") ∈ restartKeys ∧
    ("host", "self._target_host") ∈ remoteRestartKeys ∧ ("context", "self._context") ∈ remoteRestartKeys := by
  decide

example : restart ⟨⟨1, [2], 3, 4, 5, 6⟩, 7, true, true, 9, [(7, 1)], 0, false⟩ 8 = .raised ⟨⟨1, [2], 3, 4, 5, 6⟩, 7, true, true, 9, [(7, 1)], 0, false⟩ := by decide

end PwVerif.C17
