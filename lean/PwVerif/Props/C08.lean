import PwVerif.Model.Pool
namespace PwVerif.C08
open PwVerif.Pool
theorem placeholder : True := trivial
end PwVerif.C08
