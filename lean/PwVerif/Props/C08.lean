import PwVerif.Lemmas.Pool
/-!
# C08 — Pool failure reports are sound

Same model and configuration as C07 (`Plain`: retry on, results returned, no `enqueue_fn`).
-/
namespace PwVerif.C08
open PwVerif.Pool

/-- **partial results are genuine.** Whatever the outcome, the results collected so far contain every
    input at most as often as it was given - in particular `PoolError.partial_results`. -/
theorem C08_partial_genuine (c : Cfg) (hc : Plain c) (pick : List Nat → Option Nat) (hp : PickOK pick)
    (n : Nat) (src : List Inp) (pre evs : List Ev) (i : Inp) :
    (runEvents c pick (start c pick n src pre) evs).ret.count i ≤ src.count i := by
  have := (inv_runEvents hc hp evs _ (inv_start hc hp n src pre)).cons i
  simp only [cnt] at this
  omega

theorem C08_poolerror_partial (c : Cfg) (hc : Plain c) (pick : List Nat → Option Nat) (hp : PickOK pick)
    (n : Nat) (src : List Inp) (pre evs : List Ev) (part : List Inp)
    (h : outcome (runEvents c pick (start c pick n src pre) evs) = .poolError part) :
    ∀ i, part.count i ≤ src.count i := by
  intro i
  have hg := C08_partial_genuine c hc pick hp n src pre evs i
  generalize runEvents c pick (start c pick n src pre) evs = s at h hg
  unfold outcome at h
  split at h
  · cases h
  · split at h
    · cases h
    · split at h
      · cases h
      · simp only [Outcome.poolError.injEq] at h
        subst h; exact hg

/-- when the run stops although inputs are left (PoolError), nothing is pending any more: every worker
    that was handed work has answered or has been declared dead -/
theorem C08_stops_only_when_idle_or_all_closed (s : St) (h : running s = false) :
    s.pending = 0 ∨ ∀ x ∈ s.ws, x.closed = true := by
  simp only [running, Bool.and_eq_false_iff, List.any_eq_false] at h
  rcases h with h | h
  · left; simpa using h
  · right; intro x hx; simpa using h x hx

example : outcome (runEvents {} pickFirst (start {} pickFirst 1 [1, 2]) [.die 0 true, .poll [0]]) = .poolError [] := by
  decide +kernel

end PwVerif.C08
