import PwVerif.Lemmas.PoolK
/-!
# C08 — Pool failure reports are sound

Same model as C07. `C08_partial_genuine` / `C08_poolerror_partial` hold for `Retrying` (retry on, results
returned, **any** user `enqueue_fn`); `C08_sound` / `C08_survivor` for `Plain` (no `enqueue_fn`: a function
that refuses an input for every live worker ends the run with PoolError although nobody died - outside the
property's premise "every worker has died or been closed" only in the sense that the user asked for it).
The retry-off clause is Props/C08NoRetry.lean.
-/
namespace PwVerif.C08
open PwVerif.Pool

/-- **partial results are genuine.** Whatever the outcome, the results collected so far contain every
    input at most as often as it was given - in particular `PoolError.partial_results`. -/
theorem C08_partial_genuine (c : Cfg) (hc : Retrying c) (pick : List Nat → Option Nat) (hp : PickOK pick)
    (n : Nat) (src : List Inp) (pre evs : List Ev) (i : Inp) :
    (runEvents c pick (start c pick n src pre) evs).ret.count i ≤ src.count i := by
  have := (inv_runEvents hc hp evs _ (inv_start hc hp n src pre)).cons i
  simp only [cnt] at this
  omega

theorem C08_poolerror_partial (c : Cfg) (hc : Retrying c) (pick : List Nat → Option Nat) (hp : PickOK pick)
    (n : Nat) (src : List Inp) (pre evs : List Ev) (part : List Inp)
    (h : outcome (runEvents c pick (start c pick n src pre) evs) = .poolError part) :
    ∀ i, part.count i ≤ src.count i := by
  intro i
  have hg := C08_partial_genuine c hc pick hp n src pre evs i
  generalize runEvents c pick (start c pick n src pre) evs = s at h hg
  unfold outcome at h
  split at h
  · cases h
  · split at h
    · cases h
    · split at h
      · cases h
      · simp only [Outcome.poolError.injEq] at h
        subst h; exact hg

/-- when the run stops although inputs are left (PoolError), nothing is pending any more: every worker
    that was handed work has answered or has been declared dead -/
theorem C08_stops_only_when_idle_or_all_closed (s : St) (h : running s = false) :
    s.pending = 0 ∨ ∀ x ∈ s.ws, x.closed = true := by
  simp only [running, Bool.and_eq_false_iff, List.any_eq_false] at h
  rcases h with h | h
  · left; simpa using h
  · right; intro x hx; simpa using h x hx

/-- **C08 soundness of PoolError.** Whenever the run ends with `PoolError`, every worker of the pool has been
    closed (declared dead): with one usable worker left the run cannot fail. Invariant `K` (Lemmas/PoolK.lean):
    an idle usable worker exists only when the retry list is empty and the input has been found depleted. -/
theorem C08_sound (c : Cfg) (hc : Plain c) (pick : List Nat → Option Nat) (hp : PickOK pick) (ht : PickTotal pick)
    (n : Nat) (src : List Inp) (pre evs : List Ev) (part : List Inp)
    (h : outcome (runEvents c pick (start c pick n src pre) evs) = .poolError part) :
    ∀ x ∈ (runEvents c pick (start c pick n src pre) evs).ws, x.closed = true := by
  have hinv := inv_runEvents hc.toRetrying hp evs _ (inv_start hc.toRetrying hp n src pre)
  have hK := K_runEvents hc hp ht evs _ (K_start hc hp n src pre)
  generalize runEvents c pick (start c pick n src pre) evs = s at h hinv hK
  unfold outcome at h
  split at h
  · cases h
  · split at h
    · cases h
    · rename_i hrun
      split at h
      · cases h
      · rename_i hnot
        -- not running: nothing pending, or everybody closed
        have hstop := C08_stops_only_when_idle_or_all_closed s (by simpa using hrun)
        rcases hstop with hpend | hall
        · -- nothing pending: a worker that is not closed would be idle, hence the run would be quiet: it returns
          intro x hx
          cases hcl : x.closed with
          | true => rfl
          | false =>
            exfalso
            have hlen : ppwLen s = 0 := by
              have := hinv.pending
              rw [hpend] at this
              omega
            have hall : ∀ (l : List Worker), (l.map fun x => x.ppw.length).sum = 0 → ∀ x ∈ l, x.ppw = [] := by
              intro l
              induction l with
              | nil => intro _ x hx; simp at hx
              | cons a as ih =>
                intro hs x hx
                simp only [List.map_cons, List.sum_cons] at hs
                simp only [List.mem_cons] at hx
                rcases hx with rfl | hx
                · exact List.length_eq_zero_iff.mp (by omega)
                · exact ih (by omega) x hx
            have hp0 := hall s.ws hlen x hx
            obtain ⟨j, hj, hget⟩ := List.getElem_of_mem hx
            rcases hK with hno | hq
            · have := hno j hj
              simp [CN, isIdle, getW_eq s j hj, hget, hp0, hcl] at this
            · apply hnot
              simp [hq.1, hq.2, hpend]
        · exact hall

/-- ... equivalently: while one worker has not been closed the run completes normally -/
theorem C08_survivor (c : Cfg) (hc : Plain c) (pick : List Nat → Option Nat) (hp : PickOK pick) (ht : PickTotal pick)
    (n : Nat) (src : List Inp) (pre evs : List Ev)
    (hx : ∃ x ∈ (runEvents c pick (start c pick n src pre) evs).ws, x.closed = false) (part : List Inp) :
    outcome (runEvents c pick (start c pick n src pre) evs) ≠ .poolError part := by
  intro h
  obtain ⟨x, hm, hcl⟩ := hx
  have := C08_sound c hc pick hp ht n src pre evs part h x hm
  rw [hcl] at this; cases this

example : outcome (runEvents {} pickFirst (start {} pickFirst 1 [1, 2]) [.die 0 true, .poll [0]]) = .poolError [] := by
  decide +kernel

end PwVerif.C08
