import PwVerif.Model.Contexts
import PwVerif.Model.Server
import PwVerif.Gen.ServerLoop
/-!
# C18 — remote contexts are unique per id, supply their workers' work, and clean up
-/
namespace PwVerif.C18
open PwVerif.Contexts

/-- abstraction: the set of registered ids -/
def abs (t : Table) : Nat → Bool := has t

theorem has_iff (t : Table) (j : Nat) : has t j = true ↔ ∃ x ∈ t, x.1 = j := by
  simp [has, List.any_eq_true]

theorem has_append (t : Table) (i j : Nat) : has (t ++ [(i, i)]) j = (has t j || j == i) := by
  rw [Bool.eq_iff_iff]
  simp only [has_iff, Bool.or_eq_true, beq_iff_eq, List.mem_append, List.mem_singleton]
  constructor
  · rintro ⟨x, hx | hx, h⟩
    · exact Or.inl ⟨x, hx, h⟩
    · subst hx; exact Or.inr h.symm
  · rintro (⟨x, hx, h⟩ | h)
    · exact ⟨x, Or.inl hx, h⟩
    · exact ⟨(i, i), Or.inr rfl, h.symm⟩

theorem has_filter (t : Table) (i j : Nat) : has (t.filter (·.1 != i)) j = (j != i && has t j) := by
  rw [Bool.eq_iff_iff]
  simp only [has_iff, Bool.and_eq_true, bne_iff_ne, ne_eq, List.mem_filter]
  constructor
  · rintro ⟨x, ⟨hx, hne⟩, h⟩
    subst h
    exact ⟨hne, x, hx, rfl⟩
  · rintro ⟨hne, x, hx, h⟩
    subst h
    exact ⟨x, ⟨hx, hne⟩, rfl⟩

/-- one step of the server's table refines one step of the dictionary specification -/
theorem step_refines (t : Table) (op : Op) :
    (step t op).2 = (specStep (abs t) op).2 ∧ ∀ j, abs (step t op).1 j = (specStep (abs t) op).1 j := by
  cases op with
  | create i =>
    simp only [step, specStep, abs]
    by_cases h : has t i = true
    · simp [h]
    · have h' : has t i = false := by simpa using h
      simp only [h', Bool.false_eq_true, if_false, true_and]
      intro j
      rw [has_append, Bool.or_comm]
  | delete i =>
    simp only [step, specStep, abs, true_and]
    intro j; exact has_filter t i j
  | workerIn i =>
    simp only [step, specStep, abs]
    by_cases h : has t i = true <;> simp [h]

/-- **C18 refinement.** For every operation history the replies of the server's table are those of
    the dictionary specification, and the set of registered ids is the specification's set:
    a duplicate create is refused and changes nothing, a delete frees the id (whether or not it
    existed), an id can be registered again afterwards, and requests naming an unknown context
    are refused without touching the table. -/
theorem C18_refines (ops : List Op) (t : Table) (s : Nat → Bool) (h : ∀ j, abs t j = s j) :
    (run t ops).2 = (specRun s ops).2 ∧ ∀ j, abs (run t ops).1 j = (specRun s ops).1 j := by
  induction ops generalizing t s with
  | nil => exact ⟨rfl, h⟩
  | cons op ops ih =>
    have hs : s = abs t := funext fun j => (h j).symm
    subst hs
    obtain ⟨hr, ha⟩ := step_refines t op
    obtain ⟨ihr, iha⟩ := ih (step t op).1 (specStep (abs t) op).1 ha
    simp only [run, specRun]
    exact ⟨by rw [hr, ihr], iha⟩

/-- duplicate registration leaves the first context intact -/
theorem C18_duplicate (t : Table) (i : Nat) (h : has t i = true) : step t (.create i) = (t, .exists) := by
  simp [step, h]

/-- after a delete the id is free and can be registered again -/
theorem C18_reregister (t : Table) (i : Nat) :
    (step (step t (.delete i)).1 (.create i)).2 = .ok := by
  have : has (t.filter (·.1 != i)) i = false := by rw [has_filter]; simp
  simp [step, this]

/-- an unknown context never changes the table (and, by `C11_policy`, never stops the server) -/
theorem C18_unknown_harmless (t : Table) (i : Nat) (h : has t i = false) :
    step t (.workerIn i) = (t, .refused) := by
  simp [step, h]

example : (run [] [.create 1, .create 1, .workerIn 1, .workerIn 2, .delete 1, .workerIn 1, .create 1, .delete 7]).2
    = [.ok, .exists, .ok, .refused, .ok, .refused, .ok, .ok] := by decide

/-! ## At most one context per id, at every moment of every history -/

theorem not_has_iff (t : Table) (i : Nat) : has t i = false ↔ i ∉ t.map (·.1) := by
  rw [← Bool.not_eq_true, has_iff]
  simp

theorem keys_step (t : Table) (op : Op) (h : (t.map (·.1)).Nodup) : ((step t op).1.map (·.1)).Nodup := by
  cases op with
  | create i =>
    simp only [step]
    by_cases hi : has t i = true
    · simpa [hi] using h
    · have hi' : has t i = false := by simpa using hi
      simp only [hi', Bool.false_eq_true, if_false, List.map_append, List.map_cons, List.map_nil]
      refine List.nodup_append.mpr ⟨h, by simp, ?_⟩
      intro a ha b hb
      simp at hb; subst hb
      intro e; subst e
      exact (not_has_iff t a).mp hi' ha
  | delete i =>
    simp only [step]
    exact (List.filter_sublist.map _).nodup h
  | workerIn i =>
    simp only [step]
    split <;> exact h

/-- **C18 uniqueness.** Whatever the history of requests (duplicates, deletes of unknown ids,
    re-registrations, workers in known and unknown contexts), the server's table never holds two
    contexts under one id. -/
theorem C18_unique (ops : List Op) : (((run [] ops).1).map (·.1)).Nodup := by
  suffices h : ∀ t : Table, (t.map (·.1)).Nodup → (((run t ops).1).map (·.1)).Nodup from h [] (by simp)
  induction ops with
  | nil => intro t h; simpa [run] using h
  | cons op ops ih =>
    intro t h
    simp only [run]
    exact ih _ (keys_step t op h)

/-- **C18 clean-up.** A delete leaves nothing of that id in the table (no entry survives that a
    later worker request could reach), and touches no other context. -/
theorem C18_delete_leaves_nothing (t : Table) (i : Nat) :
    (∀ x ∈ (step t (.delete i)).1, x.1 ≠ i) ∧ ∀ x ∈ t, x.1 ≠ i → x ∈ (step t (.delete i)).1 := by
  simp only [step]
  constructor
  · intro x hx; simpa using (List.mem_filter.mp hx).2
  · intro x hx hne; exact List.mem_filter.mpr ⟨hx, by simpa using hne⟩

example : ((run [] [.create 1, .create 2, .create 1, .delete 1, .create 1, .create 3, .delete 9]).1).map (·.1)
    = [2, 1, 3] := by decide

end PwVerif.C18
