import PwVerif.Model.Contexts
import PwVerif.Model.Server
import PwVerif.Gen.ServerLoop
/-!
# C18 — remote contexts are unique per id, supply their workers' work, and clean up
-/
namespace PwVerif.C18
open PwVerif.Contexts

/-- abstraction: the set of registered ids -/
def abs (t : Table) : Nat → Bool := has t

theorem has_iff (t : Table) (j : Nat) : has t j = true ↔ ∃ x ∈ t, x.1 = j := by
  simp [has, List.any_eq_true]

theorem has_append (t : Table) (i p j : Nat) : has (t ++ [(i, p)]) j = (has t j || j == i) := by
  rw [Bool.eq_iff_iff]
  simp only [has_iff, Bool.or_eq_true, beq_iff_eq, List.mem_append, List.mem_singleton]
  constructor
  · rintro ⟨x, hx | hx, h⟩
    · exact Or.inl ⟨x, hx, h⟩
    · subst hx; exact Or.inr h.symm
  · rintro (⟨x, hx, h⟩ | h)
    · exact ⟨x, Or.inl hx, h⟩
    · exact ⟨(i, p), Or.inr rfl, h.symm⟩

theorem has_filter (t : Table) (i j : Nat) : has (t.filter (·.1 != i)) j = (j != i && has t j) := by
  rw [Bool.eq_iff_iff]
  simp only [has_iff, Bool.and_eq_true, bne_iff_ne, ne_eq, List.mem_filter]
  constructor
  · rintro ⟨x, ⟨hx, hne⟩, h⟩
    subst h
    exact ⟨hne, x, hx, rfl⟩
  · rintro ⟨hne, x, hx, h⟩
    subst h
    exact ⟨x, ⟨hx, hne⟩, rfl⟩

/-- one step of the server's table refines one step of the dictionary specification -/
theorem step_refines (t : Table) (op : Op) :
    (step t op).2 = (specStep (abs t) op).2 ∧ ∀ j, abs (step t op).1 j = (specStep (abs t) op).1 j := by
  cases op with
  | create i p =>
    simp only [step, specStep, abs]
    by_cases h : has t i = true
    · simp [h]
    · have h' : has t i = false := by simpa using h
      simp only [h', Bool.false_eq_true, if_false, true_and]
      intro j
      rw [has_append, Bool.or_comm]
  | delete i =>
    simp only [step, specStep, abs, true_and]
    intro j; exact has_filter t i j
  | workerIn i =>
    simp only [step, specStep, abs]
    by_cases h : has t i = true <;> simp [h]

/-- **C18 refinement.** For every operation history the replies of the server's table are those of
    the dictionary specification, and the set of registered ids is the specification's set:
    a duplicate create is refused and changes nothing, a delete frees the id (whether or not it
    existed), an id can be registered again afterwards, and requests naming an unknown context
    are refused without touching the table. -/
theorem C18_refines (ops : List Op) (t : Table) (s : Nat → Bool) (h : ∀ j, abs t j = s j) :
    (run t ops).2 = (specRun s ops).2 ∧ ∀ j, abs (run t ops).1 j = (specRun s ops).1 j := by
  induction ops generalizing t s with
  | nil => exact ⟨rfl, h⟩
  | cons op ops ih =>
    have hs : s = abs t := funext fun j => (h j).symm
    subst hs
    obtain ⟨hr, ha⟩ := step_refines t op
    obtain ⟨ihr, iha⟩ := ih (step t op).1 (specStep (abs t) op).1 ha
    simp only [run, specRun]
    exact ⟨by rw [hr, ihr], iha⟩

/-- duplicate registration leaves the first context intact -/
theorem C18_duplicate (t : Table) (i p : Nat) (h : has t i = true) : step t (.create i p) = (t, .exists) := by
  simp [step, h]

/-- after a delete the id is free and can be registered again -/
theorem C18_reregister (t : Table) (i p : Nat) :
    (step (step t (.delete i)).1 (.create i p)).2 = .ok := by
  have : has (t.filter (·.1 != i)) i = false := by rw [has_filter]; simp
  simp [step, this]

/-- an unknown context never changes the table (and, by `C11_policy`, never stops the server) -/
theorem C18_unknown_harmless (t : Table) (i : Nat) (h : has t i = false) :
    step t (.workerIn i) = (t, .refused) := by
  simp [step, h]

example : (run [] [.create 1 0, .create 1 1, .workerIn 1, .workerIn 2, .delete 1, .workerIn 1, .create 1 2, .delete 7]).2
    = [.ok, .exists, .ok, .refused, .ok, .refused, .ok, .ok] := by decide

/-! ## At most one context per id, at every moment of every history -/

theorem not_has_iff (t : Table) (i : Nat) : has t i = false ↔ i ∉ t.map (·.1) := by
  rw [← Bool.not_eq_true, has_iff]
  simp

theorem keys_step (t : Table) (op : Op) (h : (t.map (·.1)).Nodup) : ((step t op).1.map (·.1)).Nodup := by
  cases op with
  | create i p =>
    simp only [step]
    by_cases hi : has t i = true
    · simpa [hi] using h
    · have hi' : has t i = false := by simpa using hi
      simp only [hi', Bool.false_eq_true, if_false, List.map_append, List.map_cons, List.map_nil]
      refine List.nodup_append.mpr ⟨h, by simp, ?_⟩
      intro a ha b hb
      simp at hb; subst hb
      intro e; subst e
      exact (not_has_iff t a).mp hi' ha
  | delete i =>
    simp only [step]
    exact (List.filter_sublist.map _).nodup h
  | workerIn i =>
    simp only [step]
    split <;> exact h

/-- **C18 uniqueness.** Whatever the history of requests (duplicates, deletes of unknown ids,
    re-registrations, workers in known and unknown contexts), the server's table never holds two
    contexts under one id. -/
theorem C18_unique (ops : List Op) : (((run [] ops).1).map (·.1)).Nodup := by
  suffices h : ∀ t : Table, (t.map (·.1)).Nodup → (((run t ops).1).map (·.1)).Nodup from h [] (by simp)
  induction ops with
  | nil => intro t h; simpa [run] using h
  | cons op ops ih =>
    intro t h
    simp only [run]
    exact ih _ (keys_step t op h)

/-- **C18 clean-up.** A delete leaves nothing of that id in the table (no entry survives that a
    later worker request could reach), and touches no other context. -/
theorem C18_delete_leaves_nothing (t : Table) (i : Nat) :
    (∀ x ∈ (step t (.delete i)).1, x.1 ≠ i) ∧ ∀ x ∈ t, x.1 ≠ i → x ∈ (step t (.delete i)).1 := by
  simp only [step]
  constructor
  · intro x hx; simpa using (List.mem_filter.mp hx).2
  · intro x hx hne; exact List.mem_filter.mpr ⟨hx, by simpa using hne⟩

example : ((run [] [.create 1 0, .create 2 0, .create 1 1, .delete 1, .create 1 2, .create 3 0, .delete 9]).1).map (·.1)
    = [2, 1, 3] := by decide

/-! ## Which context serves a worker request -/

theorem serves_none_iff (t : Table) (i : Nat) : serves t i = none ↔ has t i = false := by
  induction t with
  | nil => simp [serves, has]
  | cons x t ih =>
    obtain ⟨k, p⟩ := x
    by_cases h : k = i
    · simp [serves, has, h]
    · have hb : (k == i) = false := by simpa using h
      simp only [serves, hb, Bool.false_eq_true, if_false, ih]
      simp [has, hb]

theorem serves_append (t : Table) (i p j : Nat) (h : has t i = false) :
    serves (t ++ [(i, p)]) j = if j == i then some p else serves t j := by
  induction t with
  | nil =>
    by_cases e : i = j
    · subst e; simp [serves]
    · have : ¬ j = i := fun e' => e e'.symm
      simp [serves, e, this]
  | cons x t ih =>
    obtain ⟨k, q⟩ := x
    have hk : (k == i) = false ∧ has t i = false := by
      simp only [has, List.any_cons, Bool.or_eq_false_iff] at h
      exact h
    by_cases e : k = j
    · subst e
      have : ¬ k = i := by simpa using hk.1
      simp [serves, this]
    · simp only [List.cons_append, serves]
      have hb : (k == j) = false := by simpa using e
      simp only [hb, Bool.false_eq_true, if_false]
      exact ih hk.2

theorem serves_filter (t : Table) (i j : Nat) :
    serves (t.filter (·.1 != i)) j = if j == i then none else serves t j := by
  induction t with
  | nil => simp [serves]
  | cons x t ih =>
    obtain ⟨k, q⟩ := x
    by_cases e : k = i
    · subst e
      simp only [List.filter_cons, bne_self_eq_false, Bool.false_eq_true, if_false, ih, serves]
      by_cases e2 : j = k
      · subst e2; simp
      · have : ¬ k = j := fun e' => e2 e'.symm
        simp [e2, this]
    · have hb : ((k, q).1 != i) = true := by simpa using e
      simp only [List.filter_cons, hb, if_true, serves, ih]
      by_cases e2 : k = j
      · subst e2; simp [e]
      · simp [e2]

theorem serve_step (t : Table) (op : Op) (j : Nat) :
    serves (step t op).1 j = specServe (serves t) op j := by
  cases op with
  | create i p =>
    simp only [step, specServe]
    by_cases h : has t i = true
    · have : (serves t i).isSome = true := by
        rw [Option.isSome_iff_ne_none]; intro hn; rw [serves_none_iff] at hn; simp [hn] at h
      simp [h, this]
    · have h' : has t i = false := by simpa using h
      have : (serves t i).isSome = false := by
        rw [(serves_none_iff t i).mpr h']; rfl
      simp only [h', Bool.false_eq_true, if_false, this]
      exact serves_append t i p j h'
  | delete i => simp only [step, specServe]; exact serves_filter t i j
  | workerIn i => simp only [step, specServe]; split <;> rfl

/-- **C18: workers get their own context's work.** After every history the context that the server
    hands a worker request for id `j` to is the one the dictionary specification holds under `j`:
    the payload (target and defaults) of the *first* successful registration of `j` since the last
    delete of `j` - a refused duplicate never replaces it, deletes and registrations of other ids
    never disturb it, and after a delete nothing of the old context is served. -/
theorem C18_serves_own (ops : List Op) (t : Table) (j : Nat) :
    serves (run t ops).1 j = specServeRun (serves t) ops j := by
  induction ops generalizing t with
  | nil => rfl
  | cons op ops ih =>
    simp only [run, specServeRun]
    rw [ih]
    have : serves (step t op).1 = specServe (serves t) op := funext (serve_step t op)
    rw [this]

/-- A worker request is accepted exactly when a context is served for it. -/
theorem C18_accepts_iff_served (t : Table) (i : Nat) :
    (step t (.workerIn i)).2 = .ok ↔ (serves t i).isSome = true := by
  by_cases h : has t i = true
  · have : serves t i ≠ none := fun hn => by rw [serves_none_iff] at hn; simp [hn] at h
    simp [step, h, Option.isSome_iff_ne_none, this]
  · have h' : has t i = false := by simpa using h
    simp [step, h', (serves_none_iff t i).mpr h']

example : serves (run [] [.create 1 10, .create 2 20, .create 1 11, .delete 2, .create 2 21, .delete 3]).1 1 = some 10
    ∧ serves (run [] [.create 1 10, .create 2 20, .create 1 11, .delete 2, .create 2 21, .delete 3]).1 2 = some 21 := by decide

end PwVerif.C18
