import PwVerif.Lemmas.PyLoop
import PwVerif.Gen.RunLoops
/-!
# C05 on the regenerated programs, for an unbounded number of items

`Props/C05.lean` proves the stream clauses of C05 for the hand-written `Model/Stream.lean`. Here the same facts are
proved about the **regenerated** child-side programs of the three persistent kinds (`Gen/RunLoops.lean`, translated
from `/repo` on every run), for **every** number `n` of enqueued items - not for two items as in
`C06_generated_*`: an undisturbed run that receives `n` items and then the release marker (what `close()` /
`wait()` send)

* ends normally,
* has written exactly `n` result messages with counters `1..n`, in order, followed by exactly one end marker that
  carries `n`,
* reports success with the counter equal to `n` (`result == number of enqueues == number of results`).

The loop of each program is found by `firstWhileL`; the per-iteration facts (`ItemSpec`, `ReleaseSpec`) are
obtained by symbolic evaluation of the generated loop body, the unbounded statement by `loop_generic`, and the
statements around the loop by symbolic evaluation of the generated program with the loop replaced by its
summary. No line number of the generated code is quoted here, so renumbering the source does not touch the proofs.
-/
namespace PwVerif.C05
open PwVerif.Py PwVerif.Gen

/-- the first `n` result messages: counters `1..n` -/
theorem itemsFrom_eq (c n : Nat) : itemsFrom c n = (List.range n).map (fun k => Msg.item (c + k + 1)) := by
  induction n generalizing c with
  | zero => rfl
  | succ n ih =>
    simp only [itemsFrom, ih, List.range_succ_eq_map, List.map_cons, List.map_map]
    congr 1
    apply List.map_congr_left
    intro a _; simp only [Function.comp]; congr 1; omega

/-- the environment of the theorems: the target returns, is not `None`, does not assign `user_state` -/
structure Returns (env : Env) : Prop where
  ret : env.target = .returns
  tn : env.targetNone = false
  na : env.assigns = false

def pthreadW : Stmt := (firstWhileL pthreadRun).getD (.brk 0)
def pprocessW : Stmt := (firstWhileL pprocessRun).getD (.brk 0)
def premoteW : Stmt := (firstWhileL premoteRun).getD (.brk 0)

/-- the three generated programs do contain a loop -/
example : (firstWhileL pthreadRun).isSome ∧ (firstWhileL pprocessRun).isSome ∧ (firstWhileL premoteRun).isSome := by
  decide +kernel

set_option maxRecDepth 8000 in
theorem pthread_loop (env : Env) (he : Returns env) :
    ∀ n : Nat, ∃ F, ∀ (st : St) (tail : List Input), st.inputs = List.replicate n .item ++ .release :: tail →
      Quiet st → loopPost st n tail (exec env F st pthreadW) := by
  have hW : pthreadW = .whileS _ _ _ := rfl
  rw [hW]
  apply loop_generic env 40
  · intro st hs; simp [evalCond, hs]
  · intro st rest hi hq
    simp [exec, execBlock, execHandlers, lineEvent, doActs, doAct, evalCond, Catch.catches, hi, hq.left, hq.inflight, hq.stop,
      he.ret, he.tn, he.na]
  · intro st rest hi hq
    simp [exec, execBlock, execHandlers, lineEvent, doActs, doAct, evalCond, Catch.catches, hi, hq.left, hq.inflight, hq.stop,
      he.ret, he.tn, he.na]

set_option maxRecDepth 8000 in
theorem pprocess_loop (env : Env) (he : Returns env) :
    ∀ n : Nat, ∃ F, ∀ (st : St) (tail : List Input), st.inputs = List.replicate n .item ++ .release :: tail →
      Quiet st → loopPost st n tail (exec env F st pprocessW) := by
  have hW : pprocessW = .whileS _ _ _ := rfl
  rw [hW]
  apply loop_generic env 40
  · intro st hs; simp [evalCond, hs]
  · intro st rest hi hq
    simp [exec, execBlock, execHandlers, lineEvent, doActs, doAct, evalCond, Catch.catches, hi, hq.left, hq.inflight, hq.stop,
      he.ret, he.tn, he.na]
  · intro st rest hi hq
    simp [exec, execBlock, execHandlers, lineEvent, doActs, doAct, evalCond, Catch.catches, hi, hq.left, hq.inflight, hq.stop,
      he.ret, he.tn, he.na]

set_option maxRecDepth 8000 in
theorem premote_loop (env : Env) (he : Returns env) :
    ∀ n : Nat, ∃ F, ∀ (st : St) (tail : List Input), st.inputs = List.replicate n .item ++ .release :: tail →
      Quiet st → loopPost st n tail (exec env F st premoteW) := by
  have hW : premoteW = .whileS _ _ _ := rfl
  rw [hW]
  apply loop_generic env 40
  · intro st hs; simp [evalCond, hs]
  · intro st rest hi hq
    simp [exec, execBlock, execHandlers, lineEvent, doActs, doAct, evalCond, Catch.catches, hi, hq.left, hq.inflight, hq.stop,
      he.ret, he.tn, he.na]
  · intro st rest hi hq
    simp [exec, execBlock, execHandlers, lineEvent, doActs, doAct, evalCond, Catch.catches, hi, hq.left, hq.inflight, hq.stop,
      he.ret, he.tn, he.na]

/-- what an undisturbed run on `n` items and the release marker leaves behind -/
structure Delivered (n : Nat) (r : St × Out) : Prop where
  normal : r.2 = .normal
  results : r.1.results = (List.range n).map (fun k => Msg.item (k + 1)) ++ [.endMarker n]
  counter : r.1.counter = n
  consumed : r.1.inputs = []

theorem delivered_mono (env : Env) (prog : List Stmt) (st : St) (n F : Nat)
    (h : Delivered n (execBlock env F st prog)) : ∀ G, F ≤ G → Delivered n (execBlock env G st prog) := by
  intro G hG
  rw [execBlock_mono env rfl (by rw [h.normal]; simp) G hG]
  exact h

set_option maxRecDepth 8000 in
/-- **C05 on the regenerated `PersistentThreadWorker` program, any number of items.** -/
theorem C05_generated_unbounded_thread (env : Env) (he : Returns env) (n : Nat) :
    ∃ F0, ∀ F, F0 ≤ F →
      Delivered n (execBlock env F { inputs := List.replicate n .item ++ [.release] } pthreadRun) ∧
      (execBlock env F { inputs := List.replicate n .item ++ [.release] } pthreadRun).1.result = some none := by
  obtain ⟨F, hF⟩ := pthread_loop env he n
  have hW : pthreadW = .whileS _ _ _ := rfl
  have hrule := loop_rule env pthreadW n F hF
  rw [hW] at hrule
  have key : Delivered n (execBlock env (F + 60) { inputs := List.replicate n .item ++ [.release] } pthreadRun) ∧
      (execBlock env (F + 60) { inputs := List.replicate n .item ++ [.release] } pthreadRun).1.result = some none := by
    refine ⟨⟨?_, ?_, ?_, ?_⟩, ?_⟩ <;>
    simp [pthreadRun, exec_line, exec_ret, exec_brk, exec_call, exec_ifS, exec_tryS, execBlock, execHandlers, lineEvent, doActs, doAct,
      evalCond, Catch.catches, hrule, he.ret, he.tn, he.na, itemsFrom_eq]
  refine ⟨F + 60, fun G hG => ?_⟩
  have hd := delivered_mono env _ _ n _ key.1 G hG
  refine ⟨hd, ?_⟩
  rw [execBlock_mono env rfl (by rw [key.1.normal]; simp) G hG]
  exact key.2

set_option maxRecDepth 8000 in
/-- **C05 on the regenerated `PersistentProcessWorker` program, any number of items**: the final message to the
    parent is `((True, counter), user_state)`. -/
theorem C05_generated_unbounded_process (env : Env) (he : Returns env) (n : Nat) :
    ∃ F0, ∀ F, F0 ≤ F →
      Delivered n (execBlock env F { inputs := List.replicate n .item ++ [.release] } pprocessRun) ∧
      (execBlock env F { inputs := List.replicate n .item ++ [.release] } pprocessRun).1.comms = [.info, .final none 0] := by
  obtain ⟨F, hF⟩ := pprocess_loop env he n
  have hW : pprocessW = .whileS _ _ _ := rfl
  have hrule := loop_rule env pprocessW n F hF
  rw [hW] at hrule
  have key : Delivered n (execBlock env (F + 60) { inputs := List.replicate n .item ++ [.release] } pprocessRun) ∧
      (execBlock env (F + 60) { inputs := List.replicate n .item ++ [.release] } pprocessRun).1.comms = [.info, .final none 0] := by
    refine ⟨⟨?_, ?_, ?_, ?_⟩, ?_⟩ <;>
    simp [pprocessRun, exec_line, exec_ret, exec_brk, exec_call, exec_ifS, exec_tryS, execBlock, execHandlers, lineEvent, doActs, doAct,
      evalCond, Catch.catches, hrule, he.ret, he.tn, he.na, itemsFrom_eq]
  refine ⟨F + 60, fun G hG => ?_⟩
  have hd := delivered_mono env _ _ n _ key.1 G hG
  refine ⟨hd, ?_⟩
  rw [execBlock_mono env rfl (by rw [key.1.normal]; simp) G hG]
  exact key.2

set_option maxRecDepth 8000 in
/-- **C05 on the regenerated `PersistentRemoteWorker` backend, any number of items**: the backend sends
    `(True, counter)` and then the user state. -/
theorem C05_generated_unbounded_remote (env : Env) (he : Returns env) (n : Nat) :
    ∃ F0, ∀ F, F0 ≤ F →
      Delivered n (execBlock env F { inputs := List.replicate n .item ++ [.release] } premoteRun) ∧
      (execBlock env F { inputs := List.replicate n .item ++ [.release] } premoteRun).1.comms =
        [.info, .final none 0, .userState 0] := by
  obtain ⟨F, hF⟩ := premote_loop env he n
  have hW : premoteW = .whileS _ _ _ := rfl
  have hrule := loop_rule env premoteW n F hF
  rw [hW] at hrule
  have key : Delivered n (execBlock env (F + 90) { inputs := List.replicate n .item ++ [.release] } premoteRun) ∧
      (execBlock env (F + 90) { inputs := List.replicate n .item ++ [.release] } premoteRun).1.comms =
        [.info, .final none 0, .userState 0] := by
    refine ⟨⟨?_, ?_, ?_, ?_⟩, ?_⟩ <;>
    simp [premoteRun, exec_line, exec_ret, exec_brk, exec_call, exec_ifS, exec_tryS, execBlock, execHandlers, lineEvent, doActs, doAct,
      evalCond, Catch.catches, hrule, he.ret, he.tn, he.na, itemsFrom_eq]
  refine ⟨F + 90, fun G hG => ?_⟩
  have hd := delivered_mono env _ _ n _ key.1 G hG
  refine ⟨hd, ?_⟩
  rw [execBlock_mono env rfl (by rw [key.1.normal]; simp) G hG]
  exact key.2

/-- non-vacuity / cross-check with the fixed-fuel `run` used by the finite tables: three items -/
example : (run pthreadRun {} [.item, .item, .item, .release] none .kill).1.results =
    [.item 1, .item 2, .item 3, .endMarker 3] := by decide +kernel

end PwVerif.C05
