import PwVerif.Model.Registry
/-!
# C19 — `active_children()` tracks exactly the live workers

Invariant over every operation history (`Inv`): the registry has no duplicates,
every live worker is registered, registered and live workers have been created.
From it: what `active_children()` yields is exactly the set of live workers, each
once (`C19_exact`), the registry retains nothing dead afterwards (`C19_bounded`),
and leaving an autoclose block leaves no live (cooperative) worker (`C19_autoclose`).
-/
namespace PwVerif.C19
open PwVerif.Registry

structure Inv (s : St) : Prop where
  regNodup   : s.reg.Nodup
  aliveNodup : s.alive.Nodup
  aliveReg   : ∀ w ∈ s.alive, w ∈ s.reg
  regBound   : ∀ w ∈ s.reg, w < s.next
  aliveBound : ∀ w ∈ s.alive, w < s.next

theorem register_nodup {reg : List Nat} {w : Nat} (h : reg.Nodup) : (register reg w).Nodup := by
  unfold register
  split
  · exact h
  · rename_i hw
    exact List.nodup_append.mpr ⟨h, by simp, by
      intro a ha b hb
      simp at hb; subst hb; intro e; subst e; exact hw ha⟩

theorem mem_register {reg : List Nat} {w x : Nat} : x ∈ register reg w ↔ x ∈ reg ∨ x = w := by
  unfold register
  split
  · rename_i hw
    constructor
    · intro h; exact Or.inl h
    · rintro (h | h)
      · exact h
      · subst h; exact hw
  · simp

theorem inv_init : Inv ({} : St) :=
  ⟨by simp, by simp, by simp, by simp, by simp⟩

theorem inv_step (s : St) (op : Op) (h : Inv s) : Inv (step s op).1 := by
  obtain ⟨h1, h2, h3, h4, h5⟩ := h
  cases op with
  | create run =>
    simp only [step]
    split
    · refine ⟨register_nodup h1, ?_, ?_, ?_, ?_⟩
      · refine List.nodup_append.mpr ⟨h2, by simp, ?_⟩
        intro a ha b hb
        simp at hb; subst hb
        have := h5 a ha
        omega
      · intro w hw
        simp at hw
        rw [mem_register]
        rcases hw with hw | hw
        · exact Or.inl (h3 w hw)
        · exact Or.inr hw
      · intro w hw
        rw [mem_register] at hw
        rcases hw with hw | hw
        · have := h4 w hw; simp; omega
        · simp; omega
      · intro w hw
        simp at hw
        rcases hw with hw | hw
        · have := h5 w hw; simp; omega
        · simp; omega
    · exact ⟨h1, h2, h3, fun w hw => by have := h4 w hw; simp; omega,
        fun w hw => by have := h5 w hw; simp; omega⟩
  | finish w =>
    simp only [step]
    exact ⟨h1, h2.filter _, fun x hx => h3 x (List.mem_filter.mp hx).1, h4,
      fun x hx => h5 x (List.mem_filter.mp hx).1⟩
  | restart w =>
    simp only [step]
    split
    · rename_i hw
      refine ⟨register_nodup h1, ?_, ?_, ?_, ?_⟩
      · refine List.nodup_append.mpr ⟨h2.filter _, by simp, ?_⟩
        intro a ha b hb
        simp at hb; subst hb
        have := (List.mem_filter.mp ha).2
        simpa using this
      · intro x hx
        rw [mem_register]
        simp at hx
        rcases hx with hx | hx
        · exact Or.inl (h3 x hx.1)
        · exact Or.inr hx
      · intro x hx
        rw [mem_register] at hx
        rcases hx with hx | hx
        · exact h4 x hx
        · subst hx; exact hw
      · intro x hx
        simp at hx
        rcases hx with hx | hx
        · exact h5 x hx.1
        · subst hx; exact hw
    · exact ⟨h1, h2, h3, h4, h5⟩
  | active =>
    simp only [step]
    refine ⟨h1.filter _, h2, ?_, fun x hx => h4 x (List.mem_filter.mp hx).1, h5⟩
    intro x hx
    exact List.mem_filter.mpr ⟨h3 x hx, by simpa using hx⟩
  | autoclose =>
    simp only [step]
    refine ⟨h1.filter _, h2.filter _, ?_, fun x hx => h4 x (List.mem_filter.mp hx).1,
      fun x hx => h5 x (List.mem_filter.mp hx).1⟩
    intro x hx
    exact List.mem_filter.mpr ⟨h3 x (List.mem_filter.mp hx).1, by
      simpa using (List.mem_filter.mp hx).1⟩

theorem inv_run (s : St) (ops : List Op) (h : Inv s) : Inv (run s ops).1 := by
  induction ops generalizing s with
  | nil => simpa [run]
  | cons op ops ih =>
    simp only [run]
    exact ih _ (inv_step s op h)

/-- Every reachable state satisfies the invariant. -/
theorem C19_inv (ops : List Op) : Inv (final ops) := inv_run _ _ inv_init

/-- **C19 exactness.** After any history, `active_children()` yields exactly the live
    workers: a worker is yielded iff it is alive, and nothing is yielded twice. -/
theorem C19_exact (ops : List Op) :
    let out := (step (final ops) .active).2
    out.Nodup ∧ ∀ w, w ∈ out ↔ w ∈ (final ops).alive := by
  have h := C19_inv ops
  simp only [step]
  refine ⟨h.regNodup.filter _, ?_⟩
  intro w
  constructor
  · intro hw; simpa using (List.mem_filter.mp hw).2
  · intro hw; exact List.mem_filter.mpr ⟨h.aliveReg w hw, by simpa using hw⟩

/-- **C19 retention.** Right after `active_children()` the registry holds exactly as many
    entries as there are live workers - dead workers (and their results) are not retained. -/
theorem C19_bounded (ops : List Op) :
    (step (final ops) .active).1.reg.length = (final ops).alive.length := by
  have h := C19_inv ops
  have hex := C19_exact ops
  simp only [step] at hex ⊢
  have p : (List.filter (fun x => decide (x ∈ (final ops).alive)) (final ops).reg).Perm (final ops).alive :=
    (List.perm_ext_iff_of_nodup hex.1 h.aliveNodup).mpr hex.2
  exact p.length_eq

/-- **C19 autoclose.** Leaving the autoclose block (cooperative workers) leaves no live worker. -/
theorem C19_autoclose (ops : List Op) : (step (final ops) .autoclose).1.alive = [] := by
  have h := C19_inv ops
  simp only [step]
  apply List.filter_eq_nil_iff.mpr
  intro w hw
  simp only [decide_not, Bool.not_eq_true', decide_eq_false_iff_not, Decidable.not_not]
  exact List.mem_filter.mpr ⟨h.aliveReg w hw, by simpa using hw⟩

/-- Non-vacuity: create three, finish one, prune, restart it (it must come back), finish another. -/
example : (run {} [.create true, .create true, .create false, .create true, .finish 1, .active,
      .restart 1, .active, .finish 0, .active]).2
    = [[], [], [], [], [], [0, 3], [], [0, 3, 1], [], [3, 1]] := by decide

end PwVerif.C19
