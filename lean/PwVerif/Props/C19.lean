import PwVerif.Model.Registry
/-!
# C19 — `active_children()` tracks exactly the live workers

Invariant over every operation history (`Inv`): the registry has no duplicates,
every live worker is registered, registered and live workers have been created.
From it: what `active_children()` yields is exactly the set of live workers, each
once (`C19_exact`), the registry retains nothing dead afterwards (`C19_bounded`),
and leaving an autoclose block leaves no live (cooperative) worker (`C19_autoclose`).
-/
namespace PwVerif.C19
open PwVerif.Registry

structure Inv (s : St) : Prop where
  regNodup   : s.reg.Nodup
  aliveNodup : s.alive.Nodup
  aliveReg   : ∀ w ∈ s.alive, w ∈ s.reg
  regBound   : ∀ w ∈ s.reg, w < s.next
  aliveBound : ∀ w ∈ s.alive, w < s.next

theorem register_nodup {reg : List Nat} {w : Nat} (h : reg.Nodup) : (register reg w).Nodup := by
  unfold register
  split
  · exact h
  · rename_i hw
    exact List.nodup_append.mpr ⟨h, by simp, by
      intro a ha b hb
      simp at hb; subst hb; intro e; subst e; exact hw ha⟩

theorem mem_register {reg : List Nat} {w x : Nat} : x ∈ register reg w ↔ x ∈ reg ∨ x = w := by
  unfold register
  split
  · rename_i hw
    constructor
    · intro h; exact Or.inl h
    · rintro (h | h)
      · exact h
      · subst h; exact hw
  · simp

theorem inv_init : Inv ({} : St) :=
  ⟨by simp, by simp, by simp, by simp, by simp⟩

theorem inv_step (s : St) (op : Op) (h : Inv s) : Inv (step s op).1 := by
  obtain ⟨h1, h2, h3, h4, h5⟩ := h
  cases op with
  | create run =>
    simp only [step]
    split
    · refine ⟨register_nodup h1, ?_, ?_, ?_, ?_⟩
      · refine List.nodup_append.mpr ⟨h2, by simp, ?_⟩
        intro a ha b hb
        simp at hb; subst hb
        have := h5 a ha
        omega
      · intro w hw
        simp at hw
        rw [mem_register]
        rcases hw with hw | hw
        · exact Or.inl (h3 w hw)
        · exact Or.inr hw
      · intro w hw
        rw [mem_register] at hw
        rcases hw with hw | hw
        · have := h4 w hw; simp; omega
        · simp; omega
      · intro w hw
        simp at hw
        rcases hw with hw | hw
        · have := h5 w hw; simp; omega
        · simp; omega
    · exact ⟨h1, h2, h3, fun w hw => by have := h4 w hw; simp; omega,
        fun w hw => by have := h5 w hw; simp; omega⟩
  | finish w =>
    simp only [step]
    exact ⟨h1, h2.filter _, fun x hx => h3 x (List.mem_filter.mp hx).1, h4,
      fun x hx => h5 x (List.mem_filter.mp hx).1⟩
  | restart w =>
    simp only [step]
    split
    · rename_i hw
      refine ⟨register_nodup h1, ?_, ?_, ?_, ?_⟩
      · refine List.nodup_append.mpr ⟨h2.filter _, by simp, ?_⟩
        intro a ha b hb
        simp at hb; subst hb
        have := (List.mem_filter.mp ha).2
        simpa using this
      · intro x hx
        rw [mem_register]
        simp at hx
        rcases hx with hx | hx
        · exact Or.inl (h3 x hx.1)
        · exact Or.inr hx
      · intro x hx
        rw [mem_register] at hx
        rcases hx with hx | hx
        · exact h4 x hx
        · subst hx; exact hw
      · intro x hx
        simp at hx
        rcases hx with hx | hx
        · exact h5 x hx.1
        · subst hx; exact hw
    · exact ⟨h1, h2, h3, h4, h5⟩
  | active =>
    simp only [step]
    refine ⟨h1.filter _, h2, ?_, fun x hx => h4 x (List.mem_filter.mp hx).1, h5⟩
    intro x hx
    exact List.mem_filter.mpr ⟨h3 x hx, by simpa using hx⟩
  | autoclose =>
    simp only [step]
    refine ⟨h1.filter _, h2.filter _, ?_, fun x hx => h4 x (List.mem_filter.mp hx).1,
      fun x hx => h5 x (List.mem_filter.mp hx).1⟩
    intro x hx
    exact List.mem_filter.mpr ⟨h3 x (List.mem_filter.mp hx).1, by
      simpa using (List.mem_filter.mp hx).1⟩

theorem inv_run (s : St) (ops : List Op) (h : Inv s) : Inv (run s ops).1 := by
  induction ops generalizing s with
  | nil => simpa [run]
  | cons op ops ih =>
    simp only [run]
    exact ih _ (inv_step s op h)

/-- Every reachable state satisfies the invariant. -/
theorem C19_inv (ops : List Op) : Inv (final ops) := inv_run _ _ inv_init

/-- **C19 exactness.** After any history, `active_children()` yields exactly the live
    workers: a worker is yielded iff it is alive, and nothing is yielded twice. -/
theorem C19_exact (ops : List Op) :
    let out := (step (final ops) .active).2
    out.Nodup ∧ ∀ w, w ∈ out ↔ w ∈ (final ops).alive := by
  have h := C19_inv ops
  simp only [step]
  refine ⟨h.regNodup.filter _, ?_⟩
  intro w
  constructor
  · intro hw; simpa using (List.mem_filter.mp hw).2
  · intro hw; exact List.mem_filter.mpr ⟨h.aliveReg w hw, by simpa using hw⟩

/-- **C19 retention.** Right after `active_children()` the registry holds exactly as many
    entries as there are live workers - dead workers (and their results) are not retained. -/
theorem C19_bounded (ops : List Op) :
    (step (final ops) .active).1.reg.length = (final ops).alive.length := by
  have h := C19_inv ops
  have hex := C19_exact ops
  simp only [step] at hex ⊢
  have p : (List.filter (fun x => decide (x ∈ (final ops).alive)) (final ops).reg).Perm (final ops).alive :=
    (List.perm_ext_iff_of_nodup hex.1 h.aliveNodup).mpr hex.2
  exact p.length_eq

/-- **C19 autoclose.** Leaving the autoclose block (cooperative workers) leaves no live worker. -/
theorem C19_autoclose (ops : List Op) : (step (final ops) .autoclose).1.alive = [] := by
  have h := C19_inv ops
  simp only [step]
  apply List.filter_eq_nil_iff.mpr
  intro w hw
  simp only [decide_not, Bool.not_eq_true', decide_eq_false_iff_not, Decidable.not_not]
  exact List.mem_filter.mpr ⟨h.aliveReg w hw, by simpa using hw⟩

/-- Non-vacuity: create three, finish one, prune, restart it (it must come back), finish another. -/
example : (run {} [.create true, .create true, .create false, .create true, .finish 1, .active,
      .restart 1, .active, .finish 0, .active]).2
    = [[], [], [], [], [], [0, 3], [], [0, 3, 1], [], [3, 1]] := by decide

/-! ## Retention at every moment of a history -/


def finishes : List Op → Nat
  | [] => 0
  | .finish _ :: ops => finishes ops + 1
  | _ :: ops => finishes ops

def noPrune : List Op → Bool
  | [] => true
  | .active :: _ => false
  | .autoclose :: _ => false
  | _ :: ops => noPrune ops

theorem countP_or_eq_le (l : List Nat) (p : Nat → Bool) (w : Nat) (h : l.Nodup) :
    l.countP (fun x => p x || x == w) ≤ l.countP p + 1 := by
  induction l with
  | nil => simp
  | cons a l ih =>
    have hn := List.nodup_cons.mp h
    by_cases haw : a = w
    · subst haw
      have : l.countP (fun x => p x || x == a) = l.countP p := by
        apply List.countP_congr
        intro x hx
        have : x ≠ a := fun e => hn.1 (e ▸ hx)
        simp [this]
      simp [List.countP_cons, this]
      all_goals try (split <;> omega)
    · have := ih hn.2
      simp [List.countP_cons, haw]
      all_goals try (split <;> omega)
      all_goals try omega

theorem dead_step (s : St) (op : Op) (h : Inv s) (hop : noPrune [op] = true) :
    dead (step s op).1 ≤ dead s + finishes [op] := by
  obtain ⟨h1, h2, h3, h4, h5⟩ := h
  cases op with
  | create run =>
    simp only [step, finishes]
    split
    · have hn : s.next ∉ s.reg := fun hh => by have := h4 _ hh; omega
      simp only [dead, register, hn, if_false]
      rw [List.countP_append]
      have : List.countP (fun x => decide (x ∉ s.alive ++ [s.next])) s.reg
          = List.countP (fun x => decide (x ∉ s.alive)) s.reg := by
        apply List.countP_congr
        intro x hx
        have : x ≠ s.next := fun e => hn (e ▸ hx)
        simp [this]
      rw [this]; simp
    · simp [dead]
  | finish w =>
    simp only [step, finishes, dead]
    refine Nat.le_trans (Nat.le_of_eq (List.countP_congr ?_))
      (countP_or_eq_le s.reg (fun x => decide (x ∉ s.alive)) w h1)
    intro x hx
    by_cases e : x = w <;> simp [e]
  | restart w =>
    simp only [step, finishes]
    split
    · simp only [dead, Nat.add_zero]
      by_cases hw : w ∈ s.reg
      · simp only [register, hw, if_true]
        apply List.countP_mono_left
        intro x hx
        simp
        intro hh hne
        rcases hh with hh | hh
        · exact hh
        · exact absurd hh hne
      · simp only [register, hw, if_false]
        rw [List.countP_append]
        have : List.countP (fun x => decide (x ∉ s.alive.filter (· ≠ w) ++ [w])) s.reg
            = List.countP (fun x => decide (x ∉ s.alive)) s.reg := by
          apply List.countP_congr
          intro x hx
          have : x ≠ w := fun e => hw (e ▸ hx)
          simp [this]
        rw [this]; simp
    · simp
  | active => simp [noPrune] at hop
  | autoclose => simp [noPrune] at hop


theorem noPrune_cons {op : Op} {ops : List Op} (h : noPrune (op :: ops) = true) :
    noPrune [op] = true ∧ noPrune ops = true := by
  cases op <;> simp_all [noPrune]

theorem finishes_cons (op : Op) (ops : List Op) : finishes (op :: ops) = finishes [op] + finishes ops := by
  cases op <;> simp [finishes] <;> omega

theorem dead_run (s : St) (ops : List Op) (h : Inv s) (hn : noPrune ops = true) :
    dead (run s ops).1 ≤ dead s + finishes ops := by
  induction ops generalizing s with
  | nil => simp [run, finishes]
  | cons op ops ih =>
    obtain ⟨h1, h2⟩ := noPrune_cons hn
    have a := dead_step s op h h1
    have b := ih (step s op).1 (inv_step s op h) h2
    rw [finishes_cons]
    simp only [run]
    omega

/-- Right after `active_children()` the registry retains no dead worker at all. -/
theorem dead_active (s : St) : dead (step s .active).1 = 0 := by
  simp only [step, dead]
  apply List.countP_eq_zero.mpr
  intro x hx
  have := (List.mem_filter.mp hx).2
  simp at this
  simp [this]

/-- **C19 retention over a whole history** ("a long-lived program ... retains neither them nor
    their results"): at *every* moment of *every* history the registered workers that are no
    longer alive number at most the completions (return, raise, terminate, kill) that happened
    since the last `active_children()` call - whatever was created, finished or restarted before
    that call (`ops`) and whatever is created or restarted since (`since`). Dead workers therefore
    never accumulate: each `active_children()` call brings the count back to zero. -/
theorem C19_retention_history (ops since : List Op) (hn : noPrune since = true) :
    dead (run (step (final ops) .active).1 since).1 ≤ finishes since := by
  have h := dead_run (step (final ops) .active).1 since (inv_step _ _ (C19_inv ops)) hn
  rw [dead_active] at h
  omega

/-- A restart never adds to what the registry retains of the dead (the restarted worker is
    registered once, and it is alive), and neither does a creation. -/
theorem C19_restart_create_retain_nothing (ops : List Op) (op : Op)
    (hop : (∃ w, op = .restart w) ∨ (∃ r, op = .create r)) :
    dead (step (final ops) op).1 ≤ dead (final ops) := by
  have h := C19_inv ops
  rcases hop with ⟨w, rfl⟩ | ⟨r, rfl⟩
  · simpa [finishes] using dead_step (final ops) (.restart w) h (by simp [noPrune])
  · simpa [finishes] using dead_step (final ops) (.create r) h (by simp [noPrune])

/-- Non-vacuity: prune, then three completions and two creations - the registry holds the three
    dead ones (the bound is reached), and the next call drops them. -/
example : dead (run (step (final [.create true, .create true, .create true, .create true, .finish 0])
      .active).1 [.finish 1, .create true, .finish 2, .finish 4, .create true]).1 = 3 := by decide

end PwVerif.C19
