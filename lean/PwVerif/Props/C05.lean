import PwVerif.Model.Stream
/-!
# C05 — persistent workers process each enqueue exactly once, in order, with merged arguments
-/
namespace PwVerif.C05
open PwVerif.Stream

theorem items_loop (f : Target) (d : List Nat) (kd : List (Nat × Nat)) (ins : List Enq) (c : Nat) :
    items (childLoop f d kd ins c none).msgs = ins.map (value f d kd) ∧
    counters (childLoop f d kd ins c none).msgs = (List.range ins.length).map (· + c + 1) ∧
    (childLoop f d kd ins c none).counter = c + ins.length := by
  induction ins generalizing c with
  | nil => simp [childLoop, items, counters]
  | cons e rest ih =>
    obtain ⟨h1, h2, h3⟩ := ih (c + 1)
    refine ⟨by simp [childLoop, items, h1], ?_, by simp [childLoop, h3]; omega⟩
    simp only [childLoop, counters, h2, List.length_cons, List.range_succ_eq_map, List.map_cons,
      List.map_map]
    congr 1
    · omega
    · apply List.map_congr_left
      intro a _
      simp only [Function.comp]
      omega

/-- **C05 stream.** For any defaults, any target and any list of accepted enqueues: the k-th value
    delivered is the target applied to the defaults overlaid with the k-th enqueue, in order,
    each exactly once; counters run 1..n; `result` (the final counter) is the number of enqueues. -/
theorem C05_stream (f : Target) (d : List Nat) (kd : List (Nat × Nat)) (ins : List Enq) :
    items (childRun f d kd ins none).msgs = ins.map (value f d kd) ∧
    counters (childRun f d kd ins none).msgs = (List.range ins.length).map (· + 1) ∧
    (childRun f d kd ins none).counter = ins.length := by
  have := items_loop f d kd ins 0
  simpa [childRun] using this

/-- the stream ends exactly once: one end marker, as the last message -/
theorem C05_ends_once (f : Target) (d : List Nat) (kd : List (Nat × Nat)) (ins : List Enq) (c : Nat) :
    ∃ pre, (childLoop f d kd ins c none).msgs = pre ++ [.endMarker (c + ins.length)] ∧
      ∀ m ∈ pre, ∃ k v, m = .item k v := by
  induction ins generalizing c with
  | nil => exact ⟨[], by simp [childLoop], by simp⟩
  | cons e rest ih =>
    obtain ⟨pre, h, hp⟩ := ih (c + 1)
    refine ⟨.item (c + 1) (value f d kd e) :: pre, ?_, ?_⟩
    · simp only [childLoop, h, List.length_cons, List.cons_append]
      have : c + 1 + rest.length = c + (rest.length + 1) := by omega
      rw [this]
    · intro m hm
      simp only [List.mem_cons] at hm
      rcases hm with hm | hm
      · exact ⟨_, _, hm⟩
      · exact hp m hm

/-! ### the argument merge -/

/-- fewer extras than defaults: extras replace the leading defaults, the rest stay -/
theorem merge_fewer (d e : List Nat) (h : e.length ≤ d.length) :
    (merge d e).length = d.length ∧ (merge d e).take e.length = e ∧ (merge d e).drop e.length = d.drop e.length := by
  unfold merge
  refine ⟨by simp; omega, by simp, by simp⟩

/-- as many or more extras than defaults: the call sees exactly the extras -/
theorem merge_more (d e : List Nat) (h : d.length ≤ e.length) : merge d e = e := by
  unfold merge
  rw [List.drop_of_length_le h, List.append_nil]

theorem merge_nil (d : List Nat) : merge d [] = d := by simp [merge]

/-- every call starts from the pristine defaults: the value of the k-th call does not depend on the
    other enqueues (the loop deep-copies the defaults each iteration) -/
theorem C05_pristine (f : Target) (d : List Nat) (kd : List (Nat × Nat)) (pre post : List Enq) (e : Enq) :
    (items (childRun f d kd (pre ++ e :: post) none).msgs)[pre.length]? = some (value f d kd e) := by
  rw [(C05_stream f d kd _).1]
  simp

/-- keyword merge: an enqueued key overrides the default, other defaults stay -/
theorem kwmerge_lookup (d e : List (Nat × Nat)) (k : Nat) :
    ((kwmerge d e).find? (·.1 == k)).map (·.2) =
      match (e.find? (·.1 == k)) with
      | some p => some p.2
      | none => (d.find? (·.1 == k)).map (·.2) := by
  unfold kwmerge
  rw [List.find?_append]
  cases he : e.find? (·.1 == k) with
  | some p => simp
  | none =>
    simp only [Option.none_or]
    have hnone : ∀ x ∈ e, (x.1 == k) = false := by
      intro x hx
      have := List.find?_eq_none.mp he x hx
      simpa using this
    congr 1
    induction d with
    | nil => simp
    | cons x xs ih =>
      simp only [List.filter_cons]
      by_cases hxk : (x.1 == k) = true
      · have hk : x.1 = k := by simpa using hxk
        have : (!e.any fun e' => e'.1 == x.1) = true := by
          simp only [Bool.not_eq_true', List.any_eq_false]
          intro y hy
          have := hnone y hy
          rw [hk]; simpa using this
        simp [this, hxk]
      · have hxk' : (x.1 == k) = false := by simpa using hxk
        by_cases hf : (!e.any fun e' => e'.1 == x.1) = true
        · simp [hf, hxk', ih]
        · simp [hf, hxk', ih]

example : merge [1, 2, 3] [9] = [9, 2, 3] := by decide
example : merge [1, 2] [7, 8, 9] = [7, 8, 9] := by decide
example : items (childRun (fun a _ => a.sum) [1, 2] [] [⟨[5], []⟩, ⟨[], []⟩] none).msgs = [7, 3] := by decide

end PwVerif.C05
