import PwVerif.Model.Stream
import PwVerif.Model.Lifecycle
import PwVerif.Gen.RunLoops
/-!
# C06 — a persistent result stream is a correct prefix and always ends

* `C06_prefix` (hand-written stream model, unbounded): whatever the iteration and phase at which
  the worker is stopped, and however (gracefully or by SIGKILL), the values obtainable are
  exactly the first `j` expected values, in order, with counters `1..j`.
* `C06_ends`: the message sequence consists of result messages followed by exactly one end
  marker, or (SIGKILL) of result messages only and then EOF - a reader never sees anything
  after the end and never needs to wait for more.
* `C06_generated_*`: the same facts evaluated on the **regenerated** run-loop programs of the
  three persistent kinds for two enqueued items and every landing point of the whole run
  (finite instances decided by the kernel; they tie the per-iteration phases of the stream
  model to the code as it is now).
-/
namespace PwVerif.C06
open PwVerif.Stream

theorem prefix_loop (f : Target) (d : List Nat) (kd : List (Nat × Nat)) (ins : List Enq) (c : Nat)
    (crash : Option (Nat × Phase × Stop)) :
    ∃ j, j ≤ ins.length ∧
      items (childLoop f d kd ins c crash).msgs = (ins.take j).map (value f d kd) ∧
      counters (childLoop f d kd ins c crash).msgs = (List.range j).map (· + c + 1) := by
  induction ins generalizing c crash with
  | nil => exact ⟨0, by simp, by simp [childLoop, items], by simp [childLoop, counters]⟩
  | cons e rest ih =>
    cases crash with
    | none =>
      obtain ⟨j, hj, h1, h2⟩ := ih (c + 1) none
      refine ⟨j + 1, by simp; omega, by simp [childLoop, items, h1], ?_⟩
      simp only [childLoop, counters, h2, List.range_succ_eq_map, List.map_cons, List.map_map]
      congr 1
      · omega
      · apply List.map_congr_left
        intro a _; simp only [Function.comp]; omega
    | some cr =>
      obtain ⟨n, p, how⟩ := cr
      cases n with
      | zero =>
        refine ⟨0, by simp, ?_, ?_⟩ <;> cases how <;> simp [childLoop, items, counters]
      | succ n =>
        obtain ⟨j, hj, h1, h2⟩ := ih (c + 1) (some (n, p, how))
        refine ⟨j + 1, by simp; omega, by simp [childLoop, items, h1], ?_⟩
        simp only [childLoop, counters, h2, List.range_succ_eq_map, List.map_cons, List.map_map]
        congr 1
        · omega
        · apply List.map_congr_left
          intro a _; simp only [Function.comp]; omega

/-- **C06 prefix.** For any defaults, target, inputs, and any stop (iteration, phase, graceful or
    SIGKILL): the obtainable values are the first `j` expected values for some `j`, in order,
    never duplicated, with consecutive counters starting at 1. -/
theorem C06_prefix (f : Target) (d : List Nat) (kd : List (Nat × Nat)) (ins : List Enq)
    (crash : Option (Nat × Phase × Stop)) :
    ∃ j, j ≤ ins.length ∧
      items (childRun f d kd ins crash).msgs = (ins.take j).map (value f d kd) ∧
      counters (childRun f d kd ins crash).msgs = (List.range j).map (· + 1) := by
  obtain ⟨j, hj, h1, h2⟩ := prefix_loop f d kd ins 0 crash
  exact ⟨j, hj, by simpa [childRun] using h1, by simpa [childRun] using h2⟩

/-- **C06 the stream ends.** The messages are result messages followed by exactly one end marker, or
    - only when the worker was killed - result messages only (then the reader sees EOF). -/
theorem C06_ends (f : Target) (d : List Nat) (kd : List (Nat × Nat)) (ins : List Enq) (c : Nat)
    (crash : Option (Nat × Phase × Stop)) :
    ∃ pre, (∀ m ∈ pre, ∃ k v, m = Msg.item k v) ∧
      ((∃ e, (childLoop f d kd ins c crash).msgs = pre ++ [.endMarker e]) ∨
       ((childLoop f d kd ins c crash).msgs = pre ∧ ∃ j p, crash = some (j, p, .killed))) ∧
      (childLoop f d kd ins c crash).eof = true := by
  induction ins generalizing c crash with
  | nil => exact ⟨[], by simp, Or.inl ⟨c, by simp [childLoop]⟩, by simp [childLoop]⟩
  | cons e rest ih =>
    cases crash with
    | none =>
      obtain ⟨pre, hp, h, he⟩ := ih (c + 1) none
      refine ⟨.item (c + 1) (value f d kd e) :: pre, ?_, ?_, by simpa [childLoop] using he⟩
      · intro m hm
        simp only [List.mem_cons] at hm
        rcases hm with hm | hm
        · exact ⟨_, _, hm⟩
        · exact hp m hm
      · rcases h with ⟨x, hx⟩ | ⟨_, j, p, hc⟩
        · exact Or.inl ⟨x, by simp [childLoop, hx]⟩
        · cases hc
    | some cr =>
      obtain ⟨n, p, how⟩ := cr
      cases n with
      | zero =>
        cases how with
        | graceful => exact ⟨[], by simp, Or.inl ⟨(if p = Phase.beforeSend then c + 1 else c), by simp [childLoop]⟩, by simp [childLoop]⟩
        | killed => exact ⟨[], by simp, Or.inr ⟨by simp [childLoop], 0, p, rfl⟩, by simp [childLoop]⟩
      | succ n =>
        obtain ⟨pre, hp, h, he⟩ := ih (c + 1) (some (n, p, how))
        refine ⟨.item (c + 1) (value f d kd e) :: pre, ?_, ?_, by simpa [childLoop] using he⟩
        · intro m hm
          simp only [List.mem_cons] at hm
          rcases hm with hm | hm
          · exact ⟨_, _, hm⟩
          · exact hp m hm
        · rcases h with ⟨x, hx⟩ | ⟨hx, j, p', hc⟩
          · exact Or.inl ⟨x, by simp [childLoop, hx]⟩
          · refine Or.inr ⟨by simp [childLoop, hx], j + 1, p', ?_⟩
            simp only [Option.some.injEq, Prod.mk.injEq] at hc ⊢
            exact ⟨by omega, hc.2.1, hc.2.2⟩

/-! ### the regenerated loop programs, two items then the release marker -/
open PwVerif.Py PwVerif.Gen

def resultsOf (prog : List Stmt) (a : Async) (k : Option Nat) : List Py.Msg :=
  (run prog {} [.item, .item, .release] k a).1.results

/-- item messages come first with counters 1, 2, ...; at most one end marker and nothing after it -/
def wellFormed : List Py.Msg → Nat → Bool
  | [], _ => true
  | .item c :: rest, n => c == n + 1 && wellFormed rest (n + 1)
  | [.endMarker _], _ => true
  | _, _ => false

def generatedOK (prog : List Stmt) : Prop :=
  ∀ a ∈ Lifecycle.Async.all,
    wellFormed (resultsOf prog a none) 0 = true ∧
    ∀ k < (lineTrace prog {} [.item, .item, .release]).length, wellFormed (resultsOf prog a (some k)) 0 = true

theorem C06_generated_thread : generatedOK pthreadRun := by unfold generatedOK; decide +kernel
theorem C06_generated_process : generatedOK pprocessRun := by unfold generatedOK; decide +kernel
theorem C06_generated_remote : generatedOK premoteRun := by unfold generatedOK; decide +kernel

def itrace (prog : List Stmt) : List Nat := lineTrace prog {} [.item, .item, .release]
def reachable (prog : List Stmt) (start k : Nat) : Bool := k < (itrace prog).length && (itrace prog).idxOf start < k
def hasEnd (ms : List Py.Msg) : Bool := ms.any (fun m => match m with | .endMarker _ => true | _ => false)

/-- graceful endings write the end marker: a terminate landing at any reachable point outside of the
    `finally` blocks of the run loop (where `_cleanup` itself runs) still ends the stream -/
def gracefulEnds (prog : List Stmt) (start : Nat) (a : Async) : Prop :=
  ∀ k < (itrace prog).length, reachable prog start k = true →
    (finallyLinesL prog).contains (((itrace prog)[k]?).getD 0) = false →
    hasEnd (resultsOf prog a (some k)) = true

theorem C06_graceful_ends_thread : gracefulEnds pthreadRun pthreadRunStart (.raiseWte false) := by unfold gracefulEnds; decide +kernel
theorem C06_graceful_ends_process : gracefulEnds pprocessRun pprocessRunStart (.raiseWte true) := by unfold gracefulEnds; decide +kernel
theorem C06_graceful_ends_remote : gracefulEnds premoteRun premoteRunStart (.raiseWte true) := by unfold gracefulEnds; decide +kernel

/-- Without the exclusion the statement is false for the thread and process kinds: an exception landing
    inside `_cleanup` (before it wrote the marker) loses the end marker. A process worker's pipe then still
    delivers EOF; a thread worker's `queue.Queue` has no EOF - a consumer blocked in `results_iter()`
    before the death stays blocked (known finding). -/
def gracefulEndsFull (prog : List Stmt) (start : Nat) (a : Async) : Prop :=
  ∀ k < (itrace prog).length, reachable prog start k = true → hasEnd (resultsOf prog a (some k)) = true

theorem C06_counterexample_thread : ¬ gracefulEndsFull pthreadRun pthreadRunStart (.raiseWte false) := by
  unfold gracefulEndsFull; decide +kernel
/-- for the remote kind the request can no longer be delivered once the backend reached its cleanup
    (its control thread was released before): the full statement holds -/
theorem C06_graceful_ends_full_remote : gracefulEndsFull premoteRun premoteRunStart (.raiseWte true) := by
  unfold gracefulEndsFull; decide +kernel

example : resultsOf pthreadRun .kill none = [.item 1, .item 2, .endMarker 2] := by decide +kernel

end PwVerif.C06
