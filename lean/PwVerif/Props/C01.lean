import PwVerif.Model.Lifecycle
import PwVerif.Gen.RunLoops
/-!
# C01 — a dead worker has one definite, consistent and stable outcome

The child-side programs (`Gen.threadRun`, `Gen.processRun`, `Gen.remoteRun`) are
**regenerated from /repo on every run**; the theorems below are re-checked against them.

Quantifier: every target behaviour × every kind of asynchronous event (exception raised at
the line; real terminate through the control thread; SIGKILL) × every landing point, i.e.
every line event of the run (`k < (lineTrace ..).length` - these *are* all the landing
points of the loop-free one-shot programs; the table is decided completely by kernel
evaluation, not sampled).

The persistent kinds run the same three `_run` functions around a loop; for them the
outcome shape is covered by the correspondence check only (see DESIGN.md), the stream by
C05/C06.
-/
namespace PwVerif.C01
open PwVerif.Py PwVerif.Lifecycle PwVerif.Gen

/-- the observation of the one-shot worker of kind `kd` ended by event `a` at landing point `k` -/
def obsAt (prog : List Stmt) (kd : Kind) (t : Target) (a : Async) (k : Option Nat) : Obs :=
  observe kd (run prog { target := t } [] k a).1

def nEvents (prog : List Stmt) (t : Target) : Nat := (lineTrace prog { target := t } []).length

/-- the two shapes of C01 -/
def Shape (t : Target) (o : Obs) : Bool :=
  o == own t            -- the target's own outcome: (False, None, value) or (True, None, its exception)
  || o == terminated    -- (True, None, WorkerTerminatedError)
  || o == unreported    -- (True, None, None): killed / nothing could be reported

/-- `has_error` is never `None` for a dead thread or process worker - whatever the child did. -/
theorem C01_definite_thread_process (st : St) :
    (observe .thread st).hasError ≠ none ∧ (observe .process st).hasError ≠ none := by
  constructor
  · simp only [observe]
    cases st.result with
    | none => simp [unreported]
    | some r => cases r with
      | none => simp [decode]
      | some e => cases e <;> simp [decode]
  · simp only [observe]
    cases lastFinal st.comms with
    | none => simp [unreported]
    | some r => cases r with
      | none => simp [decode]
      | some e => cases e <;> simp [decode]

/-- **C01 shape, thread.** every target, every event kind, every landing point (and no event) -/
theorem C01_shape_thread :
    ∀ t ∈ Target.all, ∀ a ∈ Async.all,
      Shape t (obsAt threadRun .thread t a none) = true ∧
      ∀ k < nEvents threadRun t, Shape t (obsAt threadRun .thread t a (some k)) = true := by
  decide +kernel

/-- **C01 shape, process.** -/
theorem C01_shape_process :
    ∀ t ∈ Target.all, ∀ a ∈ Async.all,
      Shape t (obsAt processRun .process t a none) = true ∧
      ∀ k < nEvents processRun t, Shape t (obsAt processRun .process t a (some k)) = true := by
  decide +kernel

/-- **C01 shape, remote** (includes: `has_error` is never `None`, which for the remote kind
    depends on what the backend sends - see the `fix:` for BaseException targets). -/
theorem C01_shape_remote :
    ∀ t ∈ Target.all, ∀ a ∈ Async.all,
      Shape t (obsAt remoteRun .remote t a none) = true ∧
      ∀ k < nEvents remoteRun t, Shape t (obsAt remoteRun .remote t a (some k)) = true := by
  decide +kernel

/-- every target / event kind is in the lists the three theorems range over -/
theorem all_targets (t : Target) : t ∈ Target.all := by cases t <;> simp [Target.all]
theorem all_asyncs (a : Async) (h : ∀ d, a ≠ .deferred d) : a ∈ Async.all := by
  cases a with
  | kill => simp [Async.all]
  | raiseWte v => cases v <;> simp [Async.all]
  | deferred d => exact absurd rfl (h d)

/-- **C01 stability (process kind).** Once the first accessor after death has drained the pipe,
    every later accessor returns the same observation - for any pipe content, decodable or
    not - and never touches the pipe again. -/
theorem C01_stable (p : Parent) (n : Nat) :
    ∀ o ∈ (p.get.1).gets n, o = p.get.2 := by
  have hc : ∀ (q : Parent) (o : Obs), q.cached = some o → ∀ m, ∀ x ∈ q.gets m, x = o := by
    intro q o hq m
    induction m generalizing q with
    | zero => simp [Parent.gets]
    | succ m ih =>
      intro x hx
      simp only [Parent.gets, Parent.get, hq, List.mem_cons] at hx
      rcases hx with h | h
      · exact h
      · exact ih q hq x h
  apply hc
  unfold Parent.get
  cases h : p.cached with
  | some o => simp [h]
  | none => simp

/-- the shape holds for whatever the first drain finds, including an undecodable message -/
theorem C01_drain_definite (p : Parent) : (p.get.2).hasError ≠ none ∨ p.cached ≠ none := by
  unfold Parent.get
  cases h : p.cached with
  | some o => right; simp
  | none =>
    left
    simp only
    split
    · simp [unreported]
    · cases lastFinal p.pipe with
      | none => simp [unreported]
      | some r => cases r with
        | none => simp [decode]
        | some e => cases e <;> simp [decode]

/-- non-vacuity: the tables are not empty and contain both shapes -/
example : nEvents threadRun .returns > 10 ∧ nEvents processRun .returns > 20 ∧ nEvents remoteRun .returns > 40 := by
  decide +kernel
example : obsAt threadRun .thread .returns (.raiseWte false) none = own .returns := by decide +kernel
example : ∃ k, obsAt processRun .process .returns (.raiseWte true) (some k) = terminated := ⟨22, by decide +kernel⟩
example : ∃ k, obsAt remoteRun .remote .raisesUser .kill (some k) = unreported := ⟨40, by decide +kernel⟩

end PwVerif.C01
