import PwVerif.Model.Shutdown
import PwVerif.Gen.ShutdownPaths
/-!
# C12 — stopping the server reaps its children and every parent finds out

`Gen.finallyPath` / `Gen.sigtermPath` are regenerated from /repo: for the `finally` block of
`RemoteServer.run` (reached by `terminate()`) and for the SIGTERM handler, whether every child
(and context helper) is visited, whether a failure on one child cannot cut the iteration short,
whether the stop is forced, whether survivors get SIGTERM.

* `C12_reaped`: on a path with those properties, **for every registry** (any number of children
  in any mixture of states) every child is dead afterwards and every parent-side worker is dead
  with a definite outcome; `C12_reaped_finally` / `C12_reaped_sigterm` instantiate it with the
  regenerated paths.
* `C12_parent_learns`: children that were running or idle report `WorkerTerminatedError`
  (cooperative / idle persistent), a child that had to be killed reports an error without it,
  a child that had already finished keeps its own outcome.

Signal delivery, process reaping and the orphaned context helper noticing EOF are OS behaviour:
measured by `harness/c12.py` (no descendant of the server left; every parent-side worker dead).
-/
namespace PwVerif.C12
open PwVerif.Shutdown PwVerif.Gen

def good (p : Path) : Bool := p.iteratesChildren && p.perChildGuarded && (p.forcedTerminate || p.killFallback)

/-- every child of any registry is dead after a good shutdown path, and its parent sees a dead worker
    with a definite outcome -/
theorem C12_reaped (p : Path) (hp : good p = true) (cs : List Child) :
    (shutdown p cs).length = cs.length ∧
    ∀ r ∈ shutdown p cs, r.1 = true ∧ r.2.dead = true ∧ r.2.hasError ≠ none := by
  simp only [good, Bool.and_eq_true, Bool.or_eq_true] at hp
  obtain ⟨⟨hi, hg⟩, hk⟩ := hp
  simp only [shutdown, hi, hg, Bool.and_self, if_true, List.length_map, true_and]
  intro r hr
  obtain ⟨c, _, rfl⟩ := List.mem_map.mp hr
  cases c <;> simp [stop]
  · rcases hk with h | h <;> simp [h]

theorem C12_reaped_finally (cs : List Child) :
    ∀ r ∈ shutdown finallyPath cs, r.1 = true ∧ r.2.dead = true ∧ r.2.hasError ≠ none :=
  (C12_reaped finallyPath (by decide) cs).2

theorem C12_reaped_sigterm (cs : List Child) :
    ∀ r ∈ shutdown sigtermPath cs, r.1 = true ∧ r.2.dead = true ∧ r.2.hasError ≠ none :=
  (C12_reaped sigtermPath (by decide) cs).2

theorem C12_contexts_visited : finallyPath.iteratesContexts = true ∧ sigtermReraisesDefault = true := by decide

/-- what each kind of child's parent learns (on either path) -/
theorem C12_parent_learns (p : Path) (hp : good p = true) :
    (stop p .cooperative).2 = ⟨true, some true, true⟩ ∧
    (stop p .idlePersistent).2 = ⟨true, some true, true⟩ ∧
    (stop p .swallowing).2 = ⟨true, some true, false⟩ ∧
    (stop p .finished).2 = ⟨true, some false, false⟩ := by
  simp only [good, Bool.and_eq_true, Bool.or_eq_true] at hp
  refine ⟨rfl, rfl, ?_, rfl⟩
  rcases hp.2 with h | h <;> simp [stop, h]

/-- a path that does not guard each child (one failing terminate aborts the loop) reaps nobody in
    the worst case - why `perChildGuarded` is part of `good` -/
example : shutdown { finallyPath with perChildGuarded := false } [.cooperative, .swallowing] = [] := by decide
example : (shutdown finallyPath [.cooperative, .swallowing, .idlePersistent, .finished]).length = 4 := by decide

end PwVerif.C12
