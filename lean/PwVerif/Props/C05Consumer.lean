import PwVerif.Model.Consumer
import PwVerif.Model.Stream
import PwVerif.Gen.Consumer
/-!
# C05 / C06, continued — the owner's reads (`PersistentWorker.next_result`, hence `results_iter` and `call`)

The condition that selects the non-blocking read is regenerated from /repo (`Gen.consumerCfg`).

* `C05_read_never_ends_early`: while the child is alive (it still has accepted inputs to process, or has not
  yet written its end-of-stream message) a read never reports the end of the stream - it returns the next
  value or waits; in particular `close()` / a timed-out `wait()` do not make reads give up (C05: the k-th
  value obtained is the k-th expected one, the stream ends exactly once).
* `C06_read_never_blocks_when_dead`: once the child is dead a read never waits (C06: `next_result()` raises
  `queue.Empty`, `results_iter()` stops).
* `C05_reads_follow_stream`: reading whatever is buffered, in order, yields the buffered values up to the end
  marker, for any buffer - so with `C05_stream` the k-th read is the k-th expected value.
-/
namespace PwVerif.C05
open PwVerif.Consumer

theorem C05_read_never_ends_early (closed : Bool) (pipe : List M) (h : pipe.head? ≠ some .endMarker) :
    nextResult Gen.consumerCfg closed true pipe ≠ .empty := by
  cases pipe with
  | nil => cases closed <;> decide
  | cons m rest =>
    cases m with
    | item v => simp [nextResult]
    | endMarker => simp at h

theorem C06_read_never_blocks_when_dead (closed : Bool) (pipe : List M) :
    nextResult Gen.consumerCfg closed false pipe ≠ .waits := by
  cases pipe with
  | nil => cases closed <;> decide
  | cons m rest => cases m <;> simp [nextResult]

/-- the values a sequence of reads obtains from a buffer before the stream is reported ended -/
def drain (cfg : Cfg) (closed alive : Bool) : List M → List Nat
  | [] => []
  | m :: rest =>
    match nextResult cfg closed alive (m :: rest) with
    | .value v => v :: drain cfg closed alive rest
    | _ => []

def values : List M → List Nat
  | [] => []
  | .item v :: rest => v :: values rest
  | .endMarker :: _ => []

theorem C05_reads_follow_stream (cfg : Cfg) (closed alive : Bool) (pipe : List M) :
    drain cfg closed alive pipe = values pipe := by
  induction pipe with
  | nil => rfl
  | cons m rest ih => cases m <;> simp [drain, values, nextResult, ih]

/-- the seeded change C05-D (`if self._closed or not self.is_alive()`): a read right after `close()` reports the
    end of the stream although the busy child has not delivered anything yet -/
theorem C05_counterexample_closed_nowait :
    nextResult { Gen.consumerCfg with nowaitWhenClosed := true } true true [] = .empty := by decide

example : nextResult Gen.consumerCfg true true [] = .waits := by decide
example : nextResult Gen.consumerCfg false false [] = .empty := by decide

end PwVerif.C05
