import PwVerif.Lemmas.Accessor
import PwVerif.Gen.Accessor
/-!
# C01 / C02 — reading the outcome of a thread worker while its work is finishing

Model: `PwVerif.Accessor` (hand-written); the order of the reads in `ThreadWorker._get_result` is regenerated from
`/repo` (`Gen.threadGetResult`, T-acc). Quantifiers: every order of reads with the liveness read before the first read
of `_result` (any length), every sequence of phases the child can be seen in by the successive reads (every
interleaving of "outcome recorded" and "thread ended" with the reads), every later moment at which the value is returned.

* `C01_accessor_sound`: for a child that records its outcome the accessor never fabricates one - whatever the
  interleaving - and it returns `None` only if the child was still running at the last read;
* `C01_accessor_definite`: a child that died without recording an outcome is reported with the fabricated outcome
  `(False, None)` once it is dead (the "definite outcome" clause);
* `C01_accessor_generated`: the order read from `/repo` has the liveness read first;
* `C01_accessor_counterexample_result_first`: with `_result` read first (the code before the repair e7c2627) a child
  that records its outcome and ends between the two reads loses it.
-/
namespace PwVerif.C01
open PwVerif.Accessor

/-- **The accessor never replaces a recorded outcome.** Any order with the liveness read first, any interleaving. -/
theorem C01_accessor_sound (order : List Read) (ps : List Phase) (last : Phase) (ha : aliveFirst order = true)
    (hm : monotone ps = true) :
    getResult true order ps last ≠ .fabricated ∧ (getResult true order ps last = .none → last = .running) := by
  unfold getResult
  rw [holds_false_of_aliveFirst order ps ha hm]
  cases last <;> simp [resultIsNone]

/-- **A child that died without recording an outcome gets the definite outcome** once it is seen dead by every read. -/
theorem C01_accessor_definite (order : List Read) (ps : List Phase) (last : Phase) (hl : ps.length = order.length)
    (hd : ∀ p ∈ ps, p = .dead) : getResult false order ps last = .fabricated := by
  have : holds false order ps = true := by
    induction order generalizing ps with
    | nil => rfl
    | cons r rs ih =>
      cases ps with
      | nil => simp at hl
      | cons p ps =>
        have hp : p = .dead := hd p (by simp)
        subst hp
        have := ih ps (by simpa using hl) (fun q hq => hd q (by simp [hq]))
        cases r <;> simp [holds, resultIsNone, notAlive, this]
  simp [getResult, this]

/-- the order of the reads in `/repo`'s `ThreadWorker._get_result` has the liveness read first -/
theorem C01_accessor_generated : aliveFirst Gen.threadGetResult = true := by decide

/-- hence the two theorems above hold of the code as it is -/
theorem C01_accessor_sound_generated (ps : List Phase) (last : Phase) (hm : monotone ps = true) :
    getResult true Gen.threadGetResult ps last ≠ .fabricated :=
  (C01_accessor_sound Gen.threadGetResult ps last C01_accessor_generated hm).1

/-- `_result` read first (before e7c2627): the child records its outcome and ends between the two reads - lost -/
theorem C01_accessor_counterexample_result_first :
    monotone [.running, .dead, .dead] = true ∧
    getResult true [.resultIsNone, .started, .notAlive] [.running, .dead, .dead] .dead = .fabricated := by decide

/-- non-vacuity: with the liveness read first the same interleaving returns the work's own outcome -/
example : getResult true Gen.threadGetResult [.running, .dead, .dead] .dead = .own := by decide
example : getResult true Gen.threadGetResult [.running, .running, .running] .running = .none := by decide

end PwVerif.C01
