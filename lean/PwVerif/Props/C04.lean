import PwVerif.Model.Blocking
import PwVerif.Gen.Blocking
/-!
# C04 — wait/terminate are bounded, truthful, idempotent

`Gen/Blocking.lean` is regenerated from /repo on every run (T-block): for each parent-side
`wait` / `terminate` the blocking calls in source order with what bounds them, the guard that
derives the remote timeout, the shape of the returned value, the negative-timeout check.

* `C04_bounded_*`: every blocking call is bounded by the timeout, guarded by a bounded poll,
  or is a reply of the server's control thread; `C04_factor`: at most three timeout-bounded
  waits in a row on the caller's side (the "small multiple").
* `C04_remote_timeout`: for every timeout (including 0) and every remote timeout the server is
  asked to wait a finite time not longer than the caller's timeout; the generated guard is the
  one this holds for (`C04_guard_*`). `C04_truthy_guard_counterexample` shows what the
  `if timeout:` variant would do at 0.
* `C04_truthful_*`: the value returned is `True` or the negation of the liveness read last.
* `C04_idempotent`: on a dead or never-run worker every sequence of calls returns at once with
  `True` (`False` for is_alive) and leaves the flags unchanged - any length, any order.

Wall-clock durations, signal delivery and the kernel are not in the model: they are what
`harness/c04.py` measures on real workers (uncooperative, sleeping, GIL-holding, stopped).
-/
namespace PwVerif.C04
open PwVerif.Blocking PwVerif.Gen

theorem C04_bounded_thread : bounded threadWait = true ∧ bounded threadTerminate = true ∧ bounded pthreadWait = true := by decide
theorem C04_bounded_process : bounded processWait = true ∧ bounded processTerminate = true ∧ bounded pprocessWait = true := by decide
theorem C04_bounded_remote : bounded remoteWait = true ∧ bounded remoteTerminate = true := by decide

/-- no method waits for more than three timeouts on the caller's side of any one branch
    (`remoteTerminate` lists the server-side branch - three joins - and the parent-side one) -/
theorem C04_factor :
    factor threadWait ≤ 1 ∧ factor threadTerminate ≤ 1 ∧ factor processWait ≤ 1 ∧ factor processTerminate ≤ 3 ∧
    factor remoteWait ≤ 2 ∧ factor remoteTerminate ≤ 4 := by decide

theorem C04_guard_wait : remoteWait.guard = .isNotNone := by decide
theorem C04_guard_terminate : remoteTerminate.guard = .isNotNone := by decide

/-- **remote timeout.** With the `is not None` guard, whenever the caller gives a timeout `t`
    (any value, 0 included) the server side is asked to wait a finite time `y ≤ t`. -/
theorem C04_remote_timeout (t : Nat) (remote : Option Nat) :
    ∃ y, normRemote .isNotNone (some t) remote = some y ∧ y ≤ t := by
  cases remote with
  | none => exact ⟨t, rfl, Nat.le_refl _⟩
  | some r => exact ⟨min r t, rfl, Nat.min_le_right _ _⟩

/-- what a truthiness test would do: `wait(0)` asks the server to wait without bound -/
theorem C04_truthy_guard_counterexample : normRemote .truthy (some 0) none = none := rfl

theorem C04_truthful :
    threadWait.returnsNotAlive = true ∧ threadTerminate.returnsNotAlive = true ∧ processWait.returnsNotAlive = true ∧
    processTerminate.returnsNotAlive = true ∧ remoteWait.returnsNotAlive = true ∧ remoteTerminate.returnsNotAlive = true := by
  decide

theorem C04_negative_checked :
    threadTerminate.checksNegative = true ∧ processWait.checksNegative = true ∧ processTerminate.checksNegative = true ∧
    remoteWait.checksNegative = true ∧ remoteTerminate.checksNegative = true := by decide

/-- **idempotence.** For a worker that is dead or was never run, every call sequence returns
    `True` for wait/terminate/close and `False` for is_alive - and the flags never change. -/
theorem C04_idempotent (f : Flags) (cs : List Call) (h : over f = true) :
    runCalls f cs = cs.map (fun c => c != .isAlive) := by
  induction cs generalizing f with
  | nil => rfl
  | cons c cs ih =>
    simp only [runCalls, List.map_cons]
    have hf : (callDead f c).1 = f := by cases c <;> rfl
    rw [hf, ih f h]
    cases c <;> rfl

example : over ⟨false, true⟩ = true ∧ over ⟨true, true⟩ = true := by decide
example : runCalls ⟨true, true⟩ [.wait, .isAlive, .terminate, .close] = [true, false, true, true] := by decide

end PwVerif.C04
