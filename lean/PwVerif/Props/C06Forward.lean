import PwVerif.Model.Forward
import PwVerif.Gen.Forward
/-!
# C06, continued — the parent-side forwarding thread of the remote kind ends the stream exactly once

`PersistentRemoteWorker._fetch_results` copies what the backend writes on the data socket to the
worker's local results pipe. Whatever the backend managed to write before the connection closed -
`j` results, then possibly its own end-of-stream message (whose counter is `j`, or `j+1` when it was
stopped between counting and sending a result), then possibly the final result (its own, or the one the
server fabricates after it had to kill the child) - the local pipe receives exactly those `j` results
followed by **exactly one** end-of-stream message, and the thread does not die on an assertion.

`Gen.fwdCfg` is regenerated from /repo on every run (T-fwd); the theorem is proved for every configuration
satisfying the decidable predicate `Good` and instantiated at the regenerated one.
-/
namespace PwVerif.C06
open PwVerif.Forward

theorem fwd_items (cfg : Cfg) : ∀ (j c0 : Nat) (rest : List In) (s : St), s.counter = c0 →
    fwd cfg (itemsFrom c0 j ++ rest) s =
      fwd cfg rest { s with counter := c0 + j, out := s.out ++ outItemsFrom c0 j } := by
  intro j
  induction j with
  | zero =>
    intro c0 rest s hc
    simp only [itemsFrom, outItemsFrom, List.nil_append, List.append_nil, Nat.add_zero]
    rw [← hc]
  | succ j ih =>
    intro c0 rest s hc
    simp only [itemsFrom, outItemsFrom, List.cons_append, fwd, hc, beq_self_eq_true, Bool.or_true, if_true]
    split
    · rw [ih (c0 + 1) rest _ rfl]
      simp only [List.append_assoc, List.singleton_append]
      congr 2
      omega
    · rw [ih (c0 + 1) rest _ rfl]
      simp only [List.append_assoc, List.singleton_append]
      congr 2
      omega

/-- **C06 the forwarded stream ends exactly once.** -/
theorem C06_forward_once (cfg : Cfg) (hg : Good cfg = true) (j : Nat) (e : Option Nat) (f : Bool) (hwf : WF j e) :
    (fwd cfg (stream j e f) {}).crashed = false ∧
    ∃ c, (fwd cfg (stream j e f) {}).out = outItemsFrom 0 j ++ [.endM c] := by
  simp only [Good, Bool.and_eq_true, bne_iff_ne, ne_eq] at hg
  obtain ⟨⟨hal, hfl⟩, hne⟩ := hg
  unfold stream
  rw [List.append_assoc, fwd_items cfg j 0 _ {} rfl]
  cases e with
  | none =>
    cases f with
    | true =>
      simp only [List.nil_append, if_true, fwd, afterLoop, hal, Bool.not_false, Bool.and_self, putMarker]
      exact ⟨trivial, ⟨0 + j, by simp⟩⟩
    | false =>
      simp only [List.nil_append, Bool.false_eq_true, if_false, fwd, afterLoop, hal, Bool.true_and, putMarker]
      cases cfg.closedPutsMarker <;> simp
  | some c =>
    have hok : endOk cfg.endAssert c (0 + j) = true := by
      simp only [WF] at hwf
      cases hea : cfg.endAssert with
      | eqCounter => exact absurd hea hne
      | eqOrNext => simp only [endOk, Bool.or_eq_true, beq_iff_eq]; omega
      | none => rfl
    cases f with
    | true =>
      simp only [List.singleton_append, if_true, fwd, hok, hfl, Bool.or_true, afterLoop, hal, Bool.not_true, Bool.and_false,
        Bool.false_eq_true, if_false]
      cases cfg.endPutBeforeAssert <;> simp
    | false =>
      simp only [List.singleton_append, Bool.false_eq_true, if_false, List.append_nil, fwd, hok, hfl, Bool.or_true, afterLoop, hal,
        Bool.not_true, Bool.and_false, if_true]
      cases cfg.endPutBeforeAssert <;> simp

/-- the function as it is in /repo now satisfies the premise -/
theorem C06_forward_generated_good : Good Gen.fwdCfg = true := by decide

/-- ... hence: **the regenerated `_fetch_results` ends every stream exactly once** -/
theorem C06_forward_once_generated (j : Nat) (e : Option Nat) (f : Bool) (hwf : WF j e) :
    (fwd Gen.fwdCfg (stream j e f) {}).crashed = false ∧
    ∃ c, (fwd Gen.fwdCfg (stream j e f) {}).out = outItemsFrom 0 j ++ [.endM c] :=
  C06_forward_once Gen.fwdCfg C06_forward_generated_good j e f hwf

/-- the defect repaired by the `fix:` commit 4182d3d, kept as a witness: without the marker after the loop a
    final result that comes without the child's own end message (the server killed the child and reports on
    its behalf) leaves the stream open - a consumer blocked on a queue waits for ever -/
theorem C06_forward_counterexample_before_fix :
    (fwd { Gen.fwdCfg with afterLoopPutsMarker := false } (stream 2 none true) {}).out = [.item 1, .item 2] := by
  decide

/-- asserting before forwarding with the strict counter check (seeded change C06-B) kills the thread before
    the end message is forwarded when the child stopped between counting and sending -/
theorem C06_forward_counterexample_strict :
    (fwd { Gen.fwdCfg with endPutBeforeAssert := false, endAssert := .eqCounter } (stream 2 (some 3) true) {}).crashed = true := by
  decide

example : WF 2 (some 3) ∧ stream 2 (some 3) true = [.item 1, .item 2, .endM 3, .final] := by
  constructor
  · simp [WF]
  · decide

end PwVerif.C06
