import PwVerif.Lemmas.Deferred
/-!
# C03, continued — deferred delivery: the control thread has the request, the exception comes later

`deferred d`: the child's control thread *receives* the request at landing point `k` (and sets
`_terminate_req`) but raises the exception only `d` line events of the working thread later (it was
descheduled between `recv()` and `foreign_raise`), or when the working thread joins it - whichever
comes first. The `join()` that follows the release of the control thread is what fences the delivery
inside the `try` blocks of `_run_backend`; without it the exception lands in the outer `finally`,
the result message is never sent and the parent sees neither outcome.

Quantifier: every target × every reachable arrival point `k` × every delay `d ≤ (number of line
events after k)` - a larger delay means the exception is never raised in the working thread, which is
what `d = number of remaining events` already gives. Programs regenerated from /repo on every run;
the table itself is evaluated by the kernel in `Lemmas/Deferred.lean`.
-/
namespace PwVerif.C03
open PwVerif.Py PwVerif.Lifecycle PwVerif.Gen PwVerif.Deferred

/-- **C03 under deferred delivery**: at every reachable arrival point and for every delay the outcome is
    "terminated" or the worker's own outcome (unless the exception is raised inside the run loop's own
    `except` handlers - the known finding); raised while the target runs (line 0) it is "terminated". -/
def deferredOK (prog : List Stmt) (start : Nat) (kd : Kind) : Prop :=
  ∀ t : Target, deferredAll prog { target := t } [] start (dich kd (handlerLinesL prog)) = true

theorem C03_deferred_process : deferredOK processRun processRunStart .process := by
  intro t
  have h : table processRun processRunStart .process t = true := by
    cases t
    · exact process_returns
    · exact process_raisesUser
    · exact process_raisesBase
  exact deferredAll_mono (fun a b hb => by simp only [both, Bool.and_eq_true] at hb; exact hb.2) h

theorem C03_deferred_remote : deferredOK remoteRun remoteRunStart .remote := by
  intro t
  have h : table remoteRun remoteRunStart .remote t = true := by
    cases t
    · exact remote_returns
    · exact remote_raisesUser
    · exact remote_raisesBase
  exact deferredAll_mono (fun a b hb => by simp only [both, Bool.and_eq_true] at hb; exact hb.2) h

/-- the fence: a request received while the target runs and still undelivered when the target returns is
    raised at the `join()` of the control thread, inside the `try` blocks: reported as terminated -/
example : (run remoteRun {} [] (some 40) (.deferred 30)).1.raisedAt.isSome = true ∧
    observe .remote (run remoteRun {} [] (some 40) (.deferred 30)).1 = terminated := by decide +kernel

example : (run processRun {} [] (some 20) (.deferred 1)).1.raisedAt = some 0 ∧
    observe .process (run processRun {} [] (some 20) (.deferred 1)).1 = terminated := by decide +kernel

end PwVerif.C03
