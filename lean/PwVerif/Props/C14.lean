import PwVerif.Lemmas.Frames
/-!
# C14 — every opt-in object is restored; loading always succeeds

Model: `PwVerif.Frames` (the positional frame stack of `_remote_pickle/state.py` as it is).

The property's "loading always succeeds for any number of opt-in siblings" is **false** of
the current code (known finding, reproduced on the real code by `harness/c14.py`):
`C14_full_false`. What is proved is the exact boundary: a load without patches succeeds
and leaves the stack clean **iff-side** whenever no opt-in object names more than one
opt-in direct child (`C14_loads_partial`), for graphs of any size, depth and shape.
-/
namespace PwVerif.C14
open PwVerif.Frames

mutual
/-- every opt-in object of the graph names at most one direct opt-in child
    (back-references to opt-in objects count: the dumper names them too) -/
def wf : Node → Bool
  | .atom => true
  | .ref => true
  | .plain items => wfL items
  | .opt _ fields => decide ((namesF fields).length ≤ 1) && wfF fields
def wfL : List Node → Bool
  | [] => true
  | n :: ns => wf n && wfL ns
def wfF : List (Nat × Node) → Bool
  | [] => true
  | (_, n) :: fs => wf n && wfF fs
end

/-- The full statement of the loading half of C14 (no patches). -/
def C14_full : Prop := ∀ g : Node, ∃ s, load [] g = .ok s

/-- Two opt-in siblings under one opt-in parent: the real code raises `AssertionError`
    in `child_restored`; so does the model. -/
theorem C14_counterexample_siblings :
    outcome (load [] (.opt 1 [(1, .opt 2 []), (2, .opt 3 [])])) = some .assertChildRestored := by
  decide +kernel

/-- One opt-in child plus a reference back to the parent itself (a cycle) fails the same way. -/
theorem C14_counterexample_cycle :
    outcome (load [] (.opt 1 [(1, .opt 2 []), (2, .ref)])) = some .assertChildRestored := by
  decide +kernel

theorem C14_full_false : ¬ C14_full := by
  intro h
  obtain ⟨s, hs⟩ := h (.opt 1 [(1, .opt 2 []), (2, .opt 3 [])])
  have := C14_counterexample_siblings
  rw [hs] at this
  cases this

mutual
theorem run_wf (g : Node) (hg : wf g = true) (s : St) (h : J s) :
    ∃ s', runEvents s (events g) = .ok s' ∧ J s' ∧ s'.stack.length ≤ s.stack.length :=
  match g with
  | .atom => ⟨s, by simp [events, runEvents], h, Nat.le_refl _⟩
  | .ref => ⟨s, by simp [events, runEvents], h, Nat.le_refl _⟩
  | .plain items => by
    simp only [wf] at hg
    simpa [events] using run_wfL items hg s h
  | .opt id fields => by
    simp only [wf, Bool.and_eq_true, decide_eq_true_eq] at hg
    obtain ⟨s1, e1, j1, l1, _⟩ := step_recreate_J h id (namesF fields) hg.1
    obtain ⟨s2, e2, j2, l2⟩ := run_wfF fields hg.2 s1 j1
    obtain ⟨s3, e3, j3, l3, _⟩ := step_setstate_J j2 id
    refine ⟨s3, ?_, j3, by omega⟩
    simp only [events, runEvents, e1, runEvents_append, e2, e3]
theorem run_wfL (l : List Node) (hl : wfL l = true) (s : St) (h : J s) :
    ∃ s', runEvents s (eventsL l) = .ok s' ∧ J s' ∧ s'.stack.length ≤ s.stack.length :=
  match l with
  | [] => ⟨s, by simp [eventsL, runEvents], h, Nat.le_refl _⟩
  | n :: ns => by
    simp only [wfL, Bool.and_eq_true] at hl
    obtain ⟨s1, e1, j1, l1⟩ := run_wf n hl.1 s h
    obtain ⟨s2, e2, j2, l2⟩ := run_wfL ns hl.2 s1 j1
    exact ⟨s2, by simp only [eventsL, runEvents_append, e1, e2], j2, by omega⟩
theorem run_wfF (l : List (Nat × Node)) (hl : wfF l = true) (s : St) (h : J s) :
    ∃ s', runEvents s (eventsF l) = .ok s' ∧ J s' ∧ s'.stack.length ≤ s.stack.length :=
  match l with
  | [] => ⟨s, by simp [eventsF, runEvents], h, Nat.le_refl _⟩
  | (k, n) :: ns => by
    simp only [wfF, Bool.and_eq_true] at hl
    obtain ⟨s1, e1, j1, l1⟩ := run_wf n hl.1 s h
    obtain ⟨s2, e2, j2, l2⟩ := run_wfF ns hl.2 s1 j1
    exact ⟨s2, by simp only [eventsF, runEvents_append, e1, e2], j2, by omega⟩
end

/-- **C14 (loading), partial.** For every graph - any size, depth, mixture of containers,
    shared references and cycles through non-opt-in holders - in which no opt-in object
    names more than one opt-in direct child, a load without patches never hits an assertion,
    `context.__exit__` finds the stack empty and the iterator at -1, and every opt-in
    object's `__setstate__` receives no patch entry, i.e. exactly its own remote state. -/
theorem C14_loads_partial (g : Node) (hg : wf g = true) :
    ∃ s, load [] g = .ok s ∧ s.stack = [] ∧ s.iter1 = 0 ∧ ∀ e ∈ s.delivered, e.2 = [] := by
  have j0 : J (enter []) := by simp [enter, J]
  obtain ⟨s, e, j, l⟩ := run_wf g hg (enter []) j0
  have hlen : s.stack.length = 0 := by simpa [enter] using l
  have hnil : s.stack = [] := List.length_eq_zero_iff.mp hlen
  have hit : s.iter1 = 0 := by rw [j.1, hlen]
  exact ⟨s, by simp [load, e, exit, hnil, hit], hnil, hit, j.2.2⟩

example : wf (.opt 1 [(1, .plain [.opt 2 [], .opt 3 []]), (2, .opt 4 [(1, .ref)])]) = true := by decide
example : outcome (load [] (.opt 1 [(1, .plain [.opt 2 [], .opt 3 []]), (2, .opt 4 [(1, .ref)])])) = none := by
  decide +kernel

end PwVerif.C14
