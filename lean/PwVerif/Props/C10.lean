import PwVerif.Lemmas.Framing
/-!
# C10 — message framing survives any segmentation and detects any truncation

Model: `PwVerif.Framing` (hand-written; tied to `pyworkers/remote.py` `send_msg` /
`recv_msg` by `harness/c10.py`). Quantifiers: every message list, every body
(< 2^32 bytes, the limit of the `!I` header), every cut list (i.e. every
segmentation of the stream into `recv` results, down to one byte per read), every
truncation offset.
-/
namespace PwVerif.C10
open PwVerif.Framing

/-- One message is read back whatever the cuts, leaving the rest of the stream. -/
theorem recvMsg_encode (m rest : List Byte) (cuts : List Nat) (hm : m.length < 4294967296) :
    ∃ cuts', recvMsg ⟨encode m ++ rest, cuts⟩ = (.msg m, ⟨rest, cuts'⟩) := by
  unfold recvMsg encode
  obtain ⟨c1, h1⟩ := recvExact_all 4 4 (be32 m.length) (m ++ rest) cuts [] rfl (Nat.le_refl _)
  obtain ⟨c2, h2⟩ := recvExact_all m.length m.length m rest c1 [] rfl (Nat.le_refl _)
  refine ⟨c2, ?_⟩
  rw [List.append_assoc, h1]
  simp only [List.nil_append, unbe32_be32 _ hm, h2]

/-- A stream cut strictly inside a message (or at a boundary: `k = 0`) is reported as
    `closed`: never `spin`, never a partial or wrong message. -/
theorem recvMsg_truncated (m : List Byte) (k : Nat) (cuts : List Nat)
    (hm : m.length < 4294967296) (hk : k < (encode m).length) :
    ∃ s', recvMsg ⟨(encode m).take k, cuts⟩ = (.closed, s') := by
  unfold recvMsg
  by_cases hk4 : k < 4
  · -- cut inside the header
    obtain ⟨s', h⟩ := recvExact_short 4 4 ((encode m).take k) cuts []
      (by simp [List.length_take]; omega) (Nat.le_refl _)
    exact ⟨s', by rw [h]⟩
  · -- header complete, body short
    have hsplit : (encode m).take k = be32 m.length ++ m.take (k - 4) := by
      unfold encode
      rw [List.take_append, be32_length]
      congr 1
      exact List.take_of_length_le (by rw [be32_length]; omega)
    obtain ⟨c1, h1⟩ := recvExact_all 4 4 (be32 m.length) (m.take (k - 4)) cuts [] rfl (Nat.le_refl _)
    have hlen : (encode m).length = 4 + m.length := by simp [encode, be32_length]
    obtain ⟨s', h2⟩ := recvExact_short m.length m.length (m.take (k - 4)) c1 []
      (by simp [List.length_take]; omega) (Nat.le_refl _)
    refine ⟨s', ?_⟩
    rw [hsplit, h1]
    simp only [List.nil_append, unbe32_be32 _ hm, h2]

theorem recvN_succ_msg (k : Nat) (s s' : Sock) (b : List Byte)
    (h : recvMsg s = (.msg b, s')) : recvN (k + 1) s = .msg b :: recvN k s' := by
  simp only [recvN, h]

theorem recvN_succ_closed (k : Nat) (s s' : Sock)
    (h : recvMsg s = (.closed, s')) : recvN (k + 1) s = [.closed] := by
  simp only [recvN, h]

/-- **C10 round trip.** Any sequence of messages, any segmentation: the receiver reads
    exactly the same sequence and then sees a clean close at the boundary. -/
theorem C10_roundtrip (msgs : List (List Byte)) (cuts : List Nat)
    (h : ∀ m ∈ msgs, m.length < 4294967296) :
    recvN (msgs.length + 1) ⟨encodeAll msgs, cuts⟩ = msgs.map .msg ++ [.closed] := by
  induction msgs generalizing cuts with
  | nil =>
    obtain ⟨s', hs⟩ := recvExact_short 4 4 [] cuts [] (by simp) (Nat.le_refl _)
    have : recvMsg ⟨[], cuts⟩ = (.closed, s') := by simp only [recvMsg, hs]
    simpa [encodeAll] using recvN_succ_closed 0 _ _ this
  | cons m ms ih =>
    obtain ⟨c', hc⟩ := recvMsg_encode m (encodeAll ms) cuts (h m (by simp))
    simp only [List.length_cons, encodeAll, List.map_cons, List.cons_append]
    rw [recvN_succ_msg _ _ _ _ hc, ih c' (fun x hx => h x (by simp [hx]))]

/-- **C10 truncation.** If the peer dies anywhere inside message `m` (after any number of
    complete messages), the receiver gets the complete ones and then `closed` —
    it never spins, blocks on fuel, or returns a partial message. -/
theorem C10_truncation (msgs : List (List Byte)) (m : List Byte) (k : Nat) (cuts : List Nat)
    (h : ∀ x ∈ msgs, x.length < 4294967296) (hm : m.length < 4294967296)
    (hk : k < (encode m).length) :
    recvN (msgs.length + 1) ⟨encodeAll msgs ++ (encode m).take k, cuts⟩
      = msgs.map .msg ++ [.closed] := by
  induction msgs generalizing cuts with
  | nil =>
    obtain ⟨s', hs⟩ := recvMsg_truncated m k cuts hm hk
    simpa [encodeAll] using recvN_succ_closed 0 _ _ hs
  | cons x xs ih =>
    obtain ⟨c', hc⟩ := recvMsg_encode x (encodeAll xs ++ (encode m).take k) cuts (h x (by simp))
    simp only [List.length_cons, encodeAll, List.append_assoc, List.map_cons, List.cons_append]
    rw [recvN_succ_msg _ _ _ _ hc, ih c' (fun y hy => h y (by simp [hy]))]

/-- **C10 never spins**: with the fuel the code's loop structure provides, the `spin`
    outcome is unreachable on *any* stream (well-formed or garbage) and any cuts. -/
theorem C10_no_spin (s : Sock) : (recvMsg s).1 ≠ .spin := by
  have key : ∀ (fuel n : Nat) (s : Sock) (acc : List Byte), n ≤ fuel →
      (recvExact fuel n s acc).1 ≠ .spin := by
    intro fuel
    induction fuel with
    | zero =>
      intro n s acc hn
      have : n = 0 := by omega
      subst this; simp [recvExact]
    | succ fuel ih =>
      intro n s acc hn
      cases n with
      | zero => simp [recvExact]
      | succ n =>
        simp only [recvExact]
        generalize hr : s.recv (n + 1) = r
        obtain ⟨chunk, s'⟩ := r
        by_cases hc : chunk.isEmpty
        · simp [hc]
        · simp only [hc, Bool.false_eq_true, if_false]
          have : chunk.length ≥ 1 := by
            cases chunk with
            | nil => simp at hc
            | cons _ _ => simp
          exact ih _ _ _ (by omega)
  unfold recvMsg
  have h4 := key 4 4 s [] (Nat.le_refl _)
  generalize hr : recvExact 4 4 s [] = r at h4
  obtain ⟨e, s1⟩ := r
  cases e with
  | closed => simp
  | spin => simp at h4
  | got hdr =>
    simp only
    cases hu : unbe32 hdr with
    | none => simp
    | some len =>
      simp only
      have h2 := key len len s1 [] (Nat.le_refl _)
      generalize hr2 : recvExact len len s1 [] = r2 at h2
      obtain ⟨e2, s2⟩ := r2
      cases e2 <;> simp_all

/-- Non-vacuity: a concrete two-message stream read one byte at a time. -/
example : recvN 3 ⟨encodeAll [[1, 2, 3], []], [0, 0, 0, 0, 0, 0, 0, 0, 0, 0, 0, 0]⟩
    = [.msg [1, 2, 3], .msg [], .closed] := by decide +kernel

/-- Non-vacuity: truncation inside the header (2 of 4 bytes) and inside the body. -/
example : recvN 2 ⟨encodeAll [[7]] ++ (encode [1, 2, 3]).take 2, [0, 1]⟩ = [.msg [7], .closed] := by
  decide +kernel
example : recvN 1 ⟨(encode [1, 2, 3]).take 6, []⟩ = [.closed] := by decide +kernel

end PwVerif.C10

namespace PwVerif.C10
open PwVerif.Framing

/-- `sendall` over a transport that writes short puts exactly the data on the wire, whatever the short writes -/
theorem sendAll_all : ∀ (fuel : Nat) (data : List Byte) (caps : List Nat) (wire : List Byte), data.length ≤ fuel →
    (sendAll fuel data caps wire).1 = wire ++ data := by
  intro fuel
  induction fuel with
  | zero =>
    intro data caps wire h
    cases data with
    | nil => simp [sendAll]
    | cons b bs => simp at h
  | succ fuel ih =>
    intro data caps wire h
    cases data with
    | nil => simp [sendAll]
    | cons b bs =>
      simp only [sendAll]
      have hk : ∀ k, 1 ≤ k → ((b :: bs).drop k).length ≤ fuel := by
        intro k hk
        simp only [List.length_drop, List.length_cons] at h ⊢
        omega
      cases caps with
      | nil =>
        simp only
        rw [ih _ _ _ (hk _ (by simp))]
        simp
      | cons c cs =>
        simp only
        rw [ih _ _ _ (hk _ (by simp))]
        rw [List.append_assoc, List.take_append_drop]

theorem sendMsgs_wire (msgs : List (List Byte)) (caps : List Nat) (wire : List Byte) :
    sendMsgs msgs caps wire = wire ++ encodeAll msgs := by
  induction msgs generalizing caps wire with
  | nil => simp [sendMsgs, encodeAll]
  | cons m ms ih =>
    simp only [sendMsgs, encodeAll]
    have h := sendAll_all (encode m).length (encode m) caps wire (Nat.le_refl _)
    generalize sendAll (encode m).length (encode m) caps wire = r at h
    obtain ⟨w', c'⟩ := r
    simp only at h ⊢
    rw [ih, h, List.append_assoc]

/-- **C10 end to end.** Whatever short writes the sender's transport makes (`caps`) and however the receiver's
    transport segments the stream (`cuts`), the receiver reads back exactly the messages that were sent, then sees
    the connection closed. -/
theorem C10_end_to_end (msgs : List (List Byte)) (caps cuts : List Nat)
    (hm : ∀ m ∈ msgs, m.length < 4294967296) :
    recvN (msgs.length + 1) ⟨sendMsgs msgs caps [], cuts⟩ = msgs.map Recv.msg ++ [Recv.closed] := by
  rw [sendMsgs_wire]
  simpa using C10_roundtrip msgs cuts hm

example : sendMsgs [[1, 2, 3], []] [0, 0, 1] [] = [0, 0, 0, 3, 1, 2, 3, 0, 0, 0, 0] := by decide

end PwVerif.C10
