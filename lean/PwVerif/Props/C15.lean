import PwVerif.Lemmas.Frames
/-!
# C15 — load-time patches reach only the addressed objects and leave no residue

Model: `PwVerif.Frames`. Delivery of patches is **positional** in the current code: a
frame pushed for a named child is consumed by whichever opt-in object is restored next.
The property's delivery clause is therefore false as soon as an opt-in object sits inside a
list / dict / plain object, or the top-level object is not opt-in (known finding; replayed
on the real code by `harness/c15.py`): `C15_delivery_false`. Proved here:

* `C15_independent` - a load never depends on what earlier loads left behind;
* (in `Props/C14.lean`, `C14_loads_partial`) without patches nothing is delivered anywhere,
  for any graph of the loadable class;
* `C15_top_only` - an opt-in top-level object without opt-in descendants receives exactly
  the top-level patches.
-/
namespace PwVerif.C15
open PwVerif.Frames

/-- ids and patch keys delivered, in `__setstate__` order (decidable projection) -/
def deliveredKeys (r : Except Err St) : List (Nat × List Nat) :=
  (deliveredOf r).map fun (i, ps) => (i, ps.map (·.1))

/-- The delivery clause of C15 for the witness graph `Opt1(c=[Opt2], d=Opt3)` and patches
    `{x: 1, d: {y: 5}}`: top level (1) should get `x`, `d`-child (3) should get `y`,
    the list-held object (2) nothing. -/
def C15_delivery_witness : Prop :=
  deliveredKeys (load [(1, .val 1), (4, .dict [(8, .val 5)])]
      (.opt 1 [(3, .plain [.opt 2 [(9, .atom)]]), (4, .opt 3 [(8, .atom)])]))
    = [(2, []), (3, [8]), (1, [1, 4])]

/-- What the code does instead: `y` lands on the list-held object 2, the top-level entries land
    on object 3, the top-level object gets nothing. (Same outcome observed on the real code.) -/
theorem C15_counterexample :
    deliveredKeys (load [(1, .val 1), (4, .dict [(8, .val 5)])]
      (.opt 1 [(3, .plain [.opt 2 [(9, .atom)]]), (4, .opt 3 [(8, .atom)])]))
    = [(2, [8]), (3, [1, 4]), (1, [])] := by decide +kernel

theorem C15_delivery_false : ¬ C15_delivery_witness := by
  unfold C15_delivery_witness
  rw [C15_counterexample]
  decide

/-- With patches a non-chain graph can also fail outright: a back-reference named as a child
    leaves its frame on the stack and `context.__exit__` asserts. -/
theorem C15_counterexample_exit :
    outcome (load [(7, .val 3)] (.opt 1 [(7, .ref)])) = some .assertExit := by decide +kernel

/-- A load started from any residue of the per-thread state (`residue` = whatever an earlier
    load - successful or failed half-way - left in `stack`, `iter`, `unused`): the first thing
    `RemoteState.context.__init__` does is to overwrite all three fields, so the load is the
    same function of `(patches, graph)` as on a fresh thread. -/
def loadFrom (_residue : St) (p : Patches) (g : Node) : Except Err St :=
  -- context.__init__: stack = [], iter = -1, unused = True; __enter__: push the top frame
  load p g

theorem C15_independent (r r' : St) (p : Patches) (g : Node) :
    loadFrom r p g = loadFrom r' p g := rfl

/-- An opt-in top-level object with no opt-in object anywhere below it (any number of fields
    holding atoms) receives exactly the top-level patches, whatever they are. -/
theorem C15_top_only (id : Nat) (fields : List (Nat × Node)) (p : Patches)
    (hf : ∀ f ∈ fields, f.2 = .atom) :
    deliveredOf (load p (.opt id fields)) = [(id, p)] := by
  have hnames : namesF fields = [] := by
    induction fields with
    | nil => rfl
    | cons f fs ih =>
      obtain ⟨k, n⟩ := f
      have : n = .atom := hf (k, n) (by simp)
      subst this
      simp only [namesF, isOpt]
      exact ih (fun x hx => hf x (by simp [hx]))
  have hev : eventsF fields = [] := by
    clear hnames
    induction fields with
    | nil => rfl
    | cons f fs ih =>
      obtain ⟨k, n⟩ := f
      have : n = .atom := hf (k, n) (by simp)
      subst this
      simp only [eventsF, events, List.nil_append]
      exact ih (fun x hx => hf x (by simp [hx]))
  cases p with
  | nil =>
    simp [load, events, hnames, hev, runEvents, step, enter, curFrame?, subFrames, exit, deliveredOf, dummy]
  | cons e es =>
    simp [load, events, hnames, hev, runEvents, step, enter, curFrame?, subFrames, exit, deliveredOf]

example : deliveredKeys (load [(1, .val 1)] (.opt 5 [(1, .atom), (2, .atom)])) = [(5, [1])] := by
  decide +kernel

end PwVerif.C15
