import PwVerif.Model.Lifecycle
import PwVerif.Model.Create
import PwVerif.Gen.RunLoops
/-!
# C02 — all worker kinds compute exactly what a direct call would

* `C02_direct_*` (regenerated programs, undisturbed run): for a target that returns / raises an
  `Exception`, what the parent observes after `wait()` is exactly the direct call's outcome;
  `C02_kinds_agree`: hence the three kinds agree with each other.
* `C02_notrun`, `C02_create_table`: the never-run rule and the factory's class table.
* result size: `C02_delivered_thread_remote` for every size; for the process kind the statement
  "every size is delivered" is **false** (`C02_process_counterexample`, known finding: a result
  larger than the pipe buffer deadlocks `wait()`); `C02_process_partial` under `size ≤ cap`.
-/
namespace PwVerif.C02
open PwVerif.Py PwVerif.Lifecycle PwVerif.Gen PwVerif.Create

def obs (prog : List Stmt) (kd : Lifecycle.Kind) (t : Target) : Obs :=
  observe kd (run prog { target := t } [] none .kill).1

theorem C02_direct_thread : ∀ t ∈ [Target.returns, Target.raisesUser], obs threadRun .thread t = own t := by decide +kernel
theorem C02_direct_process : ∀ t ∈ [Target.returns, Target.raisesUser], obs processRun .process t = own t := by decide +kernel
theorem C02_direct_remote : ∀ t ∈ [Target.returns, Target.raisesUser], obs remoteRun .remote t = own t := by decide +kernel

theorem C02_kinds_agree : ∀ t ∈ [Target.returns, Target.raisesUser],
    obs threadRun .thread t = obs processRun .process t ∧ obs processRun .process t = obs remoteRun .remote t := by
  decide +kernel

/-- a worker with `run=False`, or `run=None` and a falsy target, is never started -/
theorem C02_notrun (run : Option Bool) (truthy : Bool) :
    willRun run truthy = false ↔ (run = some false ∨ (run = none ∧ truthy = false)) := by
  cases run with
  | none => cases truthy <;> simp [willRun]
  | some r => cases r <;> simp [willRun]

theorem C02_create_table :
    [className .thread false, className .process false, className .remote false,
     className .thread true, className .process true, className .remote true]
    = ["ThreadWorker", "ProcessWorker", "RemoteWorker",
       "PersistentThreadWorker", "PersistentProcessWorker", "PersistentRemoteWorker"] := by decide

theorem C02_delivered_thread_remote (size cap : Nat) :
    delivered .thread size cap = true ∧ delivered .remote size cap = true := ⟨rfl, rfl⟩

/-- the full statement for the process kind -/
def C02_process_full : Prop := ∀ size cap, delivered .process size cap = true

theorem C02_process_counterexample : ¬ C02_process_full := by
  intro h
  have := h 1 0
  simp [delivered] at this

theorem C02_process_partial (size cap : Nat) (h : size ≤ cap) : delivered .process size cap = true := by
  simp [delivered, h]

example : own .returns ≠ own .raisesUser := by decide

end PwVerif.C02
