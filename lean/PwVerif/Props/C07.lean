import PwVerif.Lemmas.PoolQ
import PwVerif.Lemmas.PoolF
/-!
# C07 — Pool.run yields exactly one result per input under every schedule and death

Model: `PwVerif.Pool` (hand-written, mirrors the closures of `Pool.run`; tied to the code by
`harness/c07.py`, which drives the **real** `Pool.run` with the same adversary scripts).

Quantifiers: any number of workers, any input list, any `worker_extra_pending_inputs`, any choice
function for the idle worker, any pre-run deaths, and **every** sequence of adversary events
(worker answers / dies with or without end marker / the pool reads ready queues in any batches).

Configuration of **all** theorems: `Retrying` = retry on, results returned and **any** user `enqueue_fn` (an
arbitrary refusal function `c.refuse`; an accepting `enqueue_fn` is assumed to enqueue to the worker it was given,
like `worker.enqueue`). Before the repair of the refusal livelock in `handle_death` (a refused input was re-offered
to the same idle worker for ever) the liveness clauses needed "no `enqueue_fn`"; the old witness is kept below as
`C07_refusal_witness_after_fix`.
-/
namespace PwVerif.C07
open PwVerif.Pool

/-- **C07 exactly once.** Whenever the run returns normally, its result list is a permutation of the
    inputs: one result for every input, none missing, none duplicated. -/
theorem C07_exact (c : Cfg) (hc : Retrying c) (pick : List Nat → Option Nat) (hp : PickOK pick)
    (n : Nat) (src : List Inp) (pre evs : List Ev) (ret : List Inp)
    (h : outcome (runEvents c pick (start c pick n src pre) evs) = .returned ret) :
    ret.Perm src := by
  have hinv := inv_runEvents hc hp evs _ (inv_start hc hp n src pre)
  generalize runEvents c pick (start c pick n src pre) evs = s at h hinv
  unfold outcome at h
  split at h
  · cases h
  · split at h
    · cases h
    · split at h
      · rename_i hexit
        simp only [Outcome.returned.injEq] at h
        subst h
        simp only [Bool.and_eq_true, decide_eq_true_eq, List.isEmpty_iff] at hexit
        obtain ⟨⟨hd, hpend⟩, hretr⟩ := hexit
        have hsrc := hinv.depl hd
        -- pending = 0 means every pending list is empty
        have hlen : ppwLen s = 0 := by
          have := hinv.pending
          rw [hpend] at this
          omega
        have hzero : ∀ i, ppwCount i s = 0 := by
          intro i
          have hall : ∀ x ∈ s.ws, x.ppw = [] := by
            have : ∀ (l : List Worker), (l.map fun x => x.ppw.length).sum = 0 → ∀ x ∈ l, x.ppw = [] := by
              intro l
              induction l with
              | nil => intro _ x hx; simp at hx
              | cons a as ih =>
                intro hs x hx
                simp only [List.map_cons, List.sum_cons] at hs
                simp only [List.mem_cons] at hx
                rcases hx with rfl | hx
                · exact List.length_eq_zero_iff.mp (by omega)
                · exact ih (by omega) x hx
            exact this s.ws hlen
          have : ∀ (l : List Worker), (∀ x ∈ l, x.ppw = []) → (l.map fun x => x.ppw.count i).sum = 0 := by
            intro l
            induction l with
            | nil => intro _; rfl
            | cons a as ih =>
              intro hl
              simp only [List.map_cons, List.sum_cons]
              rw [hl a (by simp), ih (fun x hx => hl x (by simp [hx]))]
              simp
          exact this s.ws hall
        apply List.perm_iff_count.mpr
        intro i
        have := hinv.cons i
        simp only [cnt, hsrc, hretr, hzero i, List.count_nil] at this
        omega
      · cases h

/-- **C07 no internal error.** No schedule makes the run pop from an empty pending list
    (the `IndexError` of the code before the fix). -/
theorem C07_no_internal_error (c : Cfg) (hc : Retrying c) (pick : List Nat → Option Nat) (hp : PickOK pick)
    (n : Nat) (src : List Inp) (pre evs : List Ev) :
    (runEvents c pick (start c pick n src pre) evs).err ≠ some .popEmpty :=
  (inv_runEvents hc hp evs _ (inv_start hc hp n src pre)).nopop

/-- Conservation at every moment of every schedule: each input is, with multiplicity, in exactly one of
    the source, the retry list, some worker's pending list, or the results. -/
theorem C07_conservation (c : Cfg) (hc : Retrying c) (pick : List Nat → Option Nat) (hp : PickOK pick)
    (n : Nat) (src : List Inp) (pre evs : List Ev) (i : Inp) :
    let s := runEvents c pick (start c pick n src pre) evs
    src.count i = s.src.count i + s.retries.count i + ppwCount i s + s.ret.count i := by
  have := (inv_runEvents hc hp evs _ (inv_start hc hp n src pre)).cons i
  simpa [cnt] using this

/-- the pending lists always agree with what the workers hold: for a worker not yet declared dead the
    pool's pending list is exactly (results waiting in its pipe) ++ (inputs it has not processed yet) -/
theorem C07_fifo_agreement (c : Cfg) (hc : Retrying c) (pick : List Nat → Option Nat) (hp : PickOK pick)
    (n : Nat) (src : List Inp) (pre evs : List Ev) :
    ∀ x ∈ (runEvents c pick (start c pick n src pre) evs).ws, x.closed = false →
      x.ppw = resIn x.chan ++ x.inbox ++ x.lost :=
  fun x hx => ((inv_runEvents hc hp evs _ (inv_start hc hp n src pre)).ws x hx).open_

/-- **C07 the re-dispatch loop always terminates**, whatever the user `enqueue_fn` refuses. In no schedule does
    `handle_death`'s `while self._retries` loop run out of the fuel `(number of workers + 1)^2`: every round hands the
    head of the retry list to an idle worker, or is refused by it (the worker is then skipped for the rest of the round),
    or declares that worker dead - `Lemmas/PoolF.lean`, variant (workers not closed, idle workers not skipped). -/
theorem C07_redispatch_terminates (c : Cfg) (hc : Retrying c) (pick : List Nat → Option Nat) (hp : PickOK pick)
    (n : Nat) (src : List Inp) (pre evs : List Ev) :
    (runEvents c pick (start c pick n src pre) evs).err ≠ some .outOfFuel :=
  fuelOK_runEvents' hc hp evs _ (fuelOK_start' hc hp n src pre)

/-- **C07 never an internal error**: the run can only be waiting, return, or raise PoolError. -/
theorem C07_never_internal (c : Cfg) (hc : Retrying c) (pick : List Nat → Option Nat) (hp : PickOK pick)
    (n : Nat) (src : List Inp) (pre evs : List Ev) (e : Err) :
    outcome (runEvents c pick (start c pick n src pre) evs) ≠ .internal e := by
  have h1 := C07_no_internal_error c hc pick hp n src pre evs
  have h2 := C07_redispatch_terminates c hc pick hp n src pre evs
  generalize runEvents c pick (start c pick n src pre) evs = s at h1 h2
  unfold outcome
  cases he : s.err with
  | some e' => cases e' <;> simp_all
  | none =>
    simp only
    split
    · simp
    · split <;> simp

/-- **C07 progress.** From *any* state: every adversary event (a worker answering, a worker dying, the pool
    reading a batch of queues) leaves the lexicographic measure (workers not yet closed, potential) unchanged
    or smaller, and every *effective* event - a live worker with an input answers, a live worker dies, the
    pool reads a batch whose first queue is ready while the loop is running - makes it strictly smaller. -/
theorem C07_progress (c : Cfg) (hc : Retrying c) (pick : List Nat → Option Nat) (hp : PickOK pick) (s : St) (ev : Ev) :
    Dec s (step c pick s ev) ∧ (effective s ev = true → SDec s (step c pick s ev)) :=
  step_measure hc hp s ev

theorem runEvents_snoc (c : Cfg) (pick : List Nat → Option Nat) (s : St) (l : List Ev) (e : Ev) :
    runEvents c pick s (l ++ [e]) = step c pick (runEvents c pick s l) e := by
  induction l generalizing s with
  | nil => rfl
  | cons x xs ih => simp only [List.cons_append, runEvents]; exact ih _

/-- **C07 terminates.** No schedule - from any state, in particular from the start of any run - contains
    infinitely many effective events: provided every worker eventually answers or dies and the pool reads
    what is ready, `Pool.run` comes to an end. (`evs i` is the i-th event of an infinite schedule.) -/
theorem C07_terminates (c : Cfg) (hc : Retrying c) (pick : List Nat → Option Nat) (hp : PickOK pick) (s0 : St)
    (evs : Nat → Ev) :
    ¬ ∀ i, effective (runEvents c pick s0 ((List.range i).map evs)) (evs i) = true := by
  intro h
  apply no_infinite_sdec (fun i => runEvents c pick s0 ((List.range i).map evs))
  intro i
  have := (step_measure hc hp (runEvents c pick s0 ((List.range i).map evs)) (evs i)).2 (h i)
  simpa [List.range_succ, runEvents_snoc] using this

/-- **C07 never blocks for ever.** In every reachable state in which the event loop is waiting (something is
    pending and a worker is usable) progress is possible without anybody dying: some live worker holds an input
    it has not answered yet, or some registered result queue holds a message or has reached EOF - so the next
    `mp.connection.wait` returns. Together with `C07_terminates`: every fair schedule ends, by a normal return
    or by `PoolError` (`C07_never_internal`). -/
theorem C07_no_deadlock (c : Cfg) (hc : Retrying c) (pick : List Nat → Option Nat) (hp : PickOK pick)
    (n : Nat) (src : List Inp) (pre evs : List Ev)
    (hrun : outcome (runEvents c pick (start c pick n src pre) evs) = .waiting) :
    ∃ w, effective (runEvents c pick (start c pick n src pre) evs) (.work w) = true ∨
         effective (runEvents c pick (start c pick n src pre) evs) (.poll [w]) = true := by
  have hinv := inv_runEvents hc hp evs _ (inv_start hc hp n src pre)
  have hq : QInv (runEvents c pick (start c pick n src pre) evs) :=
    qinv_runEvents hc (pick := pick) evs _ (qinv_start hc (pick := pick) n src pre)
  have h1 := C07_no_internal_error c hc pick hp n src pre evs
  have h2 := C07_redispatch_terminates c hc pick hp n src pre evs
  generalize runEvents c pick (start c pick n src pre) evs = s at hrun hinv hq h1 h2
  have herr : s.err = none := by
    cases he : s.err with
    | none => rfl
    | some e => cases e <;> simp_all
  have hr : running s = true := by
    unfold outcome at hrun
    rw [herr] at hrun
    simp only at hrun
    split at hrun
    · assumption
    · split at hrun <;> cases hrun
  exact progress_possible hinv hq hr herr

/-- non-vacuity: in the start state of a run the first worker answering is an effective event -/
example : effective (start {} pickFirst 2 [1, 2, 3]) (.work 0) = true := by decide +kernel

theorem pickFirst_ok : PickOK pickFirst := by
  intro l w h
  cases l with
  | nil => simp [pickFirst] at h
  | cons a as => simp [pickFirst] at h; subst h; simp

/-- the schedule that made `Pool.run` spin for ever before the repair (W0 dies holding input 1, the idle W1 refuses
    it): the re-dispatch loop now gives up on W1 and the run ends with `PoolError` -/
theorem C07_refusal_witness_after_fix :
    outcome (runEvents { refuse := fun w i => w == 1 && i == 1 } pickFirst
      (start { refuse := fun w i => w == 1 && i == 1 } pickFirst 2 [1]) [.die 0 true, .poll [0]])
    = .poolError [] := by decide +kernel

/-- non-vacuity of the `enqueue_fn` configuration: worker 1 refuses input 2, which is kept on the retry list
    and later handed to worker 0; every input is returned once -/
example : outcome (runEvents { refuse := fun w i => w == 1 && i == 2 } pickFirst
      (start { refuse := fun w i => w == 1 && i == 2 } pickFirst 2 [1, 2, 3])
      [.work 0, .poll [0], .work 0, .poll [0], .work 0, .poll [0]]) = .returned [1, 2, 3] := by
  decide +kernel

/-- non-vacuity: a run with a death that still returns everything -/
example : outcome (runEvents {} pickFirst (start {} pickFirst 2 [1, 2, 3])
    [.work 0, .die 1 false, .poll [1], .poll [0], .work 0, .poll [0], .work 0, .poll [0]]) = .returned [1, 2, 3] := by
  decide +kernel

end PwVerif.C07
