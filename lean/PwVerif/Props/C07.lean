import PwVerif.Model.Pool
namespace PwVerif.C07
open PwVerif.Pool
theorem placeholder : True := trivial
end PwVerif.C07
