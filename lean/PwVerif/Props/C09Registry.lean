import PwVerif.Model.PoolRegistry
import PwVerif.Gen.PoolRegistry
/-!
# C09, continued — no worker outlives its pool: the registry side

`Gen.regCfg` is regenerated from /repo on every run (T-reg).

* `C09_restart_keeps_ownership`: whatever the outcomes of the individual restarts - including a worker that
  cannot be stopped, which makes `restart_workers` raise in the middle - every worker of the pool is still
  registered afterwards (as its old or its new incarnation): nothing is lost from the pool's tables.
* `C09_close_kills_all`: leaving the pool (`close`, `terminate`, `__exit__` normally or by an exception) with
  forced termination not explicitly disabled leaves no registered worker alive, whatever state each was in.
* `C09_nobody_outlives`: the two combined.
* `C09_failed_add`: a worker whose registration fails is not registered, was terminated, and the error is re-raised.
* Both fail for the seeded orders / conditions: `C09_counterexample_forget_first`.
-/
namespace PwVerif.C09
open PwVerif.PoolRegistry

theorem restartLoop_length (cfg : Cfg) (h1 : cfg.restartBeforeForget = true) (h2 : cfg.registersNew = true) :
    ∀ (todo done : Reg) (outs : List RestartOutcome),
      (restartLoop cfg done todo outs).1.length = done.length + todo.length := by
  intro todo
  induction todo with
  | nil => intro done outs; simp [restartLoop]
  | cons w rest ih =>
    intro done outs
    cases outs with
    | nil => simp [restartLoop]
    | cons o outs =>
      cases o with
      | ok newId =>
        simp only [restartLoop, h2, if_true]
        rw [ih]
        simp <;> omega
      | raises =>
        simp only [restartLoop, h1, if_true]
        simp <;> omega

/-- **restart_workers never loses a worker**, for every registry and every sequence of restart outcomes -/
theorem C09_restart_keeps_ownership (reg : Reg) (outs : List RestartOutcome) :
    (restartWorkers Gen.regCfg reg outs).1.length = reg.length := by
  have := restartLoop_length Gen.regCfg (by decide) (by decide) reg [] outs
  simpa [restartWorkers] using this

/-- a worker that `restart()` could not stop is still in the registry afterwards -/
theorem restartLoop_keeps_stuck (cfg : Cfg) (h1 : cfg.restartBeforeForget = true) :
    ∀ (todo done : Reg) (outs : List RestartOutcome) (w : W), w ∈ done →
      w ∈ (restartLoop cfg done todo outs).1 := by
  intro todo
  induction todo with
  | nil => intro done outs w hw; simpa [restartLoop] using hw
  | cons x rest ih =>
    intro done outs w hw
    cases outs with
    | nil => simp [restartLoop, hw]
    | cons o outs =>
      cases o with
      | ok newId =>
        simp only [restartLoop]
        apply ih
        split <;> simp [hw]
      | raises =>
        simp only [restartLoop, h1, if_true]
        simp [hw]

theorem mem_cleanup_dead (cfg : Cfg) (hg : cfg.closeTerminatesIf = true) (hp : cfg.closePassesForce = true)
    (force : Option Bool) (hf : force ≠ some false) (graceful : Bool) (w : W) :
    (cleanupWorker cfg force graceful w).alive = false := by
  unfold cleanupWorker
  cases ha : w.alive with
  | false => simp [ha]
  | true =>
    cases hs : w.stuck with
    | false => simp
    | true =>
      have : (force != some false) = true := by simpa using hf
      simp only [Bool.not_true, Bool.false_eq_true, if_false, hg, this, Bool.true_or, Bool.and_self, if_true, hp]
      cases force with
      | none => simp
      | some b => cases b <;> simp_all

/-- **leaving the pool kills every registered worker** unless forced termination was explicitly disabled -/
theorem C09_close_kills_all (reg : Reg) (force : Option Bool) (hf : force ≠ some false) (graceful : Bool) :
    ∀ w ∈ closeAll Gen.regCfg force graceful reg, w.alive = false := by
  intro w hw
  have hv : (Gen.regCfg.closeVisitsAll && Gen.regCfg.closeGuarded) = true := by decide
  simp only [closeAll, hv, if_true, List.mem_map] at hw
  obtain ⟨x, _, rfl⟩ := hw
  exact mem_cleanup_dead Gen.regCfg (by decide) (by decide) force hf graceful x

/-- **no worker outlives its pool**: after any `restart_workers` (even one that raised because a worker could not
    be stopped), leaving the pool leaves nobody alive - and nobody was dropped from the registry on the way -/
theorem C09_nobody_outlives (reg : Reg) (outs : List RestartOutcome) (force : Option Bool) (hf : force ≠ some false)
    (graceful : Bool) :
    (restartWorkers Gen.regCfg reg outs).1.length = reg.length ∧
    ∀ w ∈ closeAll Gen.regCfg force graceful (restartWorkers Gen.regCfg reg outs).1, w.alive = false :=
  ⟨C09_restart_keeps_ownership reg outs, C09_close_kills_all _ force hf graceful⟩

/-- **a failed add_worker leaks nothing**: the registry is unchanged, the created worker was terminated, the
    caller sees the error -/
theorem C09_failed_add (reg : Reg) (w : W) :
    (addWorker Gen.regCfg reg w .registrationFails).1 = reg ∧
    (addWorker Gen.regCfg reg w .registrationFails).2 = some { w with alive := false } ∧
    (addWorker Gen.regCfg reg w .ctorFails) = (reg, none) ∧
    Gen.regCfg.addReraises = true := by
  refine ⟨?_, ?_, rfl, by decide⟩
  · have : Gen.regCfg.addForgets = true := by decide
    simp [addWorker, this]
  · have h1 : Gen.regCfg.addForgets = true := by decide
    have h2 : Gen.regCfg.addTerminates = true := by decide
    simp [addWorker, h1, h2]

/-- forgetting the old incarnation *before* restarting it (seeded change C09-A): a worker that cannot be stopped
    drops out of the registry when `restart()` raises, and leaving the pool then never reaches it -/
theorem C09_counterexample_forget_first :
    let cfg : Cfg := { Gen.regCfg with restartBeforeForget := false }
    let stuck : W := { id := 1, alive := true, stuck := true }
    (restartWorkers cfg [stuck] [.raises]).1 = [] := by decide

/-- **Ctrl-C while `close()` is waiting.** The join of the clean-up threads is interrupted (they are aborted, nobody is known
    to be dead) and the exception travels on; leaving the `with` block calls `terminate()` - or the user calls it. Because the
    pool is marked closed only *behind* the join, that second call does the whole job again: afterwards the pool is closed and
    no registered worker is alive. Any number of interrupted attempts may come first. -/
def interruptedTimes (cfg : Cfg) : Nat → PoolSt → PoolSt
  | 0, s => s
  | k + 1, s => interruptedTimes cfg k (closeInterrupted cfg s)

theorem C09_interrupted_close (reg : Reg) (k : Nat) (force : Option Bool) (hf : force ≠ some false) (graceful : Bool) :
    let s1 := interruptedTimes Gen.regCfg k ⟨reg, false⟩
    let s2 := closePool Gen.regCfg force graceful s1
    s2.closed = true ∧ ∀ w ∈ s2.reg, w.alive = false := by
  have hm : Gen.regCfg.closeMarksAfterJoin = true := by decide
  have hk : interruptedTimes Gen.regCfg k ⟨reg, false⟩ = ⟨reg, false⟩ := by
    induction k with
    | zero => rfl
    | succ k ih =>
      simp only [interruptedTimes]
      have : closeInterrupted Gen.regCfg ⟨reg, false⟩ = ⟨reg, false⟩ := by simp [closeInterrupted, hm]
      rw [this]; exact ih
  simp only [hk, closePool, Bool.and_false, Bool.false_eq_true, if_false, true_and]
  exact C09_close_kills_all reg force hf graceful

/-- marking the pool closed on the interrupted path as well (seeded change C09-E): the `terminate()` of `__exit__` becomes a
    no-op and a stuck worker outlives the pool -/
theorem C09_counterexample_closed_in_finally :
    let cfg : Cfg := { Gen.regCfg with closeMarksAfterJoin := false }
    let stuck : W := { id := 1, alive := true, stuck := true }
    closePool cfg none false (closeInterrupted cfg ⟨[stuck], false⟩) = ⟨[stuck], true⟩ := by decide

example : closeAll Gen.regCfg none true [{ id := 1, alive := true, stuck := true }, { id := 2, alive := true, stuck := false }]
    = [{ id := 1, alive := false, stuck := true }, { id := 2, alive := false, stuck := false }] := by decide
/-- with forced termination explicitly disabled a stuck worker survives `close()` - allowed by the property -/
example : (closeAll Gen.regCfg (some false) true [{ id := 1, alive := true, stuck := true }]) = [{ id := 1, alive := true, stuck := true }] := by decide

end PwVerif.C09
