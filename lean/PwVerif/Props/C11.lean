import PwVerif.Model.Server
import PwVerif.Gen.ServerLoop
/-!
# C11 — the remote server survives every client failure

`Gen.serverLoop` is regenerated from /repo (T-srv): the client-facing steps of one iteration of
`RemoteServer.run`'s accept loop with the policy the enclosing `try` blocks apply to a
`ConnectionClosedError` raised there.

* `C11_policy`: every step that talks to the client is covered by a handler that goes on with the
  next client (`continue`): none is uncaught, re-raised, or falls through into code that needs
  the failed step's result.
* `C11_survives`: under that policy, for **every sequence of client sessions**, each vanishing
  at any step (or completing), the server is still accepting afterwards - induction over the
  session list. `C11_survives_generated` instantiates it with the regenerated loop.
* `C11_skipped_requests_closed`: the two kinds of request the server skips (None header, unknown
  context) close the client's socket first (used by C20).

What happens *inside* a step (the pickled worker's `__setstate__` doing the control handshake,
the context helper process) is exercised on a real server by `harness/c11.py`: every recorded
request stream cut at byte offsets with FIN/RST and every step of the control handshake.
-/
namespace PwVerif.C11
open PwVerif.Server PwVerif.Gen

def clientFacing (s : Step) : Bool := s.kind != .accept

theorem C11_policy : ∀ s ∈ serverLoop, clientFacing s = true → s.policy = .continue := by decide

/-- a session may vanish at any client-facing step -/
def wellFormed (loop : List Step) (sess : Session) : Bool :=
  match sess.cut with
  | none => true
  | some i => match loop[i]? with
    | none => true
    | some s => clientFacing s

theorem handle_accepting (loop : List Step) (sess : Session)
    (hp : ∀ s ∈ loop, clientFacing s = true → s.policy = .continue) (hw : wellFormed loop sess = true) :
    handle loop .accepting sess = .accepting := by
  unfold handle
  cases hc : sess.cut with
  | none => rfl
  | some i =>
    simp only
    cases hl : loop[i]? with
    | none => rfl
    | some s =>
      simp only
      have hmem : s ∈ loop := List.mem_of_getElem? hl
      have hcf : clientFacing s = true := by
        unfold wellFormed at hw
        rw [hc] at hw
        simp only [hl] at hw
        exact hw
      simp [stepSurvives, hp s hmem hcf]

/-- **C11.** Any number of clients, each failing anywhere: the accept loop is still running. -/
theorem C11_survives (loop : List Step) (sessions : List Session)
    (hp : ∀ s ∈ loop, clientFacing s = true → s.policy = .continue)
    (hw : ∀ x ∈ sessions, wellFormed loop x = true) :
    runSessions loop .accepting sessions = .accepting := by
  induction sessions with
  | nil => rfl
  | cons x xs ih =>
    simp only [runSessions]
    rw [handle_accepting loop x hp (hw x (by simp))]
    exact ih (fun y hy => hw y (by simp [hy]))

theorem C11_survives_generated (sessions : List Session)
    (hw : ∀ x ∈ sessions, wellFormed serverLoop x = true) :
    runSessions serverLoop .accepting sessions = .accepting :=
  C11_survives serverLoop sessions C11_policy hw

/-- a well-formed session after any prefix of faulty ones is served (the loop is accepting) -/
theorem C11_serves_after (faulty : List Session) (hw : ∀ x ∈ faulty, wellFormed serverLoop x = true) :
    handle serverLoop (runSessions serverLoop .accepting faulty) ⟨none⟩ = .accepting := by
  rw [C11_survives_generated faulty hw]; rfl

theorem C11_skipped_requests_closed : skippedRequestsClosed = 2 := by decide

/-- what an unprotected step would mean (the code before the fix: the header read was not covered) -/
example : runSessions [⟨.accept, 1, .uncaught⟩, ⟨.recv, 2, .uncaught⟩] .accepting [⟨some 1⟩, ⟨none⟩] = .dead := by decide
example : (serverLoop.filter clientFacing).length ≥ 4 := by decide

end PwVerif.C11
