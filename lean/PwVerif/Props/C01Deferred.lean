import PwVerif.Lemmas.Deferred
/-!
# C01, continued — the remaining kind of asynchronous event: a terminate request that the child's control
thread has received and delivers later (`Async.deferred`, see `Props/C03Deferred.lean`). Process and remote
kinds (a thread worker has no control thread). Every target × every reachable arrival point × every delay.
-/
namespace PwVerif.C01
open PwVerif.Py PwVerif.Lifecycle PwVerif.Gen PwVerif.Deferred

def shapeDeferred (prog : List Stmt) (start : Nat) (kd : Kind) : Prop :=
  ∀ t : Target, deferredAll prog { target := t } [] start (fun _ st => shape t (observe kd st)) = true

theorem C01_shape_deferred_process : shapeDeferred processRun processRunStart .process := by
  intro t
  have h : table processRun processRunStart .process t = true := by
    cases t
    · exact process_returns
    · exact process_raisesUser
    · exact process_raisesBase
  exact deferredAll_mono (fun a b hb => by simp only [both, Bool.and_eq_true] at hb; exact hb.1) h

theorem C01_shape_deferred_remote : shapeDeferred remoteRun remoteRunStart .remote := by
  intro t
  have h : table remoteRun remoteRunStart .remote t = true := by
    cases t
    · exact remote_returns
    · exact remote_raisesUser
    · exact remote_raisesBase
  exact deferredAll_mono (fun a b hb => by simp only [both, Bool.and_eq_true] at hb; exact hb.1) h

end PwVerif.C01
