import PwVerif.Lemmas.WholeThread
import PwVerif.Lemmas.WholeProcess
import PwVerif.Lemmas.WholeRemote
/-!
# C06 on the regenerated programs: any number of items, any landing point of the stop

`C06_generated_*` (`Props/C06.lean`) evaluate the regenerated child-side programs of the three persistent kinds for
two enqueued items and every landing point (finite tables decided by the kernel). Here the prefix clause of C06 is
proved about the **same regenerated programs** (`Gen/RunLoops.lean`, translated from `/repo` on every run) for
**every** number `n` of enqueued items and **every** number `K` of line events after which the worker is stopped
- by `terminate()` (the exception raised in the working thread, directly or through the child's control thread) or by
a kill:

  the messages on the results pipe are result messages with counters `1..j` for some `j ≤ n`, in order, followed by
  nothing or by exactly one end marker (`Py.StreamShape`) - a reader never sees a result twice, out of order, with a
  gap, or anything after the end marker.

How (`Lemmas/PyLoopD.lean`, `Lemmas/Loop*.lean`, `Lemmas/Early*.lean`, `Lemmas/Whole*.lean`; DESIGN 0.6): the loop is
summarised by induction on `n` from facts about one pass obtained by symbolic evaluation of the generated loop body at
each landing point inside a pass; the statements around the loop are evaluated symbolically once per landing point in
them, with the loop replaced by its summary. No generated line number is quoted: renumbering the source does not touch
the proofs; adding a statement to the run loop changes the pass lengths, which are recomputed (`eval_nat%`).

`C06_generated_unbounded_ends_*`: the "always ends" clause for a graceful stop landing anywhere inside the loop.

For the remote kind the prefix theorem is **partial**: it covers every event that lands before the loop is left (`K` smaller
than the line events before the loop plus those of the loop on `n` items); the symbolic evaluation of the long tail of
`_run_backend` after the loop was too expensive to keep in the build. Events landing there are covered by the finite
table `C06_generated_remote` (two items).
-/
namespace PwVerif.C06
open PwVerif.Py PwVerif.Gen PwVerif.LoopK

/-- the environment: the target returns, is not `None`, does not assign `user_state` -/
def plainEnv : Env := {}
theorem plainEnv_returns : Returns plainEnv := ⟨rfl, rfl, rfl⟩
theorem plainEnv_returnsC05 : C05.Returns plainEnv := ⟨rfl, rfl, rfl⟩

/-- the run of a regenerated program on `n` items and the release marker, stopped by `a` after `K` line events -/
def stoppedRun (prog : List Stmt) (F n K : Nat) (a : Async) : St × Out :=
  execBlock plainEnv F { inputs := List.replicate n .item ++ [.release], left := some K, async := a } prog

/-- **C06 prefix, regenerated `PersistentThreadWorker` program, any `n`, any `K`**; stops: `terminate()` (the exception
    set in the working thread) or a kill -/
theorem C06_generated_unbounded_thread (a : Async) (ha : a = .raiseWte false ∨ a = .kill) (n K : Nat) :
    ∃ F0, ∀ F, F0 ≤ F → StreamShape n (stoppedRun pthreadRun F n K a) :=
  pthread_whole plainEnv plainEnv_returns plainEnv_returnsC05 a ha n K

/-- **C06 prefix, regenerated `PersistentProcessWorker` program, any `n`, any `K`**; stops: `terminate()` delivered by
    SIGTERM (the child's control thread raises) or directly, or a kill -/
theorem C06_generated_unbounded_process (a : Async) (ha : a = .raiseWte false ∨ a = .kill ∨ a = .raiseWte true) (n K : Nat) :
    ∃ F0, ∀ F, F0 ≤ F → StreamShape n (stoppedRun pprocessRun F n K a) :=
  pprocess_whole plainEnv plainEnv_returns plainEnv_returnsC05 a ha n K

/-- **C06 prefix, regenerated `PersistentRemoteWorker` backend, any `n`, any `K` up to the end of the loop** (partial:
    see the head of this file) -/
theorem C06_generated_unbounded_remote_partial (a : Async) (ha : a = .raiseWte false ∨ a = .kill ∨ a = .raiseWte true) (n K : Nat)
    (hK : K < premoteP + loopLen n premoteL premoteLr) :
    ∃ F0, ∀ F, F0 ≤ F → StreamShape n (stoppedRun premoteRun F n K a) :=
  premote_whole_partial plainEnv plainEnv_returns plainEnv_returnsC05 a ha n K hK

/-- **C06 "always ends", regenerated programs, any number of items: a graceful stop that lands inside the loop** - in any
    of the `n + 1` passes, at any line of it - leaves the stream with the first `j ≤ n` results followed by exactly one end
    marker. (The region grows with `n`; landing points before and after the loop are the two-item tables
    `C06_graceful_ends_*`, which also show where the clause fails: inside the clean-up itself.) -/
theorem C06_generated_unbounded_ends_thread (n K : Nat) (h1 : pthreadP ≤ K) (h2 : K < pthreadP + loopLen n pthreadL pthreadLr) :
    ∃ F0, ∀ F, F0 ≤ F → StreamEnds n (stoppedRun pthreadRun F n K (.raiseWte false)) :=
  pthread_ends_in_loop plainEnv plainEnv_returns (.raiseWte false) (Or.inl rfl) (by simp) n K h1 h2

theorem C06_generated_unbounded_ends_process (a : Async) (ha : a = .raiseWte false ∨ a = .raiseWte true) (n K : Nat)
    (h1 : pprocessP ≤ K) (h2 : K < pprocessP + loopLen n pprocessL pprocessLr) :
    ∃ F0, ∀ F, F0 ≤ F → StreamEnds n (stoppedRun pprocessRun F n K a) :=
  pprocess_ends_in_loop plainEnv plainEnv_returns a (by rcases ha with rfl | rfl <;> simp [pprocessCov])
    (by rcases ha with rfl | rfl <;> simp) n K h1 h2

theorem C06_generated_unbounded_ends_remote (a : Async) (ha : a = .raiseWte false ∨ a = .raiseWte true) (n K : Nat)
    (h1 : premoteP ≤ K) (h2 : K < premoteP + loopLen n premoteL premoteLr) :
    ∃ F0, ∀ F, F0 ≤ F → StreamEnds n (stoppedRun premoteRun F n K a) :=
  premote_ends_in_loop plainEnv plainEnv_returns a (by rcases ha with rfl | rfl <;> simp [premoteCov])
    (by rcases ha with rfl | rfl <;> simp) n K h1 h2

/-- what `StreamShape` says about the values a reader obtains: they are exactly the first `j` result messages -/
theorem streamShape_items (n : Nat) (r : St × Out) (h : StreamShape n r) :
    ∃ j, j ≤ n ∧ r.1.results.filter (fun m => match m with | .item _ => true | _ => false) = itemsFrom 0 j := by
  obtain ⟨_, j, hj, h | ⟨e, h⟩⟩ := h
  · refine ⟨j, hj, ?_⟩
    rw [h]
    have : ∀ c k, (itemsFrom c k).filter (fun m => match m with | .item _ => true | _ => false) = itemsFrom c k := by
      intro c k; induction k generalizing c with
      | zero => rfl
      | succ k ih => simp [itemsFrom, ih]
    exact this 0 j
  · refine ⟨j, hj, ?_⟩
    rw [h]
    have : ∀ c k, (itemsFrom c k).filter (fun m => match m with | .item _ => true | _ => false) = itemsFrom c k := by
      intro c k; induction k generalizing c with
      | zero => rfl
      | succ k ih => simp [itemsFrom, ih]
    simp [List.filter_append, this]

/-! non-vacuity and cross-checks with the interpreter run at a fixed fuel: the loop is entered, left by the event in the
    third pass (process: between the counter bump and the send), and the shapes differ -/
example : (stoppedRun pprocessRun 400 5 (pprocessP + 2 * (pprocessL + 1) + 3) (.raiseWte true)).1.results =
    [.item 1, .item 2, .endMarker 2] := by decide +kernel
example : (stoppedRun pprocessRun 400 5 (pprocessP + 2 * (pprocessL + 1) + pprocessL) (.raiseWte true)).1.results =
    [.item 1, .item 2, .endMarker 3] := by decide +kernel
example : (stoppedRun pprocessRun 400 3 (pprocessP + 1 * (pprocessL + 1) + 3) .kill).1.results = [.item 1] := by decide +kernel
/-- the alternative "nothing after the results" is needed for a graceful stop too: a `terminate()` landing in the thread
    worker's clean-up loses the end marker (the known finding of C06) -/
example : (stoppedRun pthreadRun 400 2 (pthreadP + loopLen 2 pthreadL pthreadLr + 1) (.raiseWte false)).1.results =
    [.item 1, .item 2] := by decide +kernel
example : (stoppedRun premoteRun 400 2 (premoteP + 1) (.raiseWte true)).1.results = [.endMarker 0] := by decide +kernel
/-- the landing points excluded from the remote theorem do exist (the bound is not vacuous the other way round) -/
example : premoteP + loopLen 2 premoteL premoteLr < (lineTrace premoteRun {} [.item, .item, .release]).length := by decide +kernel

end PwVerif.C06
