import PwVerif.Model.Mro
/-!
# C13 — remote_pickle is invisible to code that does not opt in

* `C13_mro_spec`: for every MRO (any length, any mixture) the metaclass check computes the
  declarative reading: `Warning` iff a plain `__getstate__` shadows a remote-aware one
  (before any class that defines `__reduce__`/`__reduce_ex__`), otherwise opt-in iff no
  class defines a reduce method and some class has a remote-aware `__getstate__`.
* `C13_nonoptin_same`, `C13_remote_false`, `C13_std_unaffected`: the reducer chosen by a
  `RemotePickler` equals standard pickle's for every non-opt-in object (both flags); for
  `remote=False` an opt-in object is reduced through the re-implementation of
  `object.__reduce_ex__` with `__getstate__(remote=False)`; standard pickling never passes
  the flag. The quantifier is a finite feature table, decided completely.
-/
namespace PwVerif.C13
open PwVerif.Mro

/-- generalised loop invariant: the loop from flags `(allow, has)` on `mro` -/
def specFrom (mro : List ClassInfo) (allow has : Bool) : Res :=
  let p := prefixOf mro
  if (!allow && p.any (·.gs = .remote)) || inconsistent p then .warning
  else if hasReduce mro then .ok false
  else .ok (has || p.any (·.gs = .remote))

theorem checkLoop_spec (mro : List ClassInfo) (allow has : Bool) :
    checkLoop mro allow has = specFrom mro allow has := by
  induction mro generalizing allow has with
  | nil => simp [checkLoop, specFrom, prefixOf, inconsistent, hasReduce]
  | cons c rest ih =>
    obtain ⟨dr, gs⟩ := c
    cases dr with
    | true => simp [checkLoop, specFrom, prefixOf, inconsistent, hasReduce]
    | false =>
      cases gs <;> cases allow <;>
        simp [checkLoop, ih, specFrom, prefixOf, inconsistent, hasReduce] <;>
        (try cases has) <;> simp <;>
        (try (cases h1 : (prefixOf rest).any (fun x => decide (x.gs = GS.remote)) <;>
              cases h2 : inconsistent (prefixOf rest) <;>
              cases h3 : rest.any (fun x => x.definesReduce) <;> simp_all))

/-- **C13 (opt-in rule).** The metaclass check equals its declarative specification on every MRO. -/
theorem C13_mro_spec (mro : List ClassInfo) : checkType mro = spec mro := by
  simp [checkType, checkLoop_spec, specFrom, spec]

/-- A consistent chain is never rejected, an inconsistent one always is (unless it is cut
    off by a reduce-defining class first). -/
theorem C13_warning_iff (mro : List ClassInfo) :
    checkType mro = .warning ↔ inconsistent (prefixOf mro) = true := by
  rw [C13_mro_spec]
  unfold spec
  by_cases h : inconsistent (prefixOf mro) = true
  · simp [h]
  · simp only [h]
    by_cases h2 : hasReduce mro = true <;> simp [h2]

/-- **C13 (non-opt-in objects).** For every coherent object description that is not opt-in,
    both flags give exactly standard pickle's choice. -/
theorem C13_nonoptin_same :
    ∀ (r : Bool) (o : Obj), coherent o = true → o.optIn = false → remoteChoice r o = stdChoice o := by
  intro r ⟨b, c, g, p⟩
  cases r <;> cases b <;> cases c <;> cases g <;> cases p <;> decide

/-- **C13 (`remote=False`).** With `remote=False` nothing receives the flag: every object is
    reduced either exactly as by standard pickle or through the `__reduce_ex__`
    re-implementation called with `remote=False`. -/
theorem C13_remote_false :
    ∀ (o : Obj), coherent o = true →
      remoteChoice false o = stdChoice o ∨ remoteChoice false o = .remoteReduce false := by
  intro ⟨b, c, g, p⟩
  cases b <;> cases c <;> cases g <;> cases p <;> decide

/-- Only opt-in objects ever get `__getstate__(remote=True)`. -/
theorem C13_flag_only_optin :
    ∀ (r : Bool) (o : Obj), coherent o = true → remoteChoice r o = .remoteReduce true → o.optIn = true ∧ r = true := by
  intro r ⟨b, c, g, p⟩
  cases r <;> cases b <;> cases c <;> cases g <;> cases p <;> decide

/-- Standard pickling never passes the flag, whatever the class registered. -/
theorem C13_std_unaffected : ∀ (o : Obj) (f : Bool), stdChoice o ≠ .remoteReduce f := by
  intro ⟨b, c, g, p⟩ f
  cases f <;> cases b <;> cases c <;> cases g <;> cases p <;> decide

/-- Every opt-in, non-copyreg object gets the remote reducer when `remote=True`. -/
theorem C13_optin_routed :
    ∀ (o : Obj), coherent o = true → o.optIn = true → o.inCopyreg = false →
      remoteChoice true o = .remoteReduce true := by
  intro ⟨b, c, g, p⟩
  cases b <;> cases c <;> cases g <;> cases p <;> decide

/-- Non-vacuity / examples: the three chains used by the repository's own tests. -/
example : checkType [⟨false, .remote⟩, ⟨false, .none⟩] = .ok true := by decide
example : checkType [⟨false, .plain⟩, ⟨false, .remote⟩] = .warning := by decide
example : checkType [⟨false, .kwargs⟩, ⟨false, .remote⟩] = .ok true := by decide
example : checkType [⟨false, .remote⟩, ⟨true, .none⟩, ⟨false, .plain⟩] = .ok false := by decide

end PwVerif.C13
