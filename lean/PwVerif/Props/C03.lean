import PwVerif.Model.Lifecycle
import PwVerif.Gen.RunLoops
/-!
# C03 — graceful terminate interrupts the target wherever it is and is reported as such

Programs regenerated from /repo on every run. Landing points: every line event strictly
after the statement that lets the constructor return (`<prog>Start`), i.e. every instant at
which a parent can have called `terminate()`. Thread kind: the exception is raised directly
in the target thread; process / remote kinds: through the child's control thread
(`raiseWte true`: also sets `_terminate_req`; a request arriving after that thread was
released is lost - then the worker simply ends with its own outcome).

* `C03_in_target_*`: a request landing while the target runs is reported as
  `WorkerTerminatedError`.
* `C03_dichotomy_*`: at every landing point outside of the run loop's own `except` handlers
  the outcome is either "terminated" or exactly the outcome the same worker reports when left
  alone - nothing else.
* The full dichotomy (without the exclusion) is **false** on the current code:
  `C03_counterexample_thread` / `_process` (known finding, replayed by `harness/c03.py`).
-/
namespace PwVerif.C03
open PwVerif.Py PwVerif.Lifecycle PwVerif.Gen

def obsAt (prog : List Stmt) (kd : Kind) (t : Target) (a : Async) (k : Option Nat) : Obs :=
  observe kd (run prog { target := t } [] k a).1

def trace (prog : List Stmt) (t : Target) : List Nat := lineTrace prog { target := t } []

/-- landing points a parent can reach: after the start-up statement -/
def reachable (prog : List Stmt) (start : Nat) (t : Target) (k : Nat) : Bool :=
  k < (trace prog t).length && (trace prog t).idxOf start < k

def lineAt (prog : List Stmt) (t : Target) (k : Nat) : Nat := ((trace prog t)[k]?).getD 0

def Dich (prog : List Stmt) (kd : Kind) (t : Target) (a : Async) (k : Nat) : Bool :=
  obsAt prog kd t a (some k) == terminated || obsAt prog kd t a (some k) == obsAt prog kd t a none

def dichotomyOutsideHandlers (prog : List Stmt) (start : Nat) (kd : Kind) (a : Async) : Prop :=
  ∀ t ∈ Target.all, ∀ k < (trace prog t).length, reachable prog start t k = true →
    (handlerLinesL prog).contains (lineAt prog t k) = false → Dich prog kd t a k = true

def inTarget (prog : List Stmt) (start : Nat) (kd : Kind) (a : Async) : Prop :=
  ∀ t ∈ Target.all, ∀ k < (trace prog t).length, reachable prog start t k = true →
    lineAt prog t k = 0 → obsAt prog kd t a (some k) = terminated

theorem C03_dichotomy_thread : dichotomyOutsideHandlers threadRun threadRunStart .thread (.raiseWte false) := by
  unfold dichotomyOutsideHandlers; decide +kernel
theorem C03_dichotomy_process : dichotomyOutsideHandlers processRun processRunStart .process (.raiseWte true) := by
  unfold dichotomyOutsideHandlers; decide +kernel
theorem C03_dichotomy_remote : dichotomyOutsideHandlers remoteRun remoteRunStart .remote (.raiseWte true) := by
  unfold dichotomyOutsideHandlers; decide +kernel

theorem C03_in_target_thread : inTarget threadRun threadRunStart .thread (.raiseWte false) := by
  unfold inTarget; decide +kernel
theorem C03_in_target_process : inTarget processRun processRunStart .process (.raiseWte true) := by
  unfold inTarget; decide +kernel
theorem C03_in_target_remote : inTarget remoteRun remoteRunStart .remote (.raiseWte true) := by
  unfold inTarget; decide +kernel

/-- The full dichotomy, without excluding the handlers. -/
def C03_full (prog : List Stmt) (start : Nat) (kd : Kind) (a : Async) : Prop :=
  ∀ t ∈ Target.all, ∀ k < (trace prog t).length, reachable prog start t k = true → Dich prog kd t a k = true

/-- thread kind, target raises, request lands in the `except BaseException` handler:
    reported as (True, None, None) - neither outcome. -/
theorem C03_counterexample_thread : ¬ C03_full threadRun threadRunStart .thread (.raiseWte false) := by
  unfold C03_full; decide +kernel
theorem C03_counterexample_process : ¬ C03_full processRun processRunStart .process (.raiseWte true) := by
  unfold C03_full; decide +kernel

/-- the remote backend has a second, outer handler: for it the full dichotomy does hold -/
theorem C03_full_remote : C03_full remoteRun remoteRunStart .remote (.raiseWte true) := by
  unfold C03_full; decide +kernel

/-- non-vacuity: there are reachable landing points, inside the target and elsewhere -/
example : (List.range (trace threadRun .returns).length).filter (reachable threadRun threadRunStart .returns) ≠ [] := by
  decide +kernel
example : ∃ k, reachable processRun processRunStart .returns k = true ∧ lineAt processRun .returns k = 0 :=
  ⟨22, by decide +kernel⟩

end PwVerif.C03
