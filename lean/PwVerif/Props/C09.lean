import PwVerif.Model.Pool
namespace PwVerif.C09
theorem placeholder : True := trivial
end PwVerif.C09
