import PwVerif.Lemmas.PoolRuns
import PwVerif.Gen.PoolReset
/-!
# C09 — no worker outlives its pool; a pool stays usable across runs and restarts

Lean side (partial): facts about one run of the `PwVerif.Pool` model that the cross-run clauses rest on.
The cross-run bookkeeping itself (what `run()` resets, what `restart_workers()` re-keys, `_close`) and
the OS facts (child processes gone) are covered by the real-pool histories of `harness/c09.py` only.
-/
namespace PwVerif.C09
open PwVerif.Pool

/-- **a run leaves nothing behind for the next one.** When a run returns normally no result message is
    left in the pipe of any worker that is still usable, no input is pending and the retry list is
    empty: the next run starts from a clean slate and its results can only be its own. -/
theorem C09_clean_after_return (c : Cfg) (hc : Plain c) (pick : List Nat → Option Nat) (hp : PickOK pick)
    (n : Nat) (src : List Inp) (pre evs : List Ev) (ret : List Inp)
    (h : outcome (runEvents c pick (start c pick n src pre) evs) = .returned ret) :
    let s := runEvents c pick (start c pick n src pre) evs
    s.retries = [] ∧ s.pending = 0 ∧ ∀ x ∈ s.ws, x.closed = false → resIn x.chan = [] ∧ x.inbox = [] := by
  have hinv := inv_runEvents hc.toRetrying hp evs _ (inv_start hc.toRetrying hp n src pre)
  generalize runEvents c pick (start c pick n src pre) evs = s at h hinv
  unfold outcome at h
  split at h
  · cases h
  · split at h
    · cases h
    · split at h
      · rename_i hexit
        simp only [Bool.and_eq_true, decide_eq_true_eq, List.isEmpty_iff] at hexit
        obtain ⟨⟨_, hpend⟩, hretr⟩ := hexit
        refine ⟨hretr, hpend, ?_⟩
        intro x hx hcl
        have hlen : ppwLen s = 0 := by
          have := hinv.pending
          rw [hpend] at this
          omega
        have hall : ∀ (l : List Worker), (l.map fun x => x.ppw.length).sum = 0 → ∀ x ∈ l, x.ppw = [] := by
          intro l
          induction l with
          | nil => intro _ x hx; simp at hx
          | cons a as ih =>
            intro hs x hx
            simp only [List.map_cons, List.sum_cons] at hs
            simp only [List.mem_cons] at hx
            rcases hx with rfl | hx
            · exact List.length_eq_zero_iff.mp (by omega)
            · exact ih (by omega) x hx
        have hp0 := hall s.ws hlen x hx
        have := (hinv.ws x hx).open_ hcl
        rw [hp0] at this
        have h' := List.append_eq_nil_iff.mp this.symm
        have h'' := List.append_eq_nil_iff.mp h'.1
        exact ⟨h''.1, h''.2⟩
      · cases h

/-- a worker declared dead holds no pending input of the pool (so a later run has nothing to expect from it) -/
theorem C09_closed_holds_nothing (c : Cfg) (hc : Plain c) (pick : List Nat → Option Nat) (hp : PickOK pick)
    (n : Nat) (src : List Inp) (pre evs : List Ev) :
    ∀ x ∈ (runEvents c pick (start c pick n src pre) evs).ws, x.closed = true → x.ppw = [] :=
  fun x hx => ((inv_runEvents hc hp evs _ (inv_start hc hp n src pre)).ws x hx).closed_

/-! ### consecutive runs -/

/-- **each run's results correspond to that run's inputs only.** After a run that returned normally, whatever
    happens to the workers in between (`pre`), the next `run()` - whose bookkeeping is re-initialised as
    `Gen.poolReset` (regenerated from /repo) says - returns, if it returns, exactly one result per input of
    *its own* input sequence, under every schedule: nothing of the previous run leaks into it. By induction
    this holds for every later run of a chain of successful runs (`C09_chain`). -/
theorem C09_runs_independent (c : Cfg) (hc : Plain c) (pick : List Nat → Option Nat) (hp : PickOK pick)
    (src0 : List Inp) (s : St) (ret : List Inp) (hinv : Inv src0 [] s) (hret : outcome s = .returned ret)
    (src' : List Inp) (pre evs : List Ev) (ret' : List Inp)
    (h : outcome (runEvents c pick (nextRun c pick Gen.poolReset s src' pre) evs) = .returned ret') :
    ret'.Perm src' :=
  perm_of_inv_returned (inv_runEvents hc hp evs _ (inv_nextRun hc hp hinv hret Gen.poolReset (by decide) src' pre)) h

/-- the regenerated prologue of `Pool.run` re-initialises every bookkeeping field -/
theorem C09_reset_complete : Gen.poolReset.all = true := by decide

/-- a chain of runs: both invariants of the first run carry over to every later one, hence so do all the
    theorems of C07 / C08 (exactly once, PoolError only when every worker is closed, no internal error) -/
theorem C09_chain (c : Cfg) (hc : Plain c) (pick : List Nat → Option Nat) (hp : PickOK pick) (ht : PickTotal pick)
    (src0 : List Inp) (s : St) (ret : List Inp) (hinv : Inv src0 [] s) (hret : outcome s = .returned ret)
    (src' : List Inp) (pre evs : List Ev) :
    Inv src' [] (runEvents c pick (nextRun c pick Gen.poolReset s src' pre) evs) ∧
    K (runEvents c pick (nextRun c pick Gen.poolReset s src' pre) evs) :=
  ⟨inv_runEvents hc hp evs _ (inv_nextRun hc hp hinv hret Gen.poolReset (by decide) src' pre),
   K_runEvents hc hp ht evs _ (K_nextRun hc hp Gen.poolReset s src' pre)⟩

/-- without re-initialising the retry list (seeded change C09-C) an input left over by an earlier, failed run is
    served in the next one: the results no longer correspond to that run's inputs -/
theorem C09_counterexample_stale_retries :
    let s1 := runEvents {} pickFirst (start {} pickFirst 1 [7]) [.die 0 true, .poll [0]]       -- PoolError, 7 left in the retry list
    let s1' : St := { s1 with ws := [{}] }                                                       -- restart_workers(): a fresh worker
    let r : ResetCfg := { Gen.poolReset with retries := false }
    outcome (runEvents {} pickFirst (nextRun {} pickFirst r s1' [1]) [.work 0, .poll [0], .work 0, .poll [0]]) = .returned [7, 1] := by
  decide +kernel

/-- **the pool is never left "busy".** However a `run()` ends - the early return for a pool without usable workers, a normal
    return, `PoolError`, any other exception - the run-in-progress flag is clear afterwards, so the next `run()`,
    `restart_workers()`, `close()` and `terminate()` are not refused. (`Gen.poolGuard` is regenerated from the source.) -/
theorem C09_guard_clear (e : RunEnd) : guardAfter Gen.poolGuard e = false := by
  cases e <;> decide

/-- setting the flag in front of the early return (seeded change C09-F): a `run()` on a pool without usable workers leaves the
    pool refusing everything, including `close()` -/
theorem C09_counterexample_guard_before_return :
    guardAfter { Gen.poolGuard with setInTry := false } .noWorkers = true := by decide

end PwVerif.C09
