import PwVerif.Model.Handshake
import PwVerif.Model.Server
import PwVerif.Gen.Frontend
import PwVerif.Gen.ServerLoop
/-!
# C20 — creating a worker returns a usable worker or raises, it never hangs

`Gen.frontend` is regenerated from /repo (T-front): the steps of the client side of the handshake,
whether each lies inside the `try`, what its handler catches, whether the handler records the
failure and sets the start-up event, whether the constructor re-raises.

* `C20_never_hangs`: for every step of the handshake and every way that step can fail (connection
  closed or reset inside send/recv, a bare socket error from `connect`, an answer that cannot be
  decoded) the constructor raises - it neither hangs nor returns a half-built worker.
* `C20_general`: the same for *any* handshake of any length whose steps are all inside a `try`
  whose handler catches `Exception`, records the error and sets the event (so adding steps does
  not need a new proof).
* `C20_server_answers_or_closes`: the server never leaves a skipped request's socket open and silent
  (`Gen.skippedRequestsClosed`, shared with C11), which is the premise "the peer eventually answers
  or closes" that turns a blocking `recv` into a failure.
* `C20_closedOnly_counterexample`: what narrowing the handler to ConnectionClosedError would do
  (a refused control connection hangs the constructor).
-/
namespace PwVerif.C20
open PwVerif.Handshake PwVerif.Gen

def allFailures : List Failure := [.closed, .osError, .other]

theorem C20_never_hangs :
    ∀ i < frontend.steps.length, ∀ f ∈ allFailures,
      (match frontend.steps[i]? with | some s => possible s.kind f | none => false) = true →
      ctor frontend (some (i, f)) = .raises := by
  decide

theorem C20_no_fault_returns : ctor frontend none = .returnsWorker := rfl

/-- any handshake, any length -/
theorem C20_general (fe : Frontend) (i : Nat) (f : Failure)
    (hin : ∀ s ∈ fe.steps, s.insideTry = true) (hc : fe.catches = .exception ∨ fe.catches = .baseException)
    (hr : fe.handlerRecordsError = true) (hs : fe.handlerSetsEvent = true) (hre : fe.startReraises = true)
    (hi : i < fe.steps.length) :
    ctor fe (some (i, f)) = .raises := by
  unfold ctor
  have hsome : fe.steps[i]? = some fe.steps[i] := List.getElem?_eq_getElem hi
  simp only [hsome]
  have hmem : fe.steps[i] ∈ fe.steps := List.getElem_mem hi
  have hcaught : caught fe.catches f = true := by
    rcases hc with h | h <;> rw [h] <;> cases f <;> rfl
  simp [hin _ hmem, hcaught, hs, hr, hre]

theorem C20_generated_satisfies_general :
    (∀ s ∈ frontend.steps, s.insideTry = true) ∧ frontend.catches = .exception ∧
    frontend.handlerRecordsError = true ∧ frontend.handlerSetsEvent = true ∧ frontend.startReraises = true := by
  decide

theorem C20_server_answers_or_closes : skippedRequestsClosed = 2 := by decide

theorem C20_closedOnly_counterexample :
    ctor { frontend with catches := .closedOnly } (some (3, .osError)) = .hangs := by decide

example : frontend.steps.length = 5 := by decide

end PwVerif.C20
