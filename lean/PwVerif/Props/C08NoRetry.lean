import PwVerif.Lemmas.PoolNR
import PwVerif.Props.C08
/-!
# C08, retry disabled — "the normal return value contains only genuine results, at most one per input, and every
input missing from the result had been handed (or was being handed) to a worker that died before answering it"

Model: `PwVerif.Pool` with `c.retry = false` (no user `enqueue_fn`: `NoRetry`). The pool model records every input
it gives up in the ghost list `St.dropped` (`Drop.w` = the worker, `Drop.handed` = it was on that worker's pending
list / it was just being offered to it). Quantifiers as for C07: any number of workers, any inputs, any
`worker_extra_pending_inputs`, any workers already dead before the run, **every** schedule of adversary events.
The same model runs against the real `Pool.run` with `retry=False` in `harness/c08.py`. (An input *refused* by a user
`enqueue_fn` is not given up: it waits on the retry list whatever the retry policy - `C08_noretry_refused_after_fix`.)
-/
namespace PwVerif.C08
open PwVerif.Pool

theorem all_ppw_nil_of_len (l : List Worker) (h : (l.map fun x => x.ppw.length).sum = 0) : ∀ x ∈ l, x.ppw = [] := by
  induction l with
  | nil => intro x hx; simp at hx
  | cons a as ih =>
    intro x hx
    simp only [List.map_cons, List.sum_cons] at h
    simp only [List.mem_cons] at hx
    rcases hx with rfl | hx
    · exact List.length_eq_zero_iff.mp (by omega)
    · exact ih (by omega) x hx

theorem ppwCount_zero_of_nil (l : List Worker) (h : ∀ x ∈ l, x.ppw = []) (i : Inp) :
    (l.map fun x => x.ppw.count i).sum = 0 := by
  induction l with
  | nil => rfl
  | cons a as ih =>
    simp only [List.map_cons, List.sum_cons]
    rw [h a (by simp), ih (fun x hx => h x (by simp [hx]))]
    simp

/-- **genuine, at most once** (retry off): at every moment of every schedule the results collected so far contain
    each input at most as often as it was given. -/
theorem C08_noretry_genuine (c : Cfg) (hc : NoRetry c) (pick : List Nat → Option Nat)
    (n : Nat) (src : List Inp) (pre evs : List Ev) (i : Inp) :
    (runEvents c pick (start c pick n src pre) evs).ret.count i ≤ src.count i := by
  obtain ⟨h0, k0⟩ := nr_start hc (pick := pick) n src pre
  have := (nr_runEvents hc (pick := pick) evs _ h0 k0).1.cons i
  omega

/-- **every missing input is accounted for** (retry off). When the run returns normally, each input is either in
    the result or was given up - exactly as often as it was given; and every input given up belongs to a worker
    that the pool has declared dead, that really is dead, and that either had accepted it (`handed`: the pair is in
    the log of successful `enqueue` calls) or was being offered it when it was found dead. -/
theorem C08_noretry_missing_accounted (c : Cfg) (hc : NoRetry c) (pick : List Nat → Option Nat)
    (n : Nat) (src : List Inp) (pre evs : List Ev) (ret : List Inp)
    (h : outcome (runEvents c pick (start c pick n src pre) evs) = .returned ret) :
    let s := runEvents c pick (start c pick n src pre) evs
    (∀ i, src.count i = ret.count i + (s.dropped.map (fun d => d.inp)).count i) ∧
    (∀ d ∈ s.dropped, d.w < s.ws.length ∧ (getW s d.w).closed = true ∧ (getW s d.w).alive = false ∧
        (d.handed = true → (d.w, d.inp) ∈ s.enq)) := by
  obtain ⟨h0, k0⟩ := nr_start hc (pick := pick) n src pre
  have hinv := (nr_runEvents hc (pick := pick) evs _ h0 k0).1
  generalize runEvents c pick (start c pick n src pre) evs = s at h hinv
  unfold outcome at h
  split at h
  · cases h
  · split at h
    · cases h
    · split at h
      · rename_i hexit
        simp only [Outcome.returned.injEq] at h
        subst h
        simp only [Bool.and_eq_true, decide_eq_true_eq, List.isEmpty_iff] at hexit
        obtain ⟨⟨hd, hpend⟩, _⟩ := hexit
        have hsrc := hinv.depl hd
        have hlen : ppwLen s = 0 := by
          have := hinv.pending
          rw [hpend] at this
          omega
        have hall := all_ppw_nil_of_len s.ws hlen
        refine ⟨?_, ?_⟩
        · intro i
          have := hinv.cons i
          have hz : ppwCount i s = 0 := ppwCount_zero_of_nil s.ws hall i
          simp only [hsrc, hz, dropCount, List.count_nil] at this
          omega
        · intro d hdm
          obtain ⟨hw, hcl⟩ := hinv.dead d hdm
          exact ⟨hw, hcl, ((hinv.ws _ (getW_mem s d.w hw)).2).closed_dead hcl, hinv.handed d hdm⟩
      · cases h

/-- **soundness of PoolError with retry off**: the run fails only when every worker has been declared dead. -/
theorem C08_noretry_sound (c : Cfg) (hc : NoRetry c) (pick : List Nat → Option Nat)
    (n : Nat) (src : List Inp) (pre evs : List Ev) (part : List Inp)
    (h : outcome (runEvents c pick (start c pick n src pre) evs) = .poolError part) :
    ∀ x ∈ (runEvents c pick (start c pick n src pre) evs).ws, x.closed = true ∧ x.alive = false := by
  obtain ⟨h0, k0⟩ := nr_start hc (pick := pick) n src pre
  obtain ⟨hinv, hK⟩ := nr_runEvents hc (pick := pick) evs _ h0 k0
  generalize runEvents c pick (start c pick n src pre) evs = s at h hinv hK
  have hdeadall : (∀ x ∈ s.ws, x.closed = true) → ∀ x ∈ s.ws, x.closed = true ∧ x.alive = false :=
    fun hall x hx => ⟨hall x hx, (hinv.ws x hx).2.closed_dead (hall x hx)⟩
  apply hdeadall
  unfold outcome at h
  split at h
  · cases h
  · split at h
    · cases h
    · rename_i hrun
      split at h
      · cases h
      · rename_i hnot
        have hstop := C08_stops_only_when_idle_or_all_closed s (by simpa using hrun)
        rcases hstop with hpend | hall
        · intro x hx
          cases hcl : x.closed with
          | true => rfl
          | false =>
            exfalso
            have hlen : ppwLen s = 0 := by
              have := hinv.pending
              rw [hpend] at this
              omega
            have hp0 := all_ppw_nil_of_len s.ws hlen x hx
            obtain ⟨j, hj, hget⟩ := List.getElem_of_mem hx
            rcases hK with hno | hq
            · have := hno j hj
              simp [CN, isIdle, getW_eq s j hj, hget, hp0, hcl] at this
            · apply hnot
              simp [hq.1, hq.2, hpend]
        · exact hall

/-- with retry off the run never ends with an internal error (no `IndexError`, and the re-dispatch loop has nothing
    to do) -/
theorem C08_noretry_never_internal (c : Cfg) (hc : NoRetry c) (pick : List Nat → Option Nat)
    (n : Nat) (src : List Inp) (pre evs : List Ev) (e : Err) :
    outcome (runEvents c pick (start c pick n src pre) evs) ≠ .internal e := by
  obtain ⟨h0, k0⟩ := nr_start hc (pick := pick) n src pre
  have := (nr_runEvents hc (pick := pick) evs _ h0 k0).1.noerr
  unfold outcome
  rw [this]
  simp only
  split
  · simp
  · split <;> simp

def cNR : Cfg := { retry := false }

theorem cNR_noRetry : NoRetry cNR := ⟨rfl, rfl, fun _ _ => rfl⟩

/-- non-vacuity: worker 1 dies holding input 2 - the run returns [1, 3] and input 2 is recorded as handed to
    worker 1 -/
example :
    let s := runEvents cNR pickFirst (start cNR pickFirst 2 [1, 2, 3])
      [.work 0, .poll [0], .die 1 true, .poll [1], .work 0, .poll [0]]
    outcome s = .returned [1, 3] ∧ s.dropped = [⟨1, 2, true⟩] := by decide +kernel

/-- non-vacuity: worker 1 is dead before the run starts; input 2 is given up while being handed to it -/
example :
    let s := runEvents cNR pickFirst (start cNR pickFirst 2 [1, 2] [.die 1 false]) [.work 0, .poll [0]]
    outcome s = .returned [1] ∧ s.dropped = [⟨1, 2, false⟩] := by decide +kernel

/-- the input that was dropped silently before the repair (retry off, the user `enqueue_fn` refuses it although nobody
    died): it now stays on the retry list, the run ends with `PoolError` instead of returning `[]` -/
theorem C08_noretry_refused_after_fix :
    let c : Cfg := { retry := false, extra := 1, refuse := fun w i => w == 0 && i == 1 }
    let s := runEvents c pickFirst (start c pickFirst 1 [1]) []
    outcome s = .poolError [] ∧ s.retries = [1] ∧ s.dropped = [] := by decide +kernel

end PwVerif.C08
