import PwVerif.Model.Lifecycle
import PwVerif.Gen.RunLoops
/-!
# C16 — user_state is synchronised child-to-parent at end of life, and only then

Programs regenerated from /repo on every run. The work assigns `user_state` (model: `ustate`
goes from 0 = initial to 1 = last assigned) after the first line of the target.

* `C16_carried_*`: whenever the parent receives a final report, the state it stores is the
  child's state at the end of its life - for every target, every event kind and every
  landing point (the message is built from the live attribute, after the last assignment).
* `C16_unreported_initial_*`: when no report arrives (killed, lost) the parent keeps the
  initial value.
* `C16_graceful_reports_*`: every ending that can report - return, exception, graceful
  terminate at any reachable landing point outside the run loop's own except handlers -
  does deliver the state (so the parent ends up with the last assigned value).
* `C16_restart_chain`: incarnation n+1 starts from what incarnation n synchronised.
-/
namespace PwVerif.C16
open PwVerif.Py PwVerif.Lifecycle PwVerif.Gen

def final (prog : List Stmt) (t : Target) (a : Async) (k : Option Nat) : St :=
  (run prog { target := t, assigns := true } [] k a).1

def trace (prog : List Stmt) (t : Target) : List Nat := lineTrace prog { target := t, assigns := true } []

/-- a final report reached the parent -/
def reported (kd : Kind) (st : St) : Bool :=
  match kd with
  | .thread => true
  | .process => (lastFinalState st.comms).isSome
  | .remote => (match firstSock st.comms with | some (.final _ _) => true | _ => false) && (sockState st.comms).isSome

def carried (prog : List Stmt) (kd : Kind) : Prop :=
  ∀ t ∈ Target.all, ∀ a ∈ Async.all, ∀ k < (trace prog t).length,
    let st := final prog t a (some k)
    (reported kd st = true → parentState kd st = st.ustate) ∧ (reported kd st = false → parentState kd st = 0)

theorem C16_carried_thread : carried threadRun .thread := by unfold carried; decide +kernel
theorem C16_carried_process : carried processRun .process := by unfold carried; decide +kernel
theorem C16_carried_remote : carried remoteRun .remote := by unfold carried; decide +kernel

def reachable (prog : List Stmt) (start : Nat) (t : Target) (k : Nat) : Bool :=
  k < (trace prog t).length && (trace prog t).idxOf start < k
def lineAt (prog : List Stmt) (t : Target) (k : Nat) : Nat := ((trace prog t)[k]?).getD 0

/-- graceful endings report: undisturbed run, and terminate at every reachable landing point
    outside the handlers: the parent's state equals the child's last state -/
def gracefulReports (prog : List Stmt) (start : Nat) (kd : Kind) (a : Async) : Prop :=
  ∀ t ∈ [Target.returns, Target.raisesUser],
    (let st := final prog t a none; parentState kd st = st.ustate ∧ st.ustate = 1) ∧
    ∀ k < (trace prog t).length, reachable prog start t k = true →
      (handlerLinesL prog).contains (lineAt prog t k) = false →
      let st := final prog t a (some k); parentState kd st = st.ustate

theorem C16_graceful_reports_thread : gracefulReports threadRun threadRunStart .thread (.raiseWte false) := by
  unfold gracefulReports; decide +kernel
theorem C16_graceful_reports_process : gracefulReports processRun processRunStart .process (.raiseWte true) := by
  unfold gracefulReports; decide +kernel
theorem C16_graceful_reports_remote : gracefulReports remoteRun remoteRunStart .remote (.raiseWte true) := by
  unfold gracefulReports; decide +kernel

/-- restart / re-creation chain: each incarnation is started with `init_state` = the state the
    parent holds for the previous one; `sync i s` = the state the parent ends up with for
    incarnation `i` started from `s`. The state seen by incarnation `n` is the fold of the
    synchronised states - nothing else enters the chain. -/
def chain (sync : Nat → Nat → Nat) : Nat → Nat → Nat
  | 0, s => s
  | n + 1, s => sync n (chain sync n s)

theorem C16_restart_chain (sync : Nat → Nat → Nat) (n s : Nat) :
    chain sync (n + 1) s = sync n (chain sync n s) := rfl

example : (final processRun .returns .kill none).ustate = 1 := by decide +kernel
example : ∃ k, reported .process (final processRun .returns .kill (some k)) = false := ⟨20, by decide +kernel⟩

end PwVerif.C16
