import PwVerif.Lemmas.LoopProcess
import PwVerif.Props.C05Generated
/-!
(written by `tools/gen_loopk.py` from one template; part 1 of 2 of the landing points before the loop)

The whole regenerated `pprocessRun` program on `n` items and the release marker with one asynchronous event after `K` line
events, `K` smaller than the number `pprocessP` of line events before the loop and `K % 2 = 1`: one symbolic evaluation
of the program per landing point. A request that nobody can deliver yet is lost, and the run is the undisturbed one
(loop summarised by `C05.pprocess_loop`).
-/
namespace PwVerif.LoopK
open PwVerif.Py PwVerif.Gen

set_option maxRecDepth 8000 in
set_option maxHeartbeats 4000000 in
theorem pprocess_early_1 (env : Env) (he : Returns env) (hc : C05.Returns env) (a : Async) (ha : pprocessCov a) (n : Nat) :
    ∀ K, K < pprocessP → K % 2 = 1 →
      ∃ F, StreamShape n (execBlock env F { inputs := List.replicate n .item ++ [.release], left := some K, async := a } pprocessRun) := by
  obtain ⟨F, hF⟩ := C05.pprocess_loop env hc n
  have hW : C05.pprocessW = .whileS _ _ _ := rfl
  have hrule := loop_rule env C05.pprocessW n F hF
  rw [hW] at hrule
  unfold pprocessP
  rcases ha with rfl | rfl | rfl
  all_goals
    repeat' (first | exact forall_lt_zero' | refine forall_lt_succ' ?_ ?_)
  all_goals
    first
    | (intro h; exact absurd h (by decide))
    | (intro _
       refine ⟨F + 90, ?_⟩
       simp [pprocessRun, exec_line, exec_ret, exec_brk, exec_call, exec_ifS, exec_tryS, execBlock, execHandlers, lineEvent, doActs, doAct,
         evalCond, Catch.catches, hrule, he.ret, he.tn, he.na]
       first
         | exact ⟨by simp, 0, Nat.zero_le _, Or.inl rfl⟩
         | exact ⟨by simp, 0, Nat.zero_le _, Or.inr ⟨_, rfl⟩⟩
         | exact ⟨by simp, n, Nat.le_refl _, Or.inr ⟨_, rfl⟩⟩
         | exact ⟨by simp, n, Nat.le_refl _, Or.inl rfl⟩)

end PwVerif.LoopK
