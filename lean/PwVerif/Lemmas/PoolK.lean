import PwVerif.Lemmas.Pool
/-!
Second invariant of the Pool model (retry on, no enqueue_fn): **work never waits while a usable worker idles**.

`K s`: either no usable worker is idle (every worker is closed or holds pending work), or the run is
*quiet*: the retry list is empty and the input source has been found depleted. It holds whenever the pool
is between two macro steps (after `first_enqueue`, after each processed message).

Consequences (in `Props/C07.lean`, `Props/C08.lean`):
* the re-dispatch loop of `handle_death` always terminates - each round hands work to an idle worker or
  declares it dead, so the number of idle workers is a variant (`settle_post`: fuel is never exhausted);
* `PoolError` is raised only when **every** worker has been closed (`C08_sound`).
-/
namespace PwVerif.Pool

def isIdle (x : Worker) : Bool := x.ppw.isEmpty && !x.closed
def nIdle (s : St) : Nat := s.ws.countP isIdle

/-- worker `j` is closed or holds pending work -/
def CN (s : St) (j : Nat) : Prop := isIdle (getW s j) = false
def NoIdle (s : St) : Prop := ∀ j, j < s.ws.length → CN s j
def NoIdleExcept (s : St) (w : Nat) : Prop := ∀ j, j < s.ws.length → j ≠ w → CN s j
def Quiet (s : St) : Prop := s.retries = [] ∧ s.depleted = true
def K (s : St) : Prop := NoIdle s ∨ Quiet s

/-- `pick` (= `next(iter(idle))`) returns something whenever there is an idle worker -/
def PickTotal (pick : List Nat → Option Nat) : Prop := ∀ l, pick l = none → l = []

theorem pickFirst_total : PickTotal pickFirst := by
  intro l h; cases l <;> simp_all [pickFirst]

/-- a macro step never turns a busy or closed worker into an idle one, never un-depletes, keeps the workers -/
structure Le (s t : St) : Prop where
  len : t.ws.length = s.ws.length
  cn : ∀ j, CN s j → CN t j
  depl : s.depleted = true → t.depleted = true
  n : nIdle t ≤ nIdle s

theorem Le.refl (s : St) : Le s s := ⟨rfl, fun _ h => h, fun h => h, Nat.le_refl _⟩
theorem Le.trans {a b c : St} (h1 : Le a b) (h2 : Le b c) : Le a c :=
  ⟨by rw [h2.len, h1.len], fun j h => h2.cn j (h1.cn j h), fun h => h2.depl (h1.depl h), Nat.le_trans h2.n h1.n⟩

/-- states that differ only outside `ws` / `depleted` -/
theorem Le.of_eq {s t : St} (hws : t.ws = s.ws) (hd : s.depleted = true → t.depleted = true) : Le s t :=
  ⟨by rw [hws], fun j h => by simpa [CN, getW, hws] using h, hd, by simp [nIdle, hws]⟩

theorem getW_setW_other (s : St) (w j : Nat) (x : Worker) (h : j ≠ w) : getW (setW s w x) j = getW s j := by
  simp only [getW, setW]
  rw [List.getElem?_set_ne (by omega)]

theorem nIdle_setW (s : St) (w : Nat) (x : Worker) (h : w < s.ws.length) :
    nIdle (setW s w x) = nIdle s - (if isIdle (getW s w) then 1 else 0) + (if isIdle x then 1 else 0) := by
  simp only [nIdle, setW]
  rw [List.countP_set h, getW_eq s w h]

theorem idle_le_nIdle (s : St) (w : Nat) (h : w < s.ws.length) (hi : isIdle (getW s w) = true) : 1 ≤ nIdle s := by
  simp only [nIdle]
  apply List.countP_pos_iff.mpr
  exact ⟨getW s w, getW_mem s w h, hi⟩

/-- replacing worker `w` by one that is idle only if `w` was -/
theorem le_setW (s : St) (w : Nat) (x : Worker) (h : isIdle x = true → isIdle (getW s w) = true) :
    Le s (setW s w x) := by
  by_cases hw : w < s.ws.length
  · refine ⟨setW_length _ _ _, ?_, fun hd => hd, ?_⟩
    · intro j hj
      by_cases hjw : j = w
      · subst hjw
        simp only [CN, getW_setW_same s j x hw]
        simp only [CN] at hj
        cases hx : isIdle x with
        | false => rfl
        | true => rw [h hx] at hj; cases hj
      · simp only [CN, getW_setW_other s w j x hjw]; exact hj
    · rw [nIdle_setW s w x hw]
      cases hx : isIdle x with
      | false => simp
      | true =>
        have h1 := h hx
        have h2 := idle_le_nIdle s w hw h1
        simp only [h1, ↓reduceIte]; omega
  · rw [setW_oob s w x hw]; exact Le.refl s

/-- ... and strictly fewer idle workers when an idle worker becomes busy or closed -/
theorem lt_setW (s : St) (w : Nat) (x : Worker) (hw : w < s.ws.length) (hi : isIdle (getW s w) = true)
    (hx : isIdle x = false) : nIdle (setW s w x) < nIdle s := by
  rw [nIdle_setW s w x hw]
  have := idle_le_nIdle s w hw hi
  simp [hi, hx]; omega

theorem isIdle_enq (x : Worker) (inp : Inp) :
    isIdle { x with inbox := x.inbox ++ [inp], ppw := x.ppw ++ [inp] } = false := by
  simp [isIdle]

theorem isIdle_dead (x : Worker) : isIdle { x with ppw := [], closed := true } = false := by
  simp [isIdle]

theorem le_doEnqueue (s : St) (w : Nat) (inp : Inp) : Le s (doEnqueue s w inp) := by
  have h1 := le_setW s w { getW s w with inbox := (getW s w).inbox ++ [inp], ppw := (getW s w).ppw ++ [inp] }
    (by intro h; rw [isIdle_enq] at h; cases h)
  exact Le.trans h1 (Le.of_eq rfl (fun h => h))

theorem cn_doEnqueue (s : St) (w : Nat) (inp : Inp) (hw : w < s.ws.length) : CN (doEnqueue s w inp) w := by
  show isIdle (getW (setW s w _) w) = false
  rw [getW_setW_same s w _ hw]; exact isIdle_enq _ _

theorem lt_doEnqueue (s : St) (w : Nat) (inp : Inp) (hw : w < s.ws.length) (hi : isIdle (getW s w) = true) :
    nIdle (doEnqueue s w inp) < nIdle s :=
  lt_setW s w _ hw hi (isIdle_enq _ _)

theorem markDead_eq {c : Cfg} (hc : Retrying c) (s : St) (w : Nat) :
    markDead c s w = setW { s with retries := s.retries ++ (getW s w).ppw,
                                   pending := s.pending - (getW s w).ppw.length } w
                          { getW s w with ppw := [], closed := true } := by
  simp [markDead, hc.retry]

theorem le_markDead {c : Cfg} (hc : Retrying c) (s : St) (w : Nat) : Le s (markDead c s w) := by
  rw [markDead_eq hc]
  have h0 : Le s { s with retries := s.retries ++ (getW s w).ppw, pending := s.pending - (getW s w).ppw.length } :=
    Le.of_eq rfl (fun h => h)
  refine Le.trans h0 (le_setW _ w _ ?_)
  intro h; rw [isIdle_dead] at h; cases h

theorem cn_markDead {c : Cfg} (hc : Retrying c) (s : St) (w : Nat) (hw : w < s.ws.length) : CN (markDead c s w) w := by
  rw [markDead_eq hc]
  show isIdle (getW (setW _ w _) w) = false
  rw [getW_setW_same _ w _ (by exact hw)]; exact isIdle_dead _

theorem lt_markDead {c : Cfg} (hc : Retrying c) (s : St) (w : Nat) (hw : w < s.ws.length) (hi : isIdle (getW s w) = true) :
    nIdle (markDead c s w) < nIdle s := by
  rw [markDead_eq hc]
  exact lt_setW { s with retries := s.retries ++ (getW s w).ppw, pending := s.pending - (getW s w).ppw.length } w _ hw hi (isIdle_dead _)

theorem le_unused (c : Cfg) (s : St) (inp : Inp) (fr : Bool) : Le s (unused c s inp fr) := by
  unfold unused putBack
  split
  · exact Le.refl s
  · split <;> exact Le.of_eq rfl (fun h => h)

theorem unused_err (c : Cfg) (s : St) (inp : Inp) (fr : Bool) : (unused c s inp fr).err = s.err := by
  unfold unused putBack; split; rfl; split <;> rfl

theorem markDead_err {c : Cfg} (hc : Retrying c) (s : St) (w : Nat) : (markDead c s w).err = s.err := by
  rw [markDead_eq hc]; rfl

theorem doEnqueue_err (s : St) (w : Nat) (inp : Inp) : (doEnqueue s w inp).err = s.err := rfl

/-! ### idle list vs. idle count -/

theorem idleFrom_length (ws : List Worker) (k : Nat) : (idleFrom ws k).length = ws.countP isIdle := by
  induction ws generalizing k with
  | nil => rfl
  | cons x xs ih =>
    simp only [idleFrom, List.countP_cons]
    by_cases hx : (x.ppw.isEmpty && !x.closed) = true
    · simp [hx, isIdle, ih]
    · simp [hx, isIdle, ih]

theorem idle_nil_iff (s : St) : idle s = [] ↔ nIdle s = 0 := by
  rw [← List.length_eq_zero_iff, idle, idleFrom_length]; rfl

theorem noIdle_of_nIdle (s : St) (h : nIdle s = 0) : NoIdle s := by
  intro j hj
  simp only [nIdle, List.countP_eq_zero] at h
  have := h (getW s j) (getW_mem s j hj)
  simpa [CN] using this

theorem mem_idle_isIdle {s : St} {w : Nat} (h : w ∈ idle s) : w < s.ws.length ∧ isIdle (getW s w) = true := by
  obtain ⟨hw, hp, hc⟩ := mem_idle h
  exact ⟨hw, by simp [isIdle, hp, hc]⟩

/-! ### the re-dispatch loop terminates and leaves no work waiting for an idle worker -/

/-- without refusals the workers skipped by a round are never idle ones, so skipping changes nothing -/
theorem avail_eq_idle {s : St} {skip : List Nat} (h : ∀ w ∈ skip, CN s w) : avail s skip = idle s := by
  unfold avail
  apply List.filter_eq_self.mpr
  intro w hw
  obtain ⟨_, hi⟩ := mem_idle_isIdle hw
  cases hc : skip.contains w with
  | false => rfl
  | true =>
    have := h w (by simpa using hc)
    rw [CN, hi] at this; cases this

theorem le_settle {c : Cfg} (hc : Retrying c) {pick : List Nat → Option Nat} :
    ∀ (fuel : Nat) (skip : List Nat) (s : St), Le s (settle c pick fuel skip s) := by
  intro fuel
  induction fuel with
  | zero =>
    intro skip s
    simp only [settle]
    split
    · exact Le.refl s
    · split
      · exact Le.refl s
      · exact Le.of_eq rfl (fun h => h)
  | succ fuel ih =>
    intro skip s
    simp only [settle, giveUp_eq hc]
    cases hr : s.retries with
    | nil => exact Le.refl s
    | cons inp rest =>
      simp only
      cases hpk : pick (avail s skip) with
      | none => exact Le.refl s
      | some w =>
        simp only
        have h0 : Le s { s with retries := rest } := Le.of_eq rfl (fun h => h)
        refine Le.trans ?_ (ih _ _)
        split
        · exact Le.of_eq rfl (fun h => h)
        · split
          · exact Le.trans h0 (le_doEnqueue _ w inp)
          · exact Le.trans h0 (Le.trans (le_markDead hc _ w) (Le.trans (ih _ _) (le_unused c _ inp true)))

theorem settle_post {c : Cfg} (hc : Plain c) {pick : List Nat → Option Nat} (hp : PickOK pick) (ht : PickTotal pick) :
    ∀ (fuel : Nat) (skip : List Nat) (s : St), (∀ w ∈ skip, CN s w) → nIdle s ≤ fuel →
      ((settle c pick fuel skip s).retries = [] ∨ NoIdle (settle c pick fuel skip s)) ∧
      (settle c pick fuel skip s).err = s.err := by
  intro fuel
  induction fuel with
  | zero =>
    intro skip s hsk hn
    have hz : nIdle s = 0 := by omega
    have hid : idle s = [] := (idle_nil_iff s).mpr hz
    simp only [settle, avail_eq_idle hsk]
    split
    · exact ⟨Or.inr (noIdle_of_nIdle s hz), rfl⟩
    · cases hpk : pick (idle s) with
      | none => exact ⟨Or.inr (noIdle_of_nIdle s hz), rfl⟩
      | some w => have := hp _ _ hpk; rw [hid] at this; cases this
  | succ fuel ih =>
    intro skip s hsk hn
    simp only [settle, giveUp_eq hc.toRetrying, avail_eq_idle hsk]
    cases hr : s.retries with
    | nil => exact ⟨Or.inl hr, rfl⟩
    | cons inp rest =>
      simp only
      cases hpk : pick (idle s) with
      | none =>
        have hid := ht _ hpk
        exact ⟨Or.inr (noIdle_of_nIdle s ((idle_nil_iff s).mp hid)), rfl⟩
      | some w =>
        simp only [hc.noFn, Bool.false_eq_true, if_false]
        obtain ⟨hw, hi⟩ := mem_idle_isIdle (hp _ _ hpk)
        have hg : getW { s with retries := rest } w = getW s w := rfl
        have hn' : nIdle { s with retries := rest } = nIdle s := rfl
        have h0 : Le s { s with retries := rest } := Le.of_eq rfl (fun h => h)
        split
        · -- the idle worker took the input
          have hlt := lt_doEnqueue { s with retries := rest } w inp hw (by rw [hg]; exact hi)
          have hle := Le.trans h0 (le_doEnqueue { s with retries := rest } w inp)
          have hcw := cn_doEnqueue { s with retries := rest } w inp hw
          obtain ⟨h1, e1⟩ := ih (if (inp :: rest).length ≤ (doEnqueue { s with retries := rest } w inp).retries.length then w :: skip else skip)
            (doEnqueue { s with retries := rest } w inp)
            (by
              intro j hj
              split at hj
              · simp only [List.mem_cons] at hj
                rcases hj with rfl | hj
                · exact hcw
                · exact hle.cn j (hsk j hj)
              · exact hle.cn j (hsk j hj))
            (by omega)
          exact ⟨h1, by rw [e1]; rfl⟩
        · -- the idle worker turned out to be dead
          have hlt := lt_markDead hc.toRetrying { s with retries := rest } w hw (by rw [hg]; exact hi)
          have hcw0 := cn_markDead hc.toRetrying { s with retries := rest } w hw
          obtain ⟨_, e1⟩ := ih [] (markDead c { s with retries := rest } w) (by intro j hj; cases hj) (by omega)
          have hles := le_settle hc.toRetrying (pick := pick) fuel [] (markDead c { s with retries := rest } w)
          have hle2 := le_unused c (settle c pick fuel [] (markDead c { s with retries := rest } w)) inp true
          have hle := Le.trans h0 (Le.trans (le_markDead hc.toRetrying { s with retries := rest } w) (Le.trans hles hle2))
          have hcw := hle2.cn w (hles.cn w hcw0)
          obtain ⟨h2, e2⟩ := ih
            (if (inp :: rest).length ≤ (unused c (settle c pick fuel [] (markDead c { s with retries := rest } w)) inp true).retries.length
              then w :: skip else skip)
            (unused c (settle c pick fuel [] (markDead c { s with retries := rest } w)) inp true)
            (by
              intro j hj
              split at hj
              · simp only [List.mem_cons] at hj
                rcases hj with rfl | hj
                · exact hcw
                · exact hle.cn j (hsk j hj)
              · exact hle.cn j (hsk j hj))
            (by have := hles.n; have := hle2.n; omega)
          refine ⟨h2, ?_⟩
          rw [e2, unused_err, e1, markDead_err hc.toRetrying]

theorem nIdle_le_length (s : St) : nIdle s ≤ s.ws.length := List.countP_le_length

theorem le_handleDeath {c : Cfg} (hc : Retrying c) {pick : List Nat → Option Nat} (s : St) (w : Nat) :
    Le s (handleDeath c pick s w) :=
  Le.trans (le_markDead hc s w) (le_settle hc _ _ _)

theorem handleDeath_post {c : Cfg} (hc : Plain c) {pick : List Nat → Option Nat} (hp : PickOK pick) (ht : PickTotal pick)
    (s : St) (w : Nat) :
    ((handleDeath c pick s w).retries = [] ∨ NoIdle (handleDeath c pick s w)) ∧ (handleDeath c pick s w).err = s.err := by
  unfold handleDeath
  have hl := (le_markDead hc.toRetrying s w).len
  obtain ⟨h1, e1⟩ := settle_post hc hp ht ((s.ws.length + 1) * (s.ws.length + 1)) [] (markDead c s w)
    (by intro j hj; cases hj)
    (by
      have := nIdle_le_length (markDead c s w)
      have : s.ws.length + 1 ≤ (s.ws.length + 1) * (s.ws.length + 1) := Nat.le_mul_of_pos_left _ (by omega)
      omega)
  exact ⟨h1, by rw [e1, markDead_err hc.toRetrying]⟩

theorem cn_handleDeath {c : Cfg} (hc : Retrying c) {pick : List Nat → Option Nat} (s : St) (w : Nat)
    (hw : w < s.ws.length) : CN (handleDeath c pick s w) w :=
  (le_settle hc _ _ _).cn w (cn_markDead hc s w hw)

/-! ### try_enqueue -/

theorem nextInputs_none {s s' : St} (h : nextInputs s = (none, s')) : Quiet s' ∧ s'.ws = s.ws := by
  unfold nextInputs at h
  cases hr : s.retries with
  | cons r rs => simp [hr] at h
  | nil =>
    simp only [hr] at h
    by_cases hd : s.depleted = true
    · simp only [hd, if_true, Prod.mk.injEq, true_and] at h
      subst h; exact ⟨⟨hr, hd⟩, rfl⟩
    · simp only [hd, Bool.false_eq_true, if_false] at h
      cases hs : s.src with
      | nil =>
        simp only [hs, Prod.mk.injEq, true_and] at h
        subst h; exact ⟨⟨by simpa using hr, rfl⟩, rfl⟩
      | cons a rest => simp [hs] at h

theorem nextInputs_some {s s' : St} {fr : Bool} {inp : Inp} (h : nextInputs s = (some (fr, inp), s')) :
    ¬ Quiet s ∧ Le s s' := by
  unfold nextInputs at h
  cases hr : s.retries with
  | cons r rs =>
    simp only [hr, Prod.mk.injEq, Option.some.injEq] at h
    obtain ⟨_, rfl⟩ := h
    exact ⟨fun q => by simp [Quiet, hr] at q, Le.of_eq rfl (fun h => h)⟩
  | nil =>
    simp only [hr] at h
    by_cases hd : s.depleted = true
    · simp [hd] at h
    · simp only [hd, Bool.false_eq_true, if_false] at h
      cases hs : s.src with
      | nil => simp [hs] at h
      | cons a rest =>
        simp only [hs, Prod.mk.injEq, Option.some.injEq] at h
        obtain ⟨_, rfl⟩ := h
        exact ⟨fun q => hd q.2, Le.of_eq rfl (fun h => absurd h hd)⟩

theorem quiet_nextInputs {s : St} (h : Quiet s) : nextInputs s = (none, s) := by
  unfold nextInputs
  simp [h.1, h.2]

/-- everything `try_enqueue(w)` guarantees -/
theorem tryEnqueue_facts {c : Cfg} (hc : Plain c) {pick : List Nat → Option Nat} (hp : PickOK pick)
    (s : St) (w : Nat) (hw : w < s.ws.length) :
    Le s (tryEnqueue c pick s w).1 ∧
    ((tryEnqueue c pick s w).2 = false → Quiet (tryEnqueue c pick s w).1) ∧
    ((tryEnqueue c pick s w).2 = true → CN (tryEnqueue c pick s w).1 w ∧ ¬ Quiet s) := by
  unfold tryEnqueue
  simp only [giveUp_eq hc.toRetrying, putBack_eq hc.toRetrying]
  generalize hg : nextInputs s = r
  obtain ⟨o, s'⟩ := r
  cases o with
  | none =>
    obtain ⟨hq, hws⟩ := nextInputs_none hg
    refine ⟨Le.of_eq hws (fun _ => hq.2), fun _ => hq, fun h => by cases h⟩
  | some p =>
    obtain ⟨fr, inp⟩ := p
    obtain ⟨hnq, hle⟩ := nextInputs_some hg
    have hw' : w < s'.ws.length := by rw [hle.len]; exact hw
    simp only [hc.noFn, Bool.false_eq_true, if_false]
    by_cases hcl : (getW s' w).closed = true
    · simp only [hcl, if_true]
      refine ⟨Le.trans hle (le_unused c _ _ _), (fun h => by cases h), fun _ => ⟨?_, hnq⟩⟩
      apply (le_unused c s' inp fr).cn w
      simp [CN, isIdle, hcl]
    · simp only [hcl, Bool.false_eq_true, if_false]
      by_cases ha : (getW s' w).alive = true
      · simp only [ha, if_true]
        exact ⟨Le.trans hle (le_doEnqueue _ _ _), (fun h => by cases h), fun _ => ⟨cn_doEnqueue _ _ _ hw', hnq⟩⟩
      · simp only [ha, Bool.false_eq_true, if_false]
        refine ⟨Le.trans hle (Le.trans (le_handleDeath hc.toRetrying _ _) (le_unused c _ _ _)), (fun h => by cases h), fun _ => ⟨?_, hnq⟩⟩
        exact (le_unused c _ inp fr).cn w (cn_handleDeath hc.toRetrying s' w hw')

theorem tryEnqueue_err {c : Cfg} (hc : Plain c) {pick : List Nat → Option Nat} (hp : PickOK pick) (ht : PickTotal pick)
    (s : St) (w : Nat) : (tryEnqueue c pick s w).1.err = s.err := by
  unfold tryEnqueue
  simp only [giveUp_eq hc.toRetrying, putBack_eq hc.toRetrying]
  generalize hg : nextInputs s = r
  obtain ⟨o, s'⟩ := r
  have hs' : s'.err = s.err := by
    unfold nextInputs at hg
    split at hg
    · cases hg; rfl
    · split at hg
      · cases hg; rfl
      · split at hg <;> (cases hg; rfl)
  cases o with
  | none => exact hs'
  | some p =>
    obtain ⟨fr, inp⟩ := p
    simp only [hc.noFn, Bool.false_eq_true, if_false]
    split
    · rw [unused_err]; exact hs'
    · split
      · rw [doEnqueue_err]; exact hs'
      · rw [unused_err, (handleDeath_post hc hp ht s' w).2]; exact hs'

/-- the invariant across `try_enqueue(w)`: `w` itself may be idle before (its result has just been taken) -/
theorem K_tryEnqueue {c : Cfg} (hc : Plain c) {pick : List Nat → Option Nat} (hp : PickOK pick)
    (s : St) (w : Nat) (hw : w < s.ws.length) (h : NoIdleExcept s w ∨ Quiet s) : K (tryEnqueue c pick s w).1 := by
  obtain ⟨hle, hf, htr⟩ := tryEnqueue_facts hc hp s w hw
  cases hb : (tryEnqueue c pick s w).2 with
  | false => exact Or.inr (hf hb)
  | true =>
    obtain ⟨hcn, hnq⟩ := htr hb
    rcases h with h | h
    · left
      intro j hj
      rw [hle.len] at hj
      by_cases hjw : j = w
      · subst hjw; exact hcn
      · exact hle.cn j (h j hj hjw)
    · exact absurd h hnq

theorem K_handleDeath {c : Cfg} (hc : Plain c) {pick : List Nat → Option Nat} (hp : PickOK pick) (ht : PickTotal pick)
    (s : St) (w : Nat) (h : K s) : K (handleDeath c pick s w) := by
  have hle := le_handleDeath hc.toRetrying (pick := pick) s w
  rcases h with h | h
  · left
    intro j hj
    rw [hle.len] at hj
    exact hle.cn j (h j hj)
  · rcases (handleDeath_post hc hp ht s w).1 with h1 | h1
    · exact Or.inr ⟨h1, hle.depl h.2⟩
    · exact Or.inl h1

/-- replacing a worker by one with the same pending list and closed flag does not matter to `K` -/
theorem K_setW_same {s : St} {w : Nat} {x : Worker} (h : K s) (hp : x.ppw = (getW s w).ppw) (hc : x.closed = (getW s w).closed) :
    K (setW s w x) := by
  have hi : isIdle x = isIdle (getW s w) := by simp [isIdle, hp, hc]
  have hle := le_setW s w x (by rw [hi]; exact fun h => h)
  rcases h with h | h
  · left; intro j hj; rw [hle.len] at hj; exact hle.cn j (h j hj)
  · right; exact h

theorem K_congr {s t : St} (h : K s) (hws : t.ws = s.ws) (hr : t.retries = s.retries) (hd : t.depleted = s.depleted) : K t := by
  rcases h with h | h
  · left; intro j hj; rw [hws] at hj; have := h j hj; simpa [CN, getW, hws] using this
  · right; exact ⟨by rw [hr]; exact h.1, by rw [hd]; exact h.2⟩

theorem K_onPoll {c : Cfg} (hc : Plain c) {pick : List Nat → Option Nat} (hp : PickOK pick) (ht : PickTotal pick)
    {s : St} {w : Nat} (h : K s) (hw : w < s.ws.length) : K (onPoll c pick s w) := by
  unfold onPoll
  dsimp only
  split
  · exact h
  split
  · split
    · exact h
    have h1 : K (setW s w { getW s w with queue := false }) := K_setW_same h rfl rfl
    split
    · exact h1
    · exact K_handleDeath hc hp ht _ w h1
  · rename_i rest hch
    have h1 : K (setW s w { getW s w with chan := rest }) := K_setW_same h rfl rfl
    split
    · exact h1
    · exact K_handleDeath hc hp ht _ w h1
  · rename_i i rest hch
    have h1 : K (setW s w { getW s w with chan := rest }) := K_setW_same h rfl rfl
    split
    · exact h1
    · rw [getW_setW_same s w _ hw]
      split
      · exact K_congr h1 rfl rfl rfl
      · rename_i p ppw' hcons
        apply K_tryEnqueue hc hp _ w (by simp [setW]; exact hw)
        rcases h with h | h
        · left
          intro j hj hjw
          simp only [setW, List.length_set] at hj
          have := h j hj
          simp only [CN, getW, setW] at this ⊢
          rw [List.getElem?_set_ne (by omega), List.getElem?_set_ne (by omega)]
          exact this
        · right; exact h

theorem K_step {c : Cfg} (hc : Plain c) {pick : List Nat → Option Nat} (hp : PickOK pick) (ht : PickTotal pick)
    {s : St} (ev : Ev) (h : K s) : K (step c pick s ev) := by
  cases ev with
  | work w =>
    simp only [step]
    split
    · exact h
    · split
      · exact h
      · exact K_setW_same h rfl rfl
  | die w marker =>
    simp only [step]
    split
    · exact h
    · exact K_setW_same h rfl rfl
  | poll ws =>
    simp only [step]
    split
    · have key : ∀ (l : List Nat) (t : St), K t →
          K (l.foldl (fun s w => if s.err.isNone then onPoll c pick s w else s) t) := by
        intro l
        induction l with
        | nil => intro t ht'; exact ht'
        | cons w ws ih =>
          intro t ht'
          simp only [List.foldl_cons]
          by_cases he : t.err.isNone = true
          · simp only [he, if_true]
            by_cases hw : w < t.ws.length
            · exact ih _ (K_onPoll hc hp ht ht' hw)
            · have : onPoll c pick t w = t := by
                unfold onPoll
                rw [getW_oob t w hw]
                simp
              rw [this]; exact ih t ht'
          · simp only [he, Bool.false_eq_true, if_false]
            exact ih t ht'
      exact key ws s h
    · exact h

theorem K_runEvents {c : Cfg} (hc : Plain c) {pick : List Nat → Option Nat} (hp : PickOK pick) (ht : PickTotal pick) :
    ∀ (evs : List Ev) (s : St), K s → K (runEvents c pick s evs) := by
  intro evs
  induction evs with
  | nil => intro s h; exact h
  | cons e es ih => intro s h; exact ih _ (K_step hc hp ht e h)

/-! ### first_enqueue establishes the invariant -/

theorem firstRound_facts {c : Cfg} (hc : Plain c) {pick : List Nat → Option Nat} (hp : PickOK pick) :
    ∀ (n k : Nat) (s : St), k + n ≤ s.ws.length → (∀ j, j < k → CN s j) →
      Le s (firstRound c pick n k s).1 ∧
      ((firstRound c pick n k s).2 = false → Quiet (firstRound c pick n k s).1) ∧
      ((firstRound c pick n k s).2 = true → ∀ j, j < k + n → CN (firstRound c pick n k s).1 j) := by
  intro n
  induction n with
  | zero =>
    intro k s _ hcn
    simp only [firstRound]
    exact ⟨Le.refl s, (fun h => by cases h), fun _ j hj => hcn j (by omega)⟩
  | succ n ih =>
    intro k s hk hcn
    simp only [firstRound]
    by_cases hcl : (getW s k).closed = true
    · simp only [hcl, if_true]
      have hcn' : ∀ j, j < k + 1 → CN s j := by
        intro j hj
        by_cases hjk : j = k
        · subst hjk; simp [CN, isIdle, hcl]
        · exact hcn j (by omega)
      obtain ⟨a, b, d⟩ := ih (k + 1) s (by omega) hcn'
      exact ⟨a, b, fun h j hj => d h j (by omega)⟩
    · simp only [hcl, Bool.false_eq_true, if_false]
      obtain ⟨hle, hf, htr⟩ := tryEnqueue_facts hc hp s k (by omega)
      generalize hg : tryEnqueue c pick s k = r at hle hf htr
      obtain ⟨s', b⟩ := r
      cases b with
      | false => exact ⟨hle, fun _ => hf rfl, fun h => by cases h⟩
      | true =>
        simp only
        have hcn' : ∀ j, j < k + 1 → CN s' j := by
          intro j hj
          by_cases hjk : j = k
          · subst hjk; exact (htr rfl).1
          · exact hle.cn j (hcn j (by omega))
        obtain ⟨a, b', d⟩ := ih (k + 1) s' (by have := hle.len; simp at this; omega) hcn'
        exact ⟨Le.trans hle a, b', fun h j hj => d h j (by omega)⟩

theorem K_firstEnqueue {c : Cfg} (hc : Plain c) {pick : List Nat → Option Nat} (hp : PickOK pick) :
    ∀ (rounds : Nat) (s : St), K (firstEnqueue c pick (rounds + 1) s) := by
  have later : ∀ (r : Nat) (s : St), NoIdle s → K (firstEnqueue c pick r s) := by
    intro r
    induction r with
    | zero => intro s h; exact Or.inl h
    | succ r ih =>
      intro s _
      simp only [firstEnqueue]
      obtain ⟨hle, hf, htr⟩ := firstRound_facts hc hp s.ws.length 0 s (by omega) (fun j hj => by omega)
      generalize hg : firstRound c pick s.ws.length 0 s = res at hle hf htr
      obtain ⟨s', b⟩ := res
      cases b with
      | false => exact Or.inr (hf rfl)
      | true =>
        apply ih
        intro j hj
        have := hle.len
        simp only at this
        exact htr rfl j (by omega)
  intro rounds s
  simp only [firstEnqueue]
  obtain ⟨hle, hf, htr⟩ := firstRound_facts hc hp s.ws.length 0 s (by omega) (fun j hj => by omega)
  generalize hg : firstRound c pick s.ws.length 0 s = res at hle hf htr
  obtain ⟨s', b⟩ := res
  cases b with
  | false => exact Or.inr (hf rfl)
  | true =>
    apply later
    intro j hj
    have := hle.len
    simp only at this
    exact htr rfl j (by omega)

theorem K_start {c : Cfg} (hc : Plain c) {pick : List Nat → Option Nat} (hp : PickOK pick)
    (n : Nat) (src : List Inp) (pre : List Ev) : K (start c pick n src pre) := by
  unfold start
  exact K_firstEnqueue hc hp c.extra _

/-! ### the fuel of the re-dispatch loop is never exhausted -/

def FuelOK (s : St) : Prop := s.err ≠ some .outOfFuel

theorem fuelOK_onPoll {c : Cfg} (hc : Plain c) {pick : List Nat → Option Nat} (hp : PickOK pick) (ht : PickTotal pick)
    {s : St} (w : Nat) (h : FuelOK s) : FuelOK (onPoll c pick s w) := by
  unfold onPoll FuelOK
  dsimp only
  split
  · exact h
  split
  · split
    · exact h
    split
    · exact h
    · rw [(handleDeath_post hc hp ht _ w).2]; exact h
  · split
    · exact h
    · rw [(handleDeath_post hc hp ht _ w).2]; exact h
  · split
    · exact h
    · split
      · simp
      · rw [tryEnqueue_err hc hp ht]; exact h

theorem fuelOK_step {c : Cfg} (hc : Plain c) {pick : List Nat → Option Nat} (hp : PickOK pick) (ht : PickTotal pick)
    {s : St} (ev : Ev) (h : FuelOK s) : FuelOK (step c pick s ev) := by
  cases ev with
  | work w =>
    simp only [step]
    split
    · exact h
    · split <;> exact h
  | die w marker =>
    simp only [step]
    split <;> exact h
  | poll ws =>
    simp only [step]
    split
    · have key : ∀ (l : List Nat) (t : St), FuelOK t →
          FuelOK (l.foldl (fun s w => if s.err.isNone then onPoll c pick s w else s) t) := by
        intro l
        induction l with
        | nil => intro t h'; exact h'
        | cons w ws ih =>
          intro t h'
          simp only [List.foldl_cons]
          split
          · exact ih _ (fuelOK_onPoll hc hp ht w h')
          · exact ih t h'
      exact key ws s h
    · exact h

theorem fuelOK_runEvents {c : Cfg} (hc : Plain c) {pick : List Nat → Option Nat} (hp : PickOK pick) (ht : PickTotal pick) :
    ∀ (evs : List Ev) (s : St), FuelOK s → FuelOK (runEvents c pick s evs) := by
  intro evs
  induction evs with
  | nil => intro s h; exact h
  | cons e es ih => intro s h; exact ih _ (fuelOK_step hc hp ht e h)

theorem firstRound_err {c : Cfg} (hc : Plain c) {pick : List Nat → Option Nat} (hp : PickOK pick) (ht : PickTotal pick) :
    ∀ (n k : Nat) (s : St), (firstRound c pick n k s).1.err = s.err := by
  intro n
  induction n with
  | zero => intro k s; rfl
  | succ n ih =>
    intro k s
    simp only [firstRound]
    split
    · exact ih _ _
    · have he := tryEnqueue_err hc hp ht s k
      generalize tryEnqueue c pick s k = r at he
      obtain ⟨s', b⟩ := r
      cases b with
      | false => exact he
      | true => simp only; rw [ih]; exact he

theorem firstEnqueue_err {c : Cfg} (hc : Plain c) {pick : List Nat → Option Nat} (hp : PickOK pick) (ht : PickTotal pick) :
    ∀ (r : Nat) (s : St), (firstEnqueue c pick r s).err = s.err := by
  intro r
  induction r with
  | zero => intro s; rfl
  | succ r ih =>
    intro s
    simp only [firstEnqueue]
    have he := firstRound_err hc hp ht s.ws.length 0 s
    generalize firstRound c pick s.ws.length 0 s = res at he
    obtain ⟨s', b⟩ := res
    cases b with
    | false => exact he
    | true => simp only; rw [ih]; exact he

theorem fuelOK_start {c : Cfg} (hc : Plain c) {pick : List Nat → Option Nat} (hp : PickOK pick) (ht : PickTotal pick)
    (n : Nat) (src : List Inp) (pre : List Ev) : FuelOK (start c pick n src pre) := by
  unfold start FuelOK
  rw [firstEnqueue_err hc hp ht]
  have key : ∀ (l : List Ev) (t : St), FuelOK t → FuelOK (l.foldl (step c pick) t) := by
    intro l
    induction l with
    | nil => intro t h; exact h
    | cons e es ih => intro t h; exact ih _ (fuelOK_step hc hp ht e h)
  exact key pre _ (by simp [FuelOK, initSt])

end PwVerif.Pool
