import PwVerif.Lemmas.PoolT
/-!
The re-dispatch loop of `handle_death` terminates for **every** user `enqueue_fn` (config `Retrying`).

Before the repair of the refusal livelock the loop re-offered a refused input to the same idle worker for ever; now a
worker that did not take what it was offered is skipped for the rest of the round. Variant of the model's loop
(`settle`), lexicographic in (workers not yet declared dead, idle workers not yet skipped):

  `nc s * (n + 1) + nAvail s skip`      (`n` = number of workers)

Every round either hands the input to an idle worker (it stops being idle), or is refused (the worker joins `skip`),
or finds the worker dead (`nc` drops; the nested loop and the rest of this one start from a smaller first component).
`handleDeath` supplies `(n + 1) * (n + 1)` fuel, which bounds the variant, so the fuel is never exhausted.
-/
namespace PwVerif.Pool

def availP (s : St) (skip : List Nat) (j : Nat) : Bool := isIdle (getW s j) && !skip.contains j
def nAvail (s : St) (skip : List Nat) : Nat := (List.range s.ws.length).countP (availP s skip)

theorem nAvail_le_length (s : St) (skip : List Nat) : nAvail s skip ≤ s.ws.length := by
  have := List.countP_le_length (p := availP s skip) (l := List.range s.ws.length)
  simpa [nAvail] using this

theorem avail_counted {s : St} {skip : List Nat} {w : Nat} (h : w ∈ avail s skip) :
    w < s.ws.length ∧ availP s skip w = true := by
  obtain ⟨hi, hs⟩ := List.mem_filter.mp h
  obtain ⟨hw, hidle⟩ := mem_idle_isIdle hi
  exact ⟨hw, by simp only [availP, hidle, hs, Bool.and_self]⟩

theorem countP_lt_of (l : List Nat) (p q : Nat → Bool) (hpq : ∀ x ∈ l, q x = true → p x = true)
    (w : Nat) (hw : w ∈ l) (hp : p w = true) (hq : q w = false) : l.countP q < l.countP p := by
  induction l with
  | nil => cases hw
  | cons a as ih =>
    simp only [List.countP_cons]
    have hle : as.countP q ≤ as.countP p :=
      List.countP_mono_left (fun x hx h => hpq x (List.mem_cons_of_mem _ hx) h)
    simp only [List.mem_cons] at hw
    rcases hw with rfl | hw
    · simp only [hp, hq, if_true]; simp; omega
    · have := ih (fun x hx => hpq x (List.mem_cons_of_mem _ hx)) hw
      have h1 : (if q a = true then 1 else 0) ≤ (if p a = true then 1 else 0) := by
        by_cases hqa : q a = true
        · simp [hqa, hpq a (List.mem_cons_self ..) hqa]
        · simp [hqa]
      omega

theorem nAvail_lt {s t : St} {skip skip' : List Nat} {w : Nat} (hlen : t.ws.length = s.ws.length)
    (hmono : ∀ j, availP t skip' j = true → availP s skip j = true)
    (hw : w < s.ws.length) (hws : availP s skip w = true) (hwt : availP t skip' w = false) :
    nAvail t skip' < nAvail s skip := by
  unfold nAvail
  rw [hlen]
  exact countP_lt_of _ _ _ (fun x _ h => hmono x h) w (List.mem_range.mpr hw) hws hwt

/-- idle-not-skipped only shrinks along `Le` with a growing skip set -/
theorem availP_mono {s t : St} (h : Le s t) {skip skip' : List Nat} (hsub : ∀ j, j ∈ skip → j ∈ skip') :
    ∀ j, availP t skip' j = true → availP s skip j = true := by
  intro j hj
  simp only [availP, Bool.and_eq_true, Bool.not_eq_true'] at hj ⊢
  obtain ⟨hi, hs⟩ := hj
  refine ⟨?_, ?_⟩
  · cases hsi : isIdle (getW s j) with
    | true => rfl
    | false => have := h.cn j hsi; rw [CN, hi] at this; cases this
  · cases hc : skip.contains j with
    | false => rfl
    | true =>
      have : skip'.contains j = true := by simpa using hsub j (by simpa using hc)
      rw [this] at hs; cases hs

theorem dec_unused_nc (c : Cfg) (s : St) (inp : Inp) (fr : Bool) : nc (unused c s inp fr) = nc s := unused_nc c s inp fr

/-- the fuel is never exhausted: `err` is untouched by the loop -/
theorem settle_err {c : Cfg} (hc : Retrying c) {pick : List Nat → Option Nat} (hp : PickOK pick) :
    ∀ (fuel : Nat) (skip : List Nat) (s : St), nc s * (s.ws.length + 1) + nAvail s skip ≤ fuel →
      (settle c pick fuel skip s).err = s.err := by
  intro fuel
  induction fuel with
  | zero =>
    intro skip s hv
    simp only [settle]
    split
    · rfl
    · cases hpk : pick (avail s skip) with
      | none => rfl
      | some w =>
        exfalso
        obtain ⟨hw, ha⟩ := avail_counted (hp _ _ hpk)
        have : 0 < nAvail s skip := List.countP_pos_iff.mpr ⟨w, List.mem_range.mpr hw, ha⟩
        omega
  | succ fuel ih =>
    intro skip s hv
    simp only [settle, giveUp_eq hc]
    cases hr : s.retries with
    | nil => rfl
    | cons inp rest =>
      simp only
      cases hpk : pick (avail s skip) with
      | none => rfl
      | some w =>
        simp only
        obtain ⟨hw, ha⟩ := avail_counted (hp _ _ hpk)
        obtain ⟨_, _, hcl⟩ := mem_idle (mem_avail (hp _ _ hpk))
        have hg : getW { s with retries := rest } w = getW s w := rfl
        have h0 : Le s { s with retries := rest } := Le.of_eq rfl (fun h => h)
        have hn := nAvail_le_length
        by_cases hrf : c.refuse w inp = true
        · -- refused: nothing changed, the worker is skipped from now on
          simp only [hrf, if_true, List.length_cons, Nat.le_refl]
          have hlt : nAvail { s with retries := inp :: rest } (w :: skip) < nAvail s skip :=
            nAvail_lt (s := s) (t := { s with retries := inp :: rest }) rfl
              (availP_mono (Le.of_eq rfl (fun h => h)) (fun j hj => List.mem_cons_of_mem _ hj)) hw ha
              (by simp [availP])
          rw [ih _ _ (by
            show nc s * (s.ws.length + 1) + nAvail { s with retries := inp :: rest } (w :: skip) ≤ fuel
            omega)]
        · simp only [hrf, Bool.false_eq_true, if_false]
          by_cases hal : (getW s w).alive = true
          · -- accepted: the worker is busy now
            simp only [hg, hal, if_true]
            have hle := Le.trans h0 (le_doEnqueue { s with retries := rest } w inp)
            have hcw := cn_doEnqueue { s with retries := rest } w inp hw
            obtain ⟨n1, _⟩ := doEnqueue_measure { s with retries := rest } w inp hw
            have hlen : (doEnqueue { s with retries := rest } w inp).ws.length = s.ws.length := hle.len
            have hlt : ∀ skip', (∀ j, j ∈ skip → j ∈ skip') →
                nAvail (doEnqueue { s with retries := rest } w inp) skip' < nAvail s skip := by
              intro skip' hsub
              exact nAvail_lt hlen (availP_mono hle hsub) hw ha (by simp only [availP]; rw [CN] at hcw; simp [hcw])
            have hnc : nc (doEnqueue { s with retries := rest } w inp) = nc s := n1
            rw [ih _ _ (by
              rw [hnc, hlen]
              have := hlt (if (inp :: rest).length ≤ (doEnqueue { s with retries := rest } w inp).retries.length then w :: skip else skip)
                (by intro j hj; split; exact List.mem_cons_of_mem _ hj; exact hj)
              omega)]
            rfl
          · -- dead: one worker fewer
            simp only [hg, hal, Bool.false_eq_true, if_false]
            have n1 := markDead_nc hc { s with retries := rest } w hw hcl
            have hnc0 : nc { s with retries := rest } = nc s := rfl
            have hl2 : (markDead c { s with retries := rest } w).ws.length = s.ws.length :=
              (le_markDead hc { s with retries := rest } w).len
            have hpos : 1 ≤ nc s := nc_pos s w hw hcl
            have hmul : nc s * (s.ws.length + 1) = (nc s - 1) * (s.ws.length + 1) + (s.ws.length + 1) := by
              have : nc s = (nc s - 1) + 1 := by omega
              rw [this, Nat.add_mul]; simp
            -- the nested loop
            have e1 := ih [] (markDead c { s with retries := rest } w) (by
              rw [hl2]
              have := hn (markDead c { s with retries := rest } w) []
              rw [hl2] at this
              have : nc (markDead c { s with retries := rest } w) = nc s - 1 := by omega
              rw [this]; omega)
            have d2 := (dec_settle hc hp fuel [] (markDead c { s with retries := rest } w)).nc_le
            have l3 : (settle c pick fuel [] (markDead c { s with retries := rest } w)).ws.length = s.ws.length := by
              rw [(le_settle hc fuel [] _).len, hl2]
            have l4 : (unused c (settle c pick fuel [] (markDead c { s with retries := rest } w)) inp true).ws.length = s.ws.length := by
              rw [(le_unused c _ inp true).len, l3]
            rw [ih _ _ (by
              rw [dec_unused_nc, l4]
              have := hn (unused c (settle c pick fuel [] (markDead c { s with retries := rest } w)) inp true)
                (if (inp :: rest).length ≤ (unused c (settle c pick fuel [] (markDead c { s with retries := rest } w)) inp true).retries.length
                  then w :: skip else skip)
              rw [l4] at this
              have hle : nc (settle c pick fuel [] (markDead c { s with retries := rest } w)) ≤ nc s - 1 := by omega
              have := Nat.mul_le_mul_right (s.ws.length + 1) hle
              omega)]
            rw [unused_err, e1, markDead_err hc]

theorem handleDeath_err {c : Cfg} (hc : Retrying c) {pick : List Nat → Option Nat} (hp : PickOK pick) (s : St) (w : Nat) :
    (handleDeath c pick s w).err = s.err := by
  unfold handleDeath
  have hl := (le_markDead hc s w).len
  have hnc : nc (markDead c s w) ≤ s.ws.length := by
    have := List.countP_le_length (p := fun x : Worker => !x.closed) (l := (markDead c s w).ws)
    simp only [nc]; omega
  rw [settle_err hc hp _ [] (markDead c s w) (by
    rw [hl]
    have := nAvail_le_length (markDead c s w) []
    rw [hl] at this
    have := Nat.mul_le_mul_right (s.ws.length + 1) hnc
    have e : (s.ws.length + 1) * (s.ws.length + 1) = s.ws.length * (s.ws.length + 1) + (s.ws.length + 1) := by
      rw [Nat.add_mul]; simp
    omega), markDead_err hc]

theorem nextInputs_err (s : St) : (nextInputs s).2.err = s.err := by
  unfold nextInputs
  split
  · rfl
  · split
    · rfl
    · split <;> rfl

theorem tryEnqueue_err' {c : Cfg} (hc : Retrying c) {pick : List Nat → Option Nat} (hp : PickOK pick)
    (s : St) (w : Nat) : (tryEnqueue c pick s w).1.err = s.err := by
  unfold tryEnqueue
  simp only [giveUp_eq hc, putBack_eq hc]
  have hs' := nextInputs_err s
  generalize nextInputs s = r at hs'
  obtain ⟨o, s'⟩ := r
  simp only at hs'
  cases o with
  | none => exact hs'
  | some p =>
    obtain ⟨fr, inp⟩ := p
    dsimp only
    split
    · rw [unused_err]; exact hs'
    · split
      · rw [unused_err]; exact hs'
      · split
        · rw [doEnqueue_err]; exact hs'
        · rw [unused_err, handleDeath_err hc hp]; exact hs'

theorem fuelOK_onPoll' {c : Cfg} (hc : Retrying c) {pick : List Nat → Option Nat} (hp : PickOK pick)
    {s : St} (w : Nat) (h : FuelOK s) : FuelOK (onPoll c pick s w) := by
  unfold onPoll FuelOK
  dsimp only
  split
  · exact h
  split
  · split
    · exact h
    split
    · exact h
    · rw [handleDeath_err hc hp]; exact h
  · split
    · exact h
    · rw [handleDeath_err hc hp]; exact h
  · split
    · exact h
    · split
      · simp
      · rw [tryEnqueue_err' hc hp]; exact h

theorem fuelOK_step' {c : Cfg} (hc : Retrying c) {pick : List Nat → Option Nat} (hp : PickOK pick)
    {s : St} (ev : Ev) (h : FuelOK s) : FuelOK (step c pick s ev) := by
  cases ev with
  | work w =>
    simp only [step]
    split
    · exact h
    · split <;> exact h
  | die w marker =>
    simp only [step]
    split <;> exact h
  | poll ws =>
    simp only [step]
    split
    · have key : ∀ (l : List Nat) (t : St), FuelOK t →
          FuelOK (l.foldl (fun s w => if s.err.isNone then onPoll c pick s w else s) t) := by
        intro l
        induction l with
        | nil => intro t h'; exact h'
        | cons w ws ih =>
          intro t h'
          simp only [List.foldl_cons]
          split
          · exact ih _ (fuelOK_onPoll' hc hp w h')
          · exact ih t h'
      exact key ws s h
    · exact h

theorem fuelOK_runEvents' {c : Cfg} (hc : Retrying c) {pick : List Nat → Option Nat} (hp : PickOK pick) :
    ∀ (evs : List Ev) (s : St), FuelOK s → FuelOK (runEvents c pick s evs) := by
  intro evs
  induction evs with
  | nil => intro s h; exact h
  | cons e es ih => intro s h; exact ih _ (fuelOK_step' hc hp e h)

theorem firstRound_err' {c : Cfg} (hc : Retrying c) {pick : List Nat → Option Nat} (hp : PickOK pick) :
    ∀ (n k : Nat) (s : St), (firstRound c pick n k s).1.err = s.err := by
  intro n
  induction n with
  | zero => intro k s; rfl
  | succ n ih =>
    intro k s
    simp only [firstRound]
    split
    · exact ih _ _
    · have he := tryEnqueue_err' hc hp s k
      generalize tryEnqueue c pick s k = r at he
      obtain ⟨s', b⟩ := r
      cases b with
      | false => exact he
      | true => simp only; rw [ih]; exact he

theorem firstEnqueue_err' {c : Cfg} (hc : Retrying c) {pick : List Nat → Option Nat} (hp : PickOK pick) :
    ∀ (r : Nat) (s : St), (firstEnqueue c pick r s).err = s.err := by
  intro r
  induction r with
  | zero => intro s; rfl
  | succ r ih =>
    intro s
    simp only [firstEnqueue]
    have he := firstRound_err' hc hp s.ws.length 0 s
    generalize firstRound c pick s.ws.length 0 s = res at he
    obtain ⟨s', b⟩ := res
    cases b with
    | false => exact he
    | true => simp only; rw [ih]; exact he

theorem fuelOK_start' {c : Cfg} (hc : Retrying c) {pick : List Nat → Option Nat} (hp : PickOK pick)
    (n : Nat) (src : List Inp) (pre : List Ev) : FuelOK (start c pick n src pre) := by
  unfold start FuelOK
  rw [firstEnqueue_err' hc hp]
  have key : ∀ (l : List Ev) (t : St), FuelOK t → FuelOK (l.foldl (step c pick) t) := by
    intro l
    induction l with
    | nil => intro t h; exact h
    | cons e es ih => intro t h; exact ih _ (fuelOK_step' hc hp e h)
  exact key pre _ (by simp [FuelOK, initSt])

end PwVerif.Pool
