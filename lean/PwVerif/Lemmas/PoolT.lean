import PwVerif.Lemmas.PoolK
/-!
Termination of the Pool model (retry on, no enqueue_fn): a lexicographic measure
`(number of workers not yet closed, potential)` that **every** environment event and every message read
by the pool leaves unchanged or decreases, and that every *effective* event (a worker answering, a worker
dying, the pool reading a ready queue) decreases strictly. Hence no schedule contains infinitely many
effective events: "provided every worker eventually answers or dies, `Pool.run` terminates".
-/
namespace PwVerif.Pool

/-- potential of one worker: unprocessed inputs, unread messages, being alive, having an open queue -/
def wt (x : Worker) : Nat :=
  3 * x.inbox.length + 2 * x.chan.length + (if x.alive then 3 else 0) + (if x.queue then 1 else 0)
def W (s : St) : Nat := (s.ws.map wt).sum
def phi (s : St) : Nat :=
  4 * s.src.length + 4 * s.retries.length + (if s.depleted then 0 else 1) + W s
/-- workers not yet declared dead -/
def nc (s : St) : Nat := s.ws.countP (fun x => !x.closed)

/-- lexicographic `≤` / `<` on `(nc, phi)` -/
def Dec (s t : St) : Prop := nc t < nc s ∨ (nc t = nc s ∧ phi t ≤ phi s)
def SDec (s t : St) : Prop := nc t < nc s ∨ (nc t = nc s ∧ phi t < phi s)

theorem Dec.refl (s : St) : Dec s s := Or.inr ⟨rfl, Nat.le_refl _⟩
theorem SDec.dec {s t : St} (h : SDec s t) : Dec s t := by
  rcases h with h | ⟨h1, h2⟩
  · exact Or.inl h
  · exact Or.inr ⟨h1, Nat.le_of_lt h2⟩
theorem Dec.nc_le {s t : St} (h : Dec s t) : nc t ≤ nc s := by
  rcases h with h | ⟨h1, _⟩ <;> omega
theorem Dec.trans {a b c : St} (h1 : Dec a b) (h2 : Dec b c) : Dec a c := by
  rcases h1 with h1 | ⟨h1, p1⟩ <;> rcases h2 with h2 | ⟨h2, p2⟩
  · exact Or.inl (by omega)
  · exact Or.inl (by omega)
  · exact Or.inl (by omega)
  · exact Or.inr ⟨by omega, by omega⟩
theorem SDec.trans_dec {a b c : St} (h1 : SDec a b) (h2 : Dec b c) : SDec a c := by
  rcases h1 with h1 | ⟨h1, p1⟩ <;> rcases h2 with h2 | ⟨h2, p2⟩
  · exact Or.inl (by omega)
  · exact Or.inl (by omega)
  · exact Or.inl (by omega)
  · exact Or.inr ⟨by omega, by omega⟩
theorem Dec.trans_sdec {a b c : St} (h1 : Dec a b) (h2 : SDec b c) : SDec a c := by
  rcases h1 with h1 | ⟨h1, p1⟩ <;> rcases h2 with h2 | ⟨h2, p2⟩
  · exact Or.inl (by omega)
  · exact Or.inl (by omega)
  · exact Or.inl (by omega)
  · exact Or.inr ⟨by omega, by omega⟩

/-- states with the same measure -/
theorem Dec.of_eq {s t : St} (h1 : nc t = nc s) (h2 : phi t ≤ phi s) : Dec s t := Or.inr ⟨h1, h2⟩

theorem W_setW (s : St) (w : Nat) (x : Worker) (h : w < s.ws.length) :
    W (setW s w x) + wt (getW s w) = W s + wt x := by
  simp only [W, setW, map_set]
  have := sum_set (s.ws.map wt) w (wt x) (by simpa using h)
  simpa [getW_eq s w h] using this

theorem nc_setW (s : St) (w : Nat) (x : Worker) (h : w < s.ws.length) :
    nc (setW s w x) = nc s - (if !(getW s w).closed then 1 else 0) + (if !x.closed then 1 else 0) := by
  simp only [nc, setW]
  rw [List.countP_set h, getW_eq s w h]

theorem nc_pos (s : St) (w : Nat) (h : w < s.ws.length) (hc : (getW s w).closed = false) : 1 ≤ nc s := by
  simp only [nc]
  apply List.countP_pos_iff.mpr
  exact ⟨getW s w, getW_mem s w h, by simp [hc]⟩

/-- replacing a worker by one with the same `closed` flag: only the potential of that worker matters -/
theorem nc_setW_same (s : St) (w : Nat) (x : Worker) (hc : x.closed = (getW s w).closed) :
    nc (setW s w x) = nc s := by
  by_cases h : w < s.ws.length
  · rw [nc_setW s w x h, hc]
    cases hcl : (getW s w).closed with
    | true => simp
    | false => have := nc_pos s w h hcl; simp; omega
  · rw [setW_oob s w x h]

@[simp] theorem phi_setW (s : St) (w : Nat) (x : Worker) :
    phi (setW s w x) = 4 * s.src.length + 4 * s.retries.length + (if s.depleted then 0 else 1) + W (setW s w x) := rfl

/-! ### the pool's own steps -/

theorem doEnqueue_measure (s : St) (w : Nat) (inp : Inp) (hw : w < s.ws.length) :
    nc (doEnqueue s w inp) = nc s ∧ phi (doEnqueue s w inp) = phi s + 3 := by
  constructor
  · show nc (setW s w _) = nc s
    exact nc_setW_same s w _ rfl
  · have := W_setW s w { getW s w with inbox := (getW s w).inbox ++ [inp], ppw := (getW s w).ppw ++ [inp] } hw
    show 4 * s.src.length + 4 * s.retries.length + (if s.depleted then 0 else 1) + W (setW s w _) = phi s + 3
    simp only [wt, List.length_append, List.length_singleton] at this
    simp only [phi]
    omega

theorem markDead_nc {c : Cfg} (hc : Retrying c) (s : St) (w : Nat) (hw : w < s.ws.length) (hcl : (getW s w).closed = false) :
    nc (markDead c s w) + 1 = nc s := by
  have h := nc_setW { s with retries := s.retries ++ (getW s w).ppw, pending := s.pending - (getW s w).ppw.length } w
    { getW s w with ppw := [], closed := true } hw
  have hg : getW { s with retries := s.retries ++ (getW s w).ppw, pending := s.pending - (getW s w).ppw.length } w = getW s w := rfl
  have e : nc { s with retries := s.retries ++ (getW s w).ppw, pending := s.pending - (getW s w).ppw.length } = nc s := rfl
  have hp := nc_pos s w hw hcl
  rw [hg, hcl, e] at h
  simp only [Bool.not_false, Bool.not_true, ↓reduceIte, Bool.false_eq_true] at h
  rw [markDead_eq hc, h]
  omega

theorem unused_nc (c : Cfg) (s : St) (inp : Inp) (fr : Bool) : nc (unused c s inp fr) = nc s := by
  unfold unused putBack; split; rfl; split <;> rfl

theorem unused_phi {c : Cfg} (hc : Retrying c) (s : St) (inp : Inp) (fr : Bool) : phi (unused c s inp fr) = phi s + 4 := by
  unfold unused putBack
  simp only [hc.retry, Bool.not_true, Bool.false_eq_true, if_false]
  split <;> simp [phi, W] <;> omega

/-- the re-dispatch loop never increases the measure -/
theorem dec_settle {c : Cfg} (hc : Retrying c) {pick : List Nat → Option Nat} (hp : PickOK pick) :
    ∀ (fuel : Nat) (skip : List Nat) (s : St), Dec s (settle c pick fuel skip s) := by
  intro fuel
  induction fuel with
  | zero =>
    intro skip s
    simp only [settle]
    split
    · exact Dec.refl s
    · split
      · exact Dec.refl s
      · exact Dec.of_eq rfl (Nat.le_refl _)
  | succ fuel ih =>
    intro skip s
    simp only [settle, giveUp_eq hc]
    cases hr : s.retries with
    | nil => exact Dec.refl s
    | cons inp rest =>
      simp only
      cases hpk : pick (avail s skip) with
      | none => exact Dec.refl s
      | some w =>
        simp only
        obtain ⟨hw, _, hcl⟩ := mem_idle (mem_avail (hp _ _ hpk))
        have hnc0 : nc { s with retries := rest } = nc s := rfl
        have hphi0 : phi { s with retries := rest } + 4 = phi s := by
          simp only [phi, hr, List.length_cons, W]; omega
        refine Dec.trans ?_ (ih _ _)
        split
        · -- refused: the input is back at the head of the retry list, nothing changed
          exact Dec.of_eq rfl (by simp only [phi, hr, List.length_cons, W]; omega)
        · split
          · obtain ⟨n1, p1⟩ := doEnqueue_measure { s with retries := rest } w inp hw
            exact Dec.of_eq (by rw [n1, hnc0]) (by omega)
          · have n1 := markDead_nc hc { s with retries := rest } w hw hcl
            have d2 := (ih [] (markDead c { s with retries := rest } w)).nc_le
            have n3 := unused_nc c (settle c pick fuel [] (markDead c { s with retries := rest } w)) inp true
            exact Or.inl (by omega)

theorem sdec_handleDeath {c : Cfg} (hc : Retrying c) {pick : List Nat → Option Nat} (hp : PickOK pick)
    (s : St) (w : Nat) (hw : w < s.ws.length) (hcl : (getW s w).closed = false) : SDec s (handleDeath c pick s w) := by
  unfold handleDeath
  have n1 := markDead_nc hc s w hw hcl
  have d2 := (dec_settle hc hp ((s.ws.length + 1) * (s.ws.length + 1)) [] (markDead c s w)).nc_le
  exact Or.inl (by omega)

theorem nextInputs_measure (s : St) :
    nc (nextInputs s).2 = nc s ∧
    (match (nextInputs s).1 with
     | none => phi (nextInputs s).2 ≤ phi s
     | some _ => phi (nextInputs s).2 + 4 = phi s) := by
  unfold nextInputs
  split
  · rename_i r rs hr
    exact ⟨rfl, by simp only [phi, hr, List.length_cons, W]; omega⟩
  · split
    · exact ⟨rfl, Nat.le_refl _⟩
    · split
      · refine ⟨rfl, ?_⟩
        show phi { s with depleted := true } ≤ phi s
        simp only [phi, W]
        split <;> omega
      · rename_i a rest hs
        exact ⟨rfl, by simp only [phi, hs, List.length_cons, W]; omega⟩

theorem dec_tryEnqueue {c : Cfg} (hc : Retrying c) {pick : List Nat → Option Nat} (hp : PickOK pick)
    (s : St) (w : Nat) (hw : w < s.ws.length) : Dec s (tryEnqueue c pick s w).1 := by
  unfold tryEnqueue
  simp only [giveUp_eq hc, putBack_eq hc]
  have hm := nextInputs_measure s
  have hlen : (nextInputs s).2.ws.length = s.ws.length := by
    unfold nextInputs
    split
    · rfl
    · split
      · rfl
      · split <;> rfl
  generalize nextInputs s = r at hm hlen
  obtain ⟨o, s'⟩ := r
  obtain ⟨hn, hph⟩ := hm
  simp only at hn hph hlen
  cases o with
  | none => exact Dec.of_eq hn hph
  | some p =>
    obtain ⟨fr, inp⟩ := p
    simp only at hph
    have hw' : w < s'.ws.length := by rw [hlen]; exact hw
    by_cases hcl : (getW s' w).closed = true
    · simp only [hcl, if_true]
      exact Dec.of_eq (by rw [unused_nc, hn]) (by rw [unused_phi hc]; omega)
    · simp only [hcl, Bool.false_eq_true, if_false]
      by_cases hrf : c.refuse w inp = true
      · simp only [hrf, if_true]
        exact Dec.of_eq (by rw [unused_nc, hn]) (by rw [unused_phi hc]; omega)
      simp only [hrf, Bool.false_eq_true, if_false]
      by_cases ha : (getW s' w).alive = true
      · simp only [ha, if_true]
        obtain ⟨n1, p1⟩ := doEnqueue_measure s' w inp hw'
        exact Dec.of_eq (by rw [n1, hn]) (by omega)
      · simp only [ha, Bool.false_eq_true, if_false]
        have h1 := sdec_handleDeath hc hp s' w hw' (by simpa using hcl)
        rcases h1 with h1 | ⟨h1, _⟩
        · exact Or.inl (by rw [unused_nc]; omega)
        · have := markDead_nc hc s' w hw' (by simpa using hcl)
          have d2 := (dec_settle hc hp ((s'.ws.length + 1) * (s'.ws.length + 1)) [] (markDead c s' w)).nc_le
          unfold handleDeath at h1
          omega

/-- a queue is *ready* when it is still registered and holds a message or its writer has closed -/
def ready (s : St) (w : Nat) : Bool :=
  decide (w < s.ws.length) && (getW s w).queue && (!(getW s w).chan.isEmpty || (getW s w).eof)

/-- replacing worker `w` by `x` with the same closed flag changes the measure by the workers' potentials -/
theorem setW_dec (s : St) (w : Nat) (x : Worker) (hw : w < s.ws.length) (hc : x.closed = (getW s w).closed)
    (hle : wt x ≤ wt (getW s w)) : Dec s (setW s w x) := by
  have := W_setW s w x hw
  exact Dec.of_eq (nc_setW_same s w x hc) (by rw [phi_setW]; simp only [phi]; omega)

theorem setW_sdec (s : St) (w : Nat) (x : Worker) (hw : w < s.ws.length) (hc : x.closed = (getW s w).closed)
    (hlt : wt x < wt (getW s w)) : SDec s (setW s w x) := by
  have := W_setW s w x hw
  exact Or.inr ⟨nc_setW_same s w x hc, by rw [phi_setW]; simp only [phi]; omega⟩

/-- reading from the queue of `w`: never increases the measure; decreases it when the queue was ready -/
theorem onPoll_measure {c : Cfg} (hc : Retrying c) {pick : List Nat → Option Nat} (hp : PickOK pick)
    (s : St) (w : Nat) (hw : w < s.ws.length) :
    Dec s (onPoll c pick s w) ∧ (ready s w = true → SDec s (onPoll c pick s w)) := by
  unfold onPoll ready
  dsimp only
  split
  · rename_i hq
    refine ⟨Dec.refl s, fun h => ?_⟩
    exfalso; simp_all <;> omega
  rename_i hq
  have hq' : (getW s w).queue = true := by simpa using hq
  split
  · -- nothing buffered
    rename_i hch
    split
    · rename_i he
      refine ⟨Dec.refl s, fun h => ?_⟩
      exfalso; simp_all <;> omega
    · have h1 : SDec s (setW s w { getW s w with queue := false }) :=
        setW_sdec s w _ hw rfl (by simp [wt, hq'])
      split
      · exact ⟨h1.dec, fun _ => h1⟩
      · rename_i hcl
        have hcl' : (getW (setW s w { getW s w with queue := false }) w).closed = false := by
          rw [getW_setW_same s w _ hw]; simpa using hcl
        have h2 := sdec_handleDeath hc hp (setW s w { getW s w with queue := false }) w (by rw [setW_length]; exact hw) hcl'
        exact ⟨(h1.trans_dec h2.dec).dec, fun _ => h1.trans_dec h2.dec⟩
  · -- end marker
    rename_i rest hch
    have h1 : SDec s (setW s w { getW s w with chan := rest }) :=
      setW_sdec s w _ hw rfl (by simp [wt, hch] <;> omega)
    split
    · exact ⟨h1.dec, fun _ => h1⟩
    · rename_i hcl
      have hcl' : (getW (setW s w { getW s w with chan := rest }) w).closed = false := by
        rw [getW_setW_same s w _ hw]; simpa using hcl
      have h2 := sdec_handleDeath hc hp (setW s w { getW s w with chan := rest }) w (by rw [setW_length]; exact hw) hcl'
      exact ⟨(h1.trans_dec h2.dec).dec, fun _ => h1.trans_dec h2.dec⟩
  · -- a result
    rename_i i rest hch
    have h1 : SDec s (setW s w { getW s w with chan := rest }) :=
      setW_sdec s w _ hw rfl (by simp [wt, hch] <;> omega)
    split
    · exact ⟨h1.dec, fun _ => h1⟩
    · rw [getW_setW_same s w _ hw]
      split
      · have : SDec s { setW s w { getW s w with chan := rest } with err := some Err.popEmpty } := by
          rcases h1 with h1 | h1
          · exact Or.inl h1
          · exact Or.inr h1
        exact ⟨this.dec, fun _ => this⟩
      · rename_i p ppw' hcons
        let s2 : St := setW (setW s w { getW s w with chan := rest }) w { ({ getW s w with chan := rest } : Worker) with ppw := ppw' }
        have h2 : Dec (setW s w { getW s w with chan := rest }) s2 :=
          setW_dec _ w _ (by rw [setW_length]; exact hw) (by rw [getW_setW_same s w _ hw]) (by rw [getW_setW_same s w _ hw]; simp [wt])
        let s3 : St := { s2 with pending := s2.pending - 1, ret := if c.returnResults then s2.ret ++ [i] else s2.ret }
        have h3 : Dec s2 s3 := Dec.of_eq rfl (Nat.le_refl _)
        have h4 : Dec s3 (tryEnqueue c pick s3 w).1 := dec_tryEnqueue hc hp s3 w (by simp [s3, s2, setW]; exact hw)
        have hall : SDec s (tryEnqueue c pick s3 w).1 := h1.trans_dec (h2.trans (h3.trans h4))
        exact ⟨hall.dec, fun _ => hall⟩

/-- events that change something -/
def effective (s : St) : Ev → Bool
  | .work w => decide (w < s.ws.length) && (getW s w).alive && !(getW s w).inbox.isEmpty
  | .die w _ => decide (w < s.ws.length) && (getW s w).alive
  | .poll [] => false
  | .poll (w :: _) => running s && s.err.isNone && ready s w

theorem step_measure {c : Cfg} (hc : Retrying c) {pick : List Nat → Option Nat} (hp : PickOK pick)
    (s : St) (ev : Ev) : Dec s (step c pick s ev) ∧ (effective s ev = true → SDec s (step c pick s ev)) := by
  cases ev with
  | work w =>
    simp only [step, effective]
    by_cases hw : w < s.ws.length
    · split
      · rename_i ha
        refine ⟨Dec.refl s, fun h => ?_⟩
        exfalso; simp_all <;> omega
      · split
        · rename_i hin
          refine ⟨Dec.refl s, fun h => ?_⟩
          exfalso; simp_all <;> omega
        · rename_i i rest hin
          have : SDec s (setW s w { getW s w with inbox := rest, chan := (getW s w).chan ++ [Msg.res i] }) :=
            setW_sdec s w _ hw rfl (by simp [wt, hin] <;> omega)
          exact ⟨this.dec, fun _ => this⟩
    · rw [getW_oob s w hw]
      refine ⟨Dec.refl s, fun h => ?_⟩
      exfalso; simp_all <;> omega
  | die w marker =>
    simp only [step, effective]
    by_cases hw : w < s.ws.length
    · split
      · rename_i ha
        refine ⟨Dec.refl s, fun h => ?_⟩
        exfalso; simp_all <;> omega
      · rename_i ha
        have ha' : (getW s w).alive = true := by simpa using ha
        let x' : Worker :=
          { getW s w with
            alive := false
            lost := (getW s w).lost ++ (getW s w).inbox
            inbox := []
            chan := (if marker then (getW s w).chan ++ [Msg.endMarker] else (getW s w).chan)
            eof := true }
        have h1 : SDec s (setW s w x') :=
          setW_sdec s w x' hw rfl (by cases marker <;> simp [x', wt, ha'] <;> omega)
        exact ⟨h1.dec, fun _ => h1⟩
    · rw [getW_oob s w hw]
      simp only [Bool.not_true, Bool.false_eq_true, if_false]
      rw [setW_oob s w _ hw]
      refine ⟨Dec.refl s, fun h => ?_⟩
      exfalso; simp_all <;> omega
  | poll ws =>
    simp only [step]
    have key : ∀ (l : List Nat) (t : St),
        Dec t (l.foldl (fun s w => if s.err.isNone then onPoll c pick s w else s) t) := by
      intro l
      induction l with
      | nil => intro t; exact Dec.refl t
      | cons w ws ih =>
        intro t
        simp only [List.foldl_cons]
        split
        · by_cases hw : w < t.ws.length
          · exact Dec.trans (onPoll_measure hc hp t w hw).1 (ih _)
          · have : onPoll c pick t w = t := by
              unfold onPoll
              rw [getW_oob t w hw]
              simp
            rw [this]; exact ih t
        · exact ih t
    split
    · rename_i hrun
      refine ⟨key ws s, ?_⟩
      cases ws with
      | nil => intro h; simp [effective] at h
      | cons w rest =>
        intro h
        simp only [effective, Bool.and_eq_true] at h
        obtain ⟨⟨_, he⟩, hr⟩ := h
        have hw : w < s.ws.length := by
          simp only [ready, Bool.and_eq_true, decide_eq_true_eq] at hr
          exact hr.1.1
        simp only [List.foldl_cons, he, if_true]
        exact Dec.trans_sdec (Dec.refl s) (((onPoll_measure hc hp s w hw).2 hr).trans_dec (key rest _))
    · rename_i hrun
      refine ⟨Dec.refl s, fun h => ?_⟩
      cases ws with
      | nil => simp [effective] at h
      | cons w rest =>
        simp only [effective, Bool.and_eq_true] at h
        exact absurd (by simpa using h.1) hrun

/-! ### well-foundedness: no infinite sequence of effective events -/

theorem no_infinite_sdec (f : Nat → St) (h : ∀ i, SDec (f i) (f (i + 1))) : False := by
  -- strong induction on nc, inner on phi
  have key : ∀ n p i, nc (f i) = n → phi (f i) = p → False := by
    intro n
    induction n using Nat.strongRecOn with
    | _ n ihn =>
      intro p
      induction p using Nat.strongRecOn with
      | _ p ihp =>
        intro i hn hp
        rcases h i with h1 | ⟨h1, h2⟩
        · exact ihn (nc (f (i + 1))) (by omega) _ (i + 1) rfl rfl
        · exact ihp (phi (f (i + 1))) (by omega) (i + 1) (by omega) rfl
  exact key _ _ 0 rfl rfl

end PwVerif.Pool
