import PwVerif.Model.Pool
/-! Invariants of the Pool model (retry on, no enqueue_fn). -/
namespace PwVerif.Pool

/-! ### list helpers -/

theorem sum_set (l : List Nat) (w : Nat) (y : Nat) (h : w < l.length) :
    (l.set w y).sum + l[w] = l.sum + y := by
  induction l generalizing w with
  | nil => simp at h
  | cons a as ih =>
    cases w with
    | zero => simp; omega
    | succ w =>
      simp only [List.set_cons_succ, List.sum_cons, List.getElem_cons_succ]
      have := ih w (by simpa using h)
      omega

theorem map_set {α β} (f : α → β) (l : List α) (w : Nat) (y : α) :
    (l.set w y).map f = (l.map f).set w (f y) := by
  induction l generalizing w with
  | nil => simp
  | cons a as ih => cases w <;> simp [ih]

/-- inputs of the result messages waiting in a channel, in order -/
def resIn : List Msg → List Inp
  | [] => []
  | .res i :: rest => i :: resIn rest
  | .endMarker :: rest => resIn rest

theorem resIn_append (a b : List Msg) : resIn (a ++ b) = resIn a ++ resIn b := by
  induction a with
  | nil => rfl
  | cons m ms ih => cases m <;> simp [resIn, ih]

/-! ### the invariant -/

structure WInv (x : Worker) : Prop where
  open_ : x.closed = false → x.ppw = resIn x.chan ++ x.inbox ++ x.lost
  closed_ : x.closed = true → x.ppw = []
  alive_ : x.alive = true → x.lost = []
  dead_ : x.alive = false → x.inbox = [] ∧ x.eof = true

def ppwCount (i : Inp) (s : St) : Nat := (s.ws.map (fun x => x.ppw.count i)).sum
def ppwLen (s : St) : Nat := (s.ws.map (fun x => x.ppw.length)).sum

def cnt (i : Inp) (s : St) : Nat := s.src.count i + s.retries.count i + ppwCount i s + s.ret.count i

/-- `F`: inputs taken out of the source / retry list and not yet placed anywhere (in flight inside a macro step) -/
structure Inv (src0 F : List Inp) (s : St) : Prop where
  ws : ∀ x ∈ s.ws, WInv x
  pending : s.pending = (ppwLen s : Int)
  cons : ∀ i, src0.count i = cnt i s + F.count i
  depl : s.depleted = true → s.src = []
  nopop : s.err ≠ some .popEmpty

theorem getW_mem (s : St) (w : Nat) (h : w < s.ws.length) : getW s w ∈ s.ws := by
  simp only [getW, List.getElem?_eq_getElem h, Option.getD_some]
  exact List.getElem_mem h

theorem getW_eq (s : St) (w : Nat) (h : w < s.ws.length) : getW s w = s.ws[w] := by
  simp [getW, List.getElem?_eq_getElem h]

theorem setW_length (s : St) (w : Nat) (x : Worker) : (setW s w x).ws.length = s.ws.length := by
  simp [setW]

theorem mem_setW {s : St} {w : Nat} {x y : Worker} (h : y ∈ (setW s w x).ws) : y = x ∨ y ∈ s.ws := by
  simp only [setW] at h
  rcases List.mem_or_eq_of_mem_set h with h | h
  · exact Or.inr h
  · exact Or.inl h

theorem ppwCount_setW (i : Inp) (s : St) (w : Nat) (x : Worker) (h : w < s.ws.length) :
    ppwCount i (setW s w x) + (getW s w).ppw.count i = ppwCount i s + x.ppw.count i := by
  simp only [ppwCount, setW, map_set]
  have := sum_set (s.ws.map fun x => x.ppw.count i) w (x.ppw.count i) (by simpa using h)
  simpa [getW_eq s w h] using this

theorem ppwLen_setW (s : St) (w : Nat) (x : Worker) (h : w < s.ws.length) :
    ppwLen (setW s w x) + (getW s w).ppw.length = ppwLen s + x.ppw.length := by
  simp only [ppwLen, setW, map_set]
  have := sum_set (s.ws.map fun x => x.ppw.length) w x.ppw.length (by simpa using h)
  simpa [getW_eq s w h] using this

/-! ### primitive updates -/

/-- configuration of the *safety* theorems (conservation, exactly-once, no IndexError, genuine partial
    results): retry on, results returned - and **any** user `enqueue_fn` (`c.refuse` is arbitrary) -/
structure Retrying (c : Cfg) : Prop where
  retry : c.retry = true
  rr : c.returnResults = true

/-- configuration of the liveness / failure-report theorems: additionally no user enqueue function
    (with one, `handle_death` can livelock: `C07_livelock_witness`) -/
structure Plain (c : Cfg) : Prop extends Retrying c where
  noFn : ∀ w i, c.refuse w i = false

instance {c : Cfg} : Coe (Plain c) (Retrying c) := ⟨Plain.toRetrying⟩

/-- with retry enabled an input that was refused and one whose worker is dead are treated alike -/
theorem putBack_eq {c : Cfg} (hc : Retrying c) (s : St) (inp : Inp) (fr : Bool) : putBack s inp fr = unused c s inp fr := by
  simp [unused, hc.retry]

/-- with retry enabled nothing is ever given up: the ghost record stays untouched -/
theorem giveUp_eq {c : Cfg} (hc : Retrying c) (s : St) (w : Nat) (inp : Inp) : giveUp c s w inp = s := by
  simp [giveUp, hc.retry]

@[simp] theorem setW_src (s : St) (w : Nat) (x : Worker) : (setW s w x).src = s.src := rfl
@[simp] theorem setW_retries (s : St) (w : Nat) (x : Worker) : (setW s w x).retries = s.retries := rfl
@[simp] theorem setW_ret (s : St) (w : Nat) (x : Worker) : (setW s w x).ret = s.ret := rfl
@[simp] theorem setW_pending (s : St) (w : Nat) (x : Worker) : (setW s w x).pending = s.pending := rfl
@[simp] theorem setW_depleted (s : St) (w : Nat) (x : Worker) : (setW s w x).depleted = s.depleted := rfl
@[simp] theorem setW_err (s : St) (w : Nat) (x : Worker) : (setW s w x).err = s.err := rfl

/-- `Inv` only looks at these components -/
theorem inv_congr {src0 F : List Inp} {s t : St} (h : Inv src0 F s) (hws : t.ws = s.ws) (hsrc : t.src = s.src)
    (hr : t.retries = s.retries) (hret : t.ret = s.ret) (hp : t.pending = s.pending) (hd : t.depleted = s.depleted)
    (he : t.err ≠ some .popEmpty) :
    Inv src0 F t := by
  refine ⟨by rw [hws]; exact h.ws, ?_, ?_, by rw [hd, hsrc]; exact h.depl, he⟩
  · rw [hp, h.pending]; simp [ppwLen, hws]
  · intro i; rw [h.cons i]; simp [cnt, ppwCount, hws, hsrc, hr, hret]

theorem inv_nextInputs {src0 F : List Inp} {s : St} (h : Inv src0 F s) :
    match nextInputs s with
    | (none, s') => Inv src0 F s' ∧ s'.ws = s.ws
    | (some (_, inp), s') => Inv src0 (inp :: F) s' ∧ s'.ws = s.ws := by
  unfold nextInputs
  cases hr : s.retries with
  | cons r rs =>
    refine ⟨⟨h.ws, h.pending, ?_, h.depl, h.nopop⟩, ?_⟩
    · intro i
      have := h.cons i
      simp only [cnt, ppwCount, hr, List.count_cons] at this ⊢
      omega
    · simp
  | nil =>
    by_cases hd : s.depleted = true
    · simp only [hd, if_true]
      exact ⟨⟨h.ws, h.pending, by simpa [cnt, ppwCount, hr] using h.cons, h.depl, h.nopop⟩, by simp⟩
    · simp only [hd, Bool.false_eq_true, if_false]
      cases hs : s.src with
      | nil =>
        refine ⟨⟨h.ws, h.pending, ?_, fun _ => rfl, h.nopop⟩, by simp⟩
        intro i; have := h.cons i
        simpa [cnt, ppwCount, hr, hs] using this
      | cons a rest =>
        refine ⟨⟨h.ws, h.pending, ?_, ?_, h.nopop⟩, by simp⟩
        · intro i
          have := h.cons i
          simp only [cnt, ppwCount, hr, hs, List.count_cons] at this ⊢
          omega
        · intro hd'; exact absurd hd' (by simpa using hd)

theorem inv_unused {c : Cfg} (hc : Retrying c) {src0 F : List Inp} {s : St} {inp : Inp} (fr : Bool)
    (h : Inv src0 (inp :: F) s) : Inv src0 F (unused c s inp fr) ∧ (unused c s inp fr).ws = s.ws := by
  cases fr
  · refine ⟨⟨by simpa [unused, putBack, hc.retry] using h.ws, by simpa [unused, putBack, hc.retry, ppwLen] using h.pending, ?_,
      by simpa [unused, putBack, hc.retry] using h.depl, by simpa [unused, putBack, hc.retry] using h.nopop⟩, by simp [unused, putBack, hc.retry]⟩
    intro i; have := h.cons i
    simp only [cnt, ppwCount, unused, putBack, hc.retry, List.count_cons, List.count_append, List.count_nil, Bool.not_true,
      Bool.false_eq_true, if_false] at this ⊢
    omega
  · refine ⟨⟨by simpa [unused, putBack, hc.retry] using h.ws, by simpa [unused, putBack, hc.retry, ppwLen] using h.pending, ?_,
      by simpa [unused, putBack, hc.retry] using h.depl, by simpa [unused, putBack, hc.retry] using h.nopop⟩, by simp [unused, putBack, hc.retry]⟩
    intro i; have := h.cons i
    simp only [cnt, ppwCount, unused, putBack, hc.retry, List.count_cons, Bool.not_true, Bool.false_eq_true, if_false,
      if_true] at this ⊢
    omega

theorem inv_doEnqueue {src0 F : List Inp} {s : St} {inp : Inp} {w : Nat} (h : Inv src0 (inp :: F) s)
    (hw : w < s.ws.length) (ha : (getW s w).alive = true) (hcl : (getW s w).closed = false) :
    Inv src0 F (doEnqueue s w inp) ∧ (doEnqueue s w inp).ws.length = s.ws.length := by
  have hx := h.ws _ (getW_mem s w hw)
  let x' : Worker := { getW s w with inbox := (getW s w).inbox ++ [inp], ppw := (getW s w).ppw ++ [inp] }
  have hde : doEnqueue s w inp = { setW s w x' with pending := s.pending + 1, enq := s.enq ++ [(w, inp)] } := rfl
  refine ⟨⟨?_, ?_, ?_, ?_, by rw [hde]; exact h.nopop⟩, by simp [hde, setW]⟩
  · intro y hy
    rw [hde] at hy
    rcases mem_setW hy with rfl | hy
    · refine ⟨?_, ?_, ?_, ?_⟩
      · intro _
        have := hx.open_ hcl
        have hl := hx.alive_ ha
        simp only [x', this, hl, List.append_nil, List.append_assoc]
      · intro hc'; simp [x', hcl] at hc'
      · intro _; exact hx.alive_ ha
      · intro hd; simp [x', ha] at hd
    · exact h.ws y hy
  · have := ppwLen_setW s w x' hw
    simp only [x', List.length_append, List.length_singleton] at this
    rw [hde]
    show s.pending + 1 = (ppwLen (setW s w x') : Int)
    rw [h.pending]
    simp only [x']
    omega
  · intro i
    have hc := h.cons i
    have := ppwCount_setW i s w x' hw
    simp only [x', List.count_append, List.count_cons, List.count_nil] at this
    rw [hde]
    show src0.count i = cnt i (setW s w x') + F.count i
    simp only [cnt, List.count_cons, setW_src, setW_retries, setW_ret] at hc ⊢
    simp only [x']
    omega
  · rw [hde]; exact h.depl

theorem inv_markDead {c : Cfg} (hc : Retrying c) {src0 F : List Inp} {s : St} {w : Nat} (h : Inv src0 F s)
    (hw : w < s.ws.length) :
    Inv src0 F (markDead c s w) ∧ (markDead c s w).ws.length = s.ws.length ∧
    (getW (markDead c s w) w).closed = true := by
  have hx := h.ws _ (getW_mem s w hw)
  let x' : Worker := { getW s w with ppw := [], closed := true }
  let s1 : St := { s with retries := s.retries ++ (getW s w).ppw }
  let s2 : St := { s1 with pending := s1.pending - (getW s w).ppw.length }
  have hmd : markDead c s w = setW s2 w x' := by simp [markDead, hc.retry, s1, s2, x']
  rw [hmd]
  refine ⟨⟨?_, ?_, ?_, ?_, h.nopop⟩, by simp [setW, s2, s1], by simp [getW, setW, hw, s2, s1, x']⟩
  · intro y hy
    rcases mem_setW hy with rfl | hy
    · exact ⟨fun hcl => by simp [x'] at hcl, fun _ => rfl, hx.alive_, hx.dead_⟩
    · exact h.ws y hy
  · have := ppwLen_setW s w x' hw
    simp only [x', List.length_nil] at this
    show s.pending - ((getW s w).ppw.length : Int) = (ppwLen (setW s2 w x') : Int)
    have e : ppwLen (setW s2 w x') = ppwLen (setW s w x') := rfl
    rw [e, h.pending]
    simp only [x']
    omega
  · intro i
    have hcn := h.cons i
    have := ppwCount_setW i s w x' hw
    simp only [x', List.count_nil] at this
    have e : ppwCount i (setW s2 w x') = ppwCount i (setW s w x') := rfl
    simp only [cnt, setW_src, setW_retries, setW_ret, e] at hcn ⊢
    simp only [s2, s1, List.count_append, x']
    omega
  · exact h.depl

/-! ### the re-dispatch loop -/

def PickOK (pick : List Nat → Option Nat) : Prop := ∀ l w, pick l = some w → w ∈ l

theorem mem_idleFrom {ws : List Worker} {k w : Nat} (h : w ∈ idleFrom ws k) :
    ∃ j, w = k + j ∧ ∃ hj : j < ws.length, ws[j].ppw = [] ∧ ws[j].closed = false := by
  induction ws generalizing k with
  | nil => simp [idleFrom] at h
  | cons x xs ih =>
    simp only [idleFrom] at h
    split at h
    · rename_i hx
      simp only [List.mem_cons] at h
      rcases h with h | h
      · refine ⟨0, by omega, by simp, ?_⟩
        simp only [Bool.and_eq_true, List.isEmpty_iff, Bool.not_eq_true'] at hx
        simpa using hx
      · obtain ⟨j, hj, hlt, hp⟩ := ih h
        exact ⟨j + 1, by omega, by simpa using hlt, by simpa using hp⟩
    · obtain ⟨j, hj, hlt, hp⟩ := ih h
      exact ⟨j + 1, by omega, by simpa using hlt, by simpa using hp⟩

theorem mem_idle {s : St} {w : Nat} (h : w ∈ idle s) :
    w < s.ws.length ∧ (getW s w).ppw = [] ∧ (getW s w).closed = false := by
  obtain ⟨j, hj, hlt, hp⟩ := mem_idleFrom h
  have : w = j := by omega
  subst this
  exact ⟨hlt, by simpa [getW_eq s w hlt] using hp⟩

theorem inv_pop_retry {src0 F : List Inp} {s : St} {inp : Inp} {rest : List Inp} (h : Inv src0 F s)
    (hr : s.retries = inp :: rest) : Inv src0 (inp :: F) { s with retries := rest } := by
  refine ⟨h.ws, h.pending, ?_, h.depl, h.nopop⟩
  intro i; have := h.cons i
  simp only [cnt, ppwCount, hr, List.count_cons] at this ⊢
  omega

theorem mem_avail {s : St} {skip : List Nat} {w : Nat} (h : w ∈ avail s skip) : w ∈ idle s :=
  (List.mem_filter.mp h).1

theorem inv_settle {c : Cfg} (hc : Retrying c) {pick : List Nat → Option Nat} (hp : PickOK pick) {src0 : List Inp} :
    ∀ (fuel : Nat) (F : List Inp) (skip : List Nat) (s : St), Inv src0 F s →
      Inv src0 F (settle c pick fuel skip s) ∧ (settle c pick fuel skip s).ws.length = s.ws.length := by
  intro fuel
  induction fuel with
  | zero =>
    intro F skip s h
    simp only [settle]
    split
    · exact ⟨h, rfl⟩
    · split
      · exact ⟨h, rfl⟩
      · exact ⟨inv_congr h rfl rfl rfl rfl rfl rfl (by simp), rfl⟩
  | succ fuel ih =>
    intro F skip s h
    simp only [settle, giveUp_eq hc]
    cases hr : s.retries with
    | nil => exact ⟨h, rfl⟩
    | cons inp rest =>
      simp only
      cases hpk : pick (avail s skip) with
      | none => exact ⟨h, rfl⟩
      | some w =>
        obtain ⟨hw, hppw, hcl⟩ := mem_idle (mem_avail (hp _ _ hpk))
        have h1 := inv_pop_retry h hr
        have hg : getW { s with retries := rest } w = getW s w := rfl
        simp only
        -- the state after the attempt, whatever it was, satisfies the invariant
        have key : Inv src0 F
            (if c.refuse w inp = true then { ({ s with retries := rest } : St) with retries := inp :: rest }
             else if (getW { s with retries := rest } w).alive = true then doEnqueue { s with retries := rest } w inp
             else unused c (settle c pick fuel [] (markDead c { s with retries := rest } w)) inp true) ∧
            (if c.refuse w inp = true then { ({ s with retries := rest } : St) with retries := inp :: rest }
             else if (getW { s with retries := rest } w).alive = true then doEnqueue { s with retries := rest } w inp
             else unused c (settle c pick fuel [] (markDead c { s with retries := rest } w)) inp true).ws.length = s.ws.length := by
          by_cases hrf : c.refuse w inp = true
          · simp only [hrf, if_true]
            exact ⟨inv_congr h rfl rfl (by simp [hr]) rfl rfl rfl h.nopop, trivial⟩
          · simp only [hrf, Bool.false_eq_true, if_false]
            by_cases ha : (getW s w).alive = true
            · simp only [hg, ha, if_true]
              obtain ⟨h2, l2⟩ := inv_doEnqueue (s := { s with retries := rest }) h1 hw (by rw [hg]; exact ha) (by rw [hg]; exact hcl)
              exact ⟨h2, l2⟩
            · simp only [hg, ha, Bool.false_eq_true, if_false]
              obtain ⟨h2, l2, _⟩ := inv_markDead hc (s := { s with retries := rest }) h1 hw
              obtain ⟨h3, l3⟩ := ih (inp :: F) [] _ h2
              obtain ⟨h4, l4⟩ := inv_unused hc true h3
              exact ⟨h4, by rw [l4, l3, l2]⟩
        obtain ⟨hk, lk⟩ := key
        obtain ⟨h5, l5⟩ := ih F _ _ hk
        exact ⟨h5, by rw [l5, lk]⟩

theorem inv_handleDeath {c : Cfg} (hc : Retrying c) {pick : List Nat → Option Nat} (hp : PickOK pick)
    {src0 F : List Inp} {s : St} {w : Nat} (h : Inv src0 F s) (hw : w < s.ws.length) :
    Inv src0 F (handleDeath c pick s w) ∧ (handleDeath c pick s w).ws.length = s.ws.length := by
  unfold handleDeath
  obtain ⟨h1, l1, _⟩ := inv_markDead hc h hw
  obtain ⟨h2, l2⟩ := inv_settle hc hp _ F [] _ h1
  exact ⟨h2, by rw [l2, l1]⟩

theorem inv_tryEnqueue {c : Cfg} (hc : Retrying c) {pick : List Nat → Option Nat} (hp : PickOK pick)
    {src0 F : List Inp} {s : St} {w : Nat} (h : Inv src0 F s) (hw : w < s.ws.length) :
    Inv src0 F (tryEnqueue c pick s w).1 ∧ (tryEnqueue c pick s w).1.ws.length = s.ws.length := by
  unfold tryEnqueue
  simp only [giveUp_eq hc, putBack_eq hc]
  have hn := inv_nextInputs h
  generalize hg : nextInputs s = r at hn
  obtain ⟨o, s'⟩ := r
  cases o with
  | none => exact ⟨hn.1, by rw [hn.2]⟩
  | some p =>
    obtain ⟨fr, inp⟩ := p
    obtain ⟨h1, hws⟩ := hn
    have hw' : w < s'.ws.length := by rw [hws]; exact hw
    by_cases hcl : (getW s' w).closed = true
    · simp only [hcl, if_true]
      obtain ⟨h2, l2⟩ := inv_unused hc fr h1
      exact ⟨h2, by rw [l2, hws]⟩
    · simp only [hcl, Bool.false_eq_true, if_false]
      by_cases hrf : c.refuse w inp = true
      · simp only [hrf, if_true]
        obtain ⟨h2, l2⟩ := inv_unused hc fr h1
        exact ⟨h2, by rw [l2, hws]⟩
      simp only [hrf, Bool.false_eq_true, if_false]
      by_cases ha : (getW s' w).alive = true
      · simp only [ha, if_true]
        obtain ⟨h2, l2⟩ := inv_doEnqueue h1 hw' ha (by simpa using hcl)
        exact ⟨h2, by rw [l2, hws]⟩
      · simp only [ha, Bool.false_eq_true, if_false]
        obtain ⟨h2, l2⟩ := inv_handleDeath hc hp h1 hw'
        obtain ⟨h3, l3⟩ := inv_unused hc fr h2
        exact ⟨h3, by rw [l3, l2, hws]⟩

/-! ### first_enqueue -/

theorem inv_firstRound {c : Cfg} (hc : Retrying c) {pick : List Nat → Option Nat} (hp : PickOK pick) {src0 F : List Inp} :
    ∀ (n k : Nat) (s : St), Inv src0 F s → k + n ≤ s.ws.length →
      Inv src0 F (firstRound c pick n k s).1 ∧ (firstRound c pick n k s).1.ws.length = s.ws.length := by
  intro n
  induction n with
  | zero => intro k s h _; exact ⟨h, rfl⟩
  | succ n ih =>
    intro k s h hk
    simp only [firstRound]
    by_cases hcl : (getW s k).closed = true
    · simp only [hcl, if_true]
      exact ih (k + 1) s h (by omega)
    · simp only [hcl, Bool.false_eq_true, if_false]
      obtain ⟨h1, l1⟩ := inv_tryEnqueue hc hp (w := k) h (by omega)
      generalize hg : tryEnqueue c pick s k = r at h1 l1
      obtain ⟨s', b⟩ := r
      cases b with
      | false => exact ⟨h1, l1⟩
      | true =>
        obtain ⟨h2, l2⟩ := ih (k + 1) s' h1 (by simp at l1; omega)
        exact ⟨h2, by rw [l2]; exact l1⟩

theorem inv_firstEnqueue {c : Cfg} (hc : Retrying c) {pick : List Nat → Option Nat} (hp : PickOK pick) {src0 F : List Inp} :
    ∀ (rounds : Nat) (s : St), Inv src0 F s →
      Inv src0 F (firstEnqueue c pick rounds s) ∧ (firstEnqueue c pick rounds s).ws.length = s.ws.length := by
  intro rounds
  induction rounds with
  | zero => intro s h; exact ⟨h, rfl⟩
  | succ r ih =>
    intro s h
    simp only [firstEnqueue]
    obtain ⟨h1, l1⟩ := inv_firstRound hc hp s.ws.length 0 s h (by omega)
    generalize hg : firstRound c pick s.ws.length 0 s = res at h1 l1
    obtain ⟨s', b⟩ := res
    cases b with
    | false => exact ⟨h1, l1⟩
    | true =>
      obtain ⟨h2, l2⟩ := ih s' h1
      exact ⟨h2, by rw [l2]; exact l1⟩

/-! ### environment events and the event loop -/

theorem getW_setW_same (s : St) (w : Nat) (x : Worker) (h : w < s.ws.length) : getW (setW s w x) w = x := by
  simp [getW, setW, h]

/-- replacing a worker by one with the same pending list keeps the invariant if the new worker is well-formed -/
theorem inv_setW_samePpw {src0 F : List Inp} {s : St} {w : Nat} {x : Worker} (h : Inv src0 F s)
    (hw : w < s.ws.length) (hx : WInv x) (hp : x.ppw = (getW s w).ppw) : Inv src0 F (setW s w x) := by
  refine ⟨?_, ?_, ?_, h.depl, h.nopop⟩
  · intro y hy
    rcases mem_setW hy with rfl | hy
    · exact hx
    · exact h.ws y hy
  · have := ppwLen_setW s w x hw
    rw [hp] at this
    rw [setW_pending, h.pending]; omega
  · intro i
    have := ppwCount_setW i s w x hw
    rw [hp] at this
    have hc := h.cons i
    simp only [cnt, setW_src, setW_retries, setW_ret] at hc ⊢
    omega

theorem inv_onPoll {c : Cfg} (hc : Retrying c) {pick : List Nat → Option Nat} (hp : PickOK pick)
    {src0 : List Inp} {s : St} {w : Nat} (h : Inv src0 [] s) (hw : w < s.ws.length) :
    Inv src0 [] (onPoll c pick s w) ∧ (onPoll c pick s w).ws.length = s.ws.length := by
  have hx := h.ws _ (getW_mem s w hw)
  unfold onPoll
  dsimp only
  split
  · exact ⟨h, rfl⟩
  split
  · -- channel empty
    rename_i hch
    split
    · exact ⟨h, rfl⟩
    have h1 : Inv src0 [] (setW s w { getW s w with queue := false }) :=
      inv_setW_samePpw h hw ⟨hx.open_, hx.closed_, hx.alive_, hx.dead_⟩ rfl
    split
    · exact ⟨h1, setW_length _ _ _⟩
    · obtain ⟨h2, l2⟩ := inv_handleDeath hc hp h1 (by rw [setW_length]; exact hw)
      exact ⟨h2, by rw [l2, setW_length]⟩
  · -- end marker
    rename_i rest hch
    have hxw : WInv { getW s w with chan := rest } := by
      refine ⟨?_, hx.closed_, hx.alive_, hx.dead_⟩
      intro hcl
      have := hx.open_ hcl
      simpa [hch, resIn] using this
    have h1 : Inv src0 [] (setW s w { getW s w with chan := rest }) := inv_setW_samePpw h hw hxw rfl
    split
    · exact ⟨h1, setW_length _ _ _⟩
    · obtain ⟨h2, l2⟩ := inv_handleDeath hc hp h1 (by rw [setW_length]; exact hw)
      exact ⟨h2, by rw [l2, setW_length]⟩
  · -- a result message
    rename_i i rest hch
    split
    · rename_i hcl
      have hcl' : (getW s w).closed = true := by simpa using hcl
      have hxw : WInv { getW s w with chan := rest } :=
        ⟨fun hc' => by simp [hcl'] at hc', hx.closed_, hx.alive_, hx.dead_⟩
      exact ⟨inv_setW_samePpw h hw hxw rfl, setW_length _ _ _⟩
    · rename_i hcl
      have hcl' : (getW s w).closed = false := by simpa using hcl
      have hopen := hx.open_ hcl'
      simp only [hch, resIn, List.cons_append] at hopen
      rw [getW_setW_same s w _ hw]
      -- the pending list starts with exactly this input: no IndexError, and the popped input is `i`
      split
      · rename_i hnil
        simp only [hopen] at hnil
        cases hnil
      · rename_i p ppw' hcons
        simp only [hopen] at hcons
        have hp' : p = i ∧ ppw' = resIn rest ++ (getW s w).inbox ++ (getW s w).lost := by
          simp only [List.cons.injEq] at hcons
          exact ⟨hcons.1.symm, hcons.2.symm⟩
        obtain ⟨rfl, rfl⟩ := hp'
        let x' : Worker := { getW s w with chan := rest, ppw := resIn rest ++ (getW s w).inbox ++ (getW s w).lost }
        have hset : setW (setW s w { getW s w with chan := rest }) w
            { ({ getW s w with chan := rest } : Worker) with ppw := resIn rest ++ (getW s w).inbox ++ (getW s w).lost } = setW s w x' := by
          simp [setW, x']
        rw [hset]
        simp only [hc.rr, if_true, setW_pending, setW_ret]
        have hinv : Inv src0 [] { setW s w x' with pending := s.pending - 1, ret := s.ret ++ [p] } := by
          refine ⟨?_, ?_, ?_, h.depl, h.nopop⟩
          · intro y hy
            rcases mem_setW hy with rfl | hy
            · exact ⟨fun _ => rfl, fun hc' => by simp [x', hcl'] at hc', hx.alive_, hx.dead_⟩
            · exact h.ws y hy
          · have := ppwLen_setW s w x' hw
            rw [hopen] at this
            simp only [x', List.length_cons, List.length_append] at this
            show s.pending - 1 = (ppwLen (setW s w x') : Int)
            rw [h.pending]
            simp only [x']
            omega
          · intro j
            have hcn := h.cons j
            have := ppwCount_setW j s w x' hw
            rw [hopen] at this
            simp only [x', List.count_cons, List.count_append] at this
            show src0.count j = (s.src.count j + s.retries.count j + ppwCount j (setW s w x') + (s.ret ++ [p]).count j) + ([] : List Inp).count j
            simp only [cnt, List.count_append, List.count_cons, List.count_nil] at hcn ⊢
            simp only [x']
            omega
        obtain ⟨h2, l2⟩ := inv_tryEnqueue hc hp (w := w) hinv (by simp [setW]; exact hw)
        exact ⟨h2, by rw [l2]; simp [setW]⟩

/-! ### events -/

theorem getW_oob (s : St) (w : Nat) (h : ¬ w < s.ws.length) : getW s w = {} := by
  simp [getW, List.getElem?_eq_none (by omega : s.ws.length ≤ w)]

theorem setW_oob (s : St) (w : Nat) (x : Worker) (h : ¬ w < s.ws.length) : setW s w x = s := by
  simp [setW, List.set_eq_of_length_le (by omega : s.ws.length ≤ w)]

theorem inv_step {c : Cfg} (hc : Retrying c) {pick : List Nat → Option Nat} (hp : PickOK pick)
    {src0 : List Inp} {s : St} (ev : Ev) (h : Inv src0 [] s) :
    Inv src0 [] (step c pick s ev) ∧ (step c pick s ev).ws.length = s.ws.length := by
  cases ev with
  | work w =>
    simp only [step]
    by_cases hw : w < s.ws.length
    · have hx := h.ws _ (getW_mem s w hw)
      split
      · exact ⟨h, rfl⟩
      · rename_i ha
        have ha' : (getW s w).alive = true := by simpa using ha
        split
        · exact ⟨h, rfl⟩
        · rename_i i rest hin
          refine ⟨inv_setW_samePpw h hw ?_ rfl, setW_length _ _ _⟩
          refine ⟨?_, hx.closed_, hx.alive_, fun hd => by simp [ha'] at hd⟩
          intro hcl
          have := hx.open_ hcl
          simp only [hin] at this
          simp only [this, resIn_append, resIn, List.append_assoc, List.cons_append, List.nil_append]
    · rw [getW_oob s w hw]
      exact ⟨by simpa using h, by simp⟩
  | die w marker =>
    simp only [step]
    by_cases hw : w < s.ws.length
    · have hx := h.ws _ (getW_mem s w hw)
      split
      · exact ⟨h, rfl⟩
      · rename_i ha
        have ha' : (getW s w).alive = true := by simpa using ha
        refine ⟨inv_setW_samePpw h hw ?_ rfl, setW_length _ _ _⟩
        refine ⟨?_, hx.closed_, fun hd => by simp at hd, fun _ => ⟨rfl, rfl⟩⟩
        intro hcl
        have := hx.open_ hcl
        have hl := hx.alive_ ha'
        cases marker <;> simp [this, hl, resIn_append, resIn]
    · rw [getW_oob s w hw]
      simp only [Bool.not_true, Bool.false_eq_true, if_false]
      rw [setW_oob s w _ hw]
      exact ⟨h, rfl⟩
  | poll ws =>
    simp only [step]
    split
    · -- fold over the batch
      have key : ∀ (l : List Nat) (t : St), Inv src0 [] t →
          Inv src0 [] (l.foldl (fun s w => if s.err.isNone then onPoll c pick s w else s) t) ∧
          (l.foldl (fun s w => if s.err.isNone then onPoll c pick s w else s) t).ws.length = t.ws.length := by
        intro l
        induction l with
        | nil => intro t ht; exact ⟨ht, rfl⟩
        | cons w ws ih =>
          intro t ht
          simp only [List.foldl_cons]
          by_cases he : t.err.isNone = true
          · simp only [he, if_true]
            by_cases hw : w < t.ws.length
            · obtain ⟨h1, l1⟩ := inv_onPoll hc hp ht hw
              obtain ⟨h2, l2⟩ := ih _ h1
              exact ⟨h2, by rw [l2, l1]⟩
            · have : onPoll c pick t w = t := by
                unfold onPoll
                rw [getW_oob t w hw]
                simp
              rw [this]
              exact ih t ht
          · simp only [he, Bool.false_eq_true, if_false]
            exact ih t ht
      exact key ws s h
    · exact ⟨h, rfl⟩

theorem inv_runEvents {c : Cfg} (hc : Retrying c) {pick : List Nat → Option Nat} (hp : PickOK pick) {src0 : List Inp} :
    ∀ (evs : List Ev) (s : St), Inv src0 [] s → Inv src0 [] (runEvents c pick s evs) := by
  intro evs
  induction evs with
  | nil => intro s h; exact h
  | cons e es ih => intro s h; exact ih _ (inv_step hc hp e h).1

theorem inv_init (n : Nat) (src : List Inp) : Inv src [] (initSt n src) := by
  refine ⟨?_, ?_, ?_, fun hd => by simp [initSt] at hd, by simp [initSt]⟩
  · intro x hx
    simp only [initSt, List.mem_replicate] at hx
    rw [hx.2]
    exact ⟨fun _ => rfl, fun hc => by simp at hc, fun _ => rfl, fun hd => by simp at hd⟩
  · simp only [initSt, ppwLen]
    induction n with
    | zero => rfl
    | succ n ih => simp [List.replicate_succ] at ih ⊢
  · intro i
    simp only [cnt, ppwCount, initSt]
    have : ((List.replicate n ({} : Worker)).map fun x => x.ppw.count i).sum = 0 := by
      induction n with
      | zero => rfl
      | succ n ih => simp [List.replicate_succ] at ih ⊢
    simp [this]

theorem inv_start {c : Cfg} (hc : Retrying c) {pick : List Nat → Option Nat} (hp : PickOK pick)
    (n : Nat) (src : List Inp) (pre : List Ev) : Inv src [] (start c pick n src pre) := by
  unfold start
  have h0 : Inv src [] (pre.foldl (step c pick) (initSt n src)) := by
    have key : ∀ (l : List Ev) (t : St), Inv src [] t → Inv src [] (l.foldl (step c pick) t) := by
      intro l
      induction l with
      | nil => intro t ht; exact ht
      | cons e es ih => intro t ht; exact ih _ (inv_step hc hp e ht).1
    exact key pre _ (inv_init n src)
  exact (inv_firstEnqueue hc hp _ _ h0).1

end PwVerif.Pool
