import Lean
/-!
`eval_nat% t` elaborates to the numeral that the closed term `t : Nat` reduces to. It is only a way of *writing* a
numeral that depends on the regenerated programs without quoting it: whoever uses it still has to prove the equation
`numeral = t` (by `decide +kernel`); nothing is trusted about the elaborator.
-/
namespace PwVerif
open Lean Elab Term Meta in
elab "eval_nat% " t:term : term => do
  let e ← elabTerm t (some (mkConst ``Nat))
  let e ← instantiateMVars e
  let r ← withTransparency .all (reduce e)
  match r.nat? with
  | some n => return mkNatLit n
  | none =>
    match r.rawNatLit? with
    | some n => return mkNatLit n
    | none => throwError "eval_nat%: {r} is not a numeral"
end PwVerif
