import PwVerif.Lemmas.PyLoopD
import PwVerif.Lemmas.EvalNat
import PwVerif.Gen.RunLoops
/-!
(written by `tools/gen_loopk.py` from one template for the three persistent kinds)

The loop of the regenerated `premoteRun` program under one asynchronous event (`terminate()` delivered by either mechanism, or a kill) at an arbitrary landing point,
any number of items: the hypotheses of `loop_disturbed` (`Lemmas/PyLoopD.lean`) are discharged by symbolic evaluation
of the generated loop body - one evaluation per landing point inside a pass. The numbers of line events of a pass
are computed from the generated program (`eval_nat%`, then proved by the kernel); no line number is quoted.
-/
namespace PwVerif.LoopK
open PwVerif.Py PwVerif.Gen

def premoteW : Stmt := (firstWhileL premoteRun).getD (.brk 0)
def premoteL : Nat := eval_nat% (passLen (bodyOf premoteW) .item)
def premoteLr : Nat := eval_nat% (passLen (bodyOf premoteW) .release)
theorem premoteL_eq : premoteL = passLen (bodyOf premoteW) .item := by decide +kernel
theorem premoteLr_eq : premoteLr = passLen (bodyOf premoteW) .release := by decide +kernel
/-- the events covered for this kind -/
def premoteCov (a : Async) : Prop := a = .raiseWte false ∨ a = .kill ∨ a = .raiseWte true
/-- what has to hold at the head of the loop -/
abbrev premoteExtra (st : St) : Prop := st.ctrlAlive = true

set_option maxRecDepth 8000 in
theorem premote_item (env : Env) (he : Returns env) : ItemSpecC env 40 (lnOf premoteW) (bodyOf premoteW) premoteL := by
  intro st rest m hi hf hs
  simp [premoteL, lnOf, bodyOf, premoteW, firstWhileL, firstWhile, premoteRun, Option.orElse, exec, execBlock, execHandlers, lineEvent, doActs, doAct,
    evalCond, Catch.catches, hi, hf, hs, he.ret, he.tn, he.na]

set_option maxRecDepth 8000 in
theorem premote_rel (env : Env) (he : Returns env) : RelSpecC env 40 (lnOf premoteW) (bodyOf premoteW) premoteLr := by
  intro st rest m hi hf hs
  simp [premoteLr, lnOf, bodyOf, premoteW, firstWhileL, firstWhile, premoteRun, Option.orElse, exec, execBlock, execHandlers, lineEvent, doActs, doAct,
    evalCond, Catch.catches, hi, hf, hs, he.ret, he.tn, he.na]

set_option maxRecDepth 8000 in
set_option maxHeartbeats 1000000 in
theorem premote_fire_item (env : Env) (he : Returns env) (a : Async) (ha : premoteCov a) :
    FireItem env 40 (.whileS (lnOf premoteW) (condOf premoteW) (bodyOf premoteW)) a premoteL premoteExtra := by
  intro st rest K hK hi hl hq hx
  have h1 := hq.inflight; have h2 := hq.stop; have h3 := hq.async
  unfold premoteL at hK
  unfold premoteExtra at hx
  generalize hr : exec env 40 st (.whileS (lnOf premoteW) (condOf premoteW) (bodyOf premoteW)) = r
  rcases ha with rfl | rfl | rfl
  all_goals
    repeat' (first | omega | rcases K with _ | K)
  all_goals
    (simp [lnOf, condOf, bodyOf, premoteW, firstWhileL, firstWhile, premoteRun, Option.orElse, exec, execBlock, execHandlers, lineEvent, doActs,
       doAct, evalCond, Catch.catches, hi, hl, h1, h2, h3, hx, he.ret, he.tn, he.na] at hr
     subst hr
     constructor <;> simp [firedOut, firedReq, firedCtrl, h1, h2, h3, hx])

set_option maxRecDepth 8000 in
set_option maxHeartbeats 1000000 in
theorem premote_fire_rel (env : Env) (he : Returns env) (a : Async) (ha : premoteCov a) :
    FireRel env 40 (.whileS (lnOf premoteW) (condOf premoteW) (bodyOf premoteW)) a premoteLr premoteExtra := by
  intro st rest K hK hi hl hq hx
  have h1 := hq.inflight; have h2 := hq.stop; have h3 := hq.async
  unfold premoteLr at hK
  unfold premoteExtra at hx
  generalize hr : exec env 40 st (.whileS (lnOf premoteW) (condOf premoteW) (bodyOf premoteW)) = r
  rcases ha with rfl | rfl | rfl
  all_goals
    repeat' (first | omega | rcases K with _ | K)
  all_goals
    (simp [lnOf, condOf, bodyOf, premoteW, firstWhileL, firstWhile, premoteRun, Option.orElse, exec, execBlock, execHandlers, lineEvent, doActs,
       doAct, evalCond, Catch.catches, hi, hl, h1, h2, h3, hx, he.ret, he.tn, he.na] at hr
     subst hr
     refine ⟨?_, by simp⟩
     constructor <;> simp [firedOut, firedReq, firedCtrl, h1, h2, h3, hx])

/-- **the loop of the regenerated program under one event, any number of items, any landing point** -/
theorem premote_loop_disturbed (env : Env) (he : Returns env) (a : Async) (ha : premoteCov a) :
    ∀ n : Nat, ∃ F, 40 ≤ F ∧ ∀ (st : St) (K : Nat), st.inputs = List.replicate n .item ++ [.release] → st.left = some K →
      QuietC a st → premoteExtra st → LoopOut a n premoteL premoteLr K st (exec env F st premoteW) := by
  have hW : premoteW = .whileS (lnOf premoteW) (condOf premoteW) (bodyOf premoteW) := rfl
  rw [hW]
  apply loop_disturbed env 40 _ _ _ a premoteL premoteLr premoteExtra
  · intro st hs; simp [condOf, premoteW, firstWhileL, firstWhile, premoteRun, Option.orElse, evalCond, hs]
  · exact premote_item env he
  · exact premote_rel env he
  · exact premote_fire_item env he a ha
  · exact premote_fire_rel env he a ha
  · intro st t l i e cn rs h; exact h

/-- line events of the program before the loop is reached / after it was left (run on the release marker alone) -/
def premoteP : Nat := eval_nat% ((lineTrace premoteRun {} [.release]).idxOf (lnOf premoteW))
def premoteS : Nat := eval_nat% ((lineTrace premoteRun {} [.release]).length - (lineTrace premoteRun {} [.release]).idxOf (lnOf premoteW) - (passLen (bodyOf premoteW) .release + 1))
theorem premoteP_eq : premoteP = (lineTrace premoteRun {} [.release]).idxOf (lnOf premoteW) := by decide +kernel
theorem premoteS_eq : premoteS = (lineTrace premoteRun {} [.release]).length - (lineTrace premoteRun {} [.release]).idxOf (lnOf premoteW) - (passLen (bodyOf premoteW) .release + 1) := by
  decide +kernel

end PwVerif.LoopK
