import PwVerif.Model.Accessor
/-! helper lemmas for `Props/C01Accessor.lean` -/
namespace PwVerif.Accessor

/-- the liveness read comes before any read of `_result`, and `_result` is read after it -/
def aliveFirst : List Read → Bool
  | [] => false
  | .notAlive :: rs => rs.contains .resultIsNone
  | .started :: rs => aliveFirst rs
  | .resultIsNone :: _ => false

theorem all_dead_of_monotone : ∀ (ps : List Phase), monotone (.dead :: ps) = true → ∀ p ∈ ps, p = .dead := by
  intro ps
  induction ps with
  | nil => intro _ p hp; cases hp
  | cons q qs ih =>
    intro h p hp
    simp only [monotone, Bool.and_eq_true, decide_eq_true_eq] at h
    have hq : q = .dead := by
      cases q <;> simp [Phase.rank] at h ⊢
    subst hq
    rcases List.mem_cons.mp hp with rfl | hp
    · rfl
    · exact ih h.2 p hp

theorem holds_false_of_all_dead : ∀ (rs : List Read) (ps : List Phase), (∀ p ∈ ps, p = .dead) → rs.contains .resultIsNone = true →
    holds true rs ps = false := by
  intro rs
  induction rs with
  | nil => intro ps _ h; simp at h
  | cons r rs ih =>
    intro ps hd hc
    cases ps with
    | nil => rfl
    | cons p ps =>
      have hp : p = .dead := hd p (by simp)
      subst hp
      cases r with
      | resultIsNone => simp [holds, resultIsNone]
      | started =>
        have : rs.contains .resultIsNone = true := by simpa using hc
        simp [holds, ih ps (fun q hq => hd q (by simp [hq])) this]
      | notAlive =>
        have : rs.contains .resultIsNone = true := by simpa using hc
        simp [holds, ih ps (fun q hq => hd q (by simp [hq])) this]

theorem monotone_tail (p : Phase) (ps : List Phase) (h : monotone (p :: ps) = true) : monotone ps = true := by
  cases ps with
  | nil => rfl
  | cons q qs =>
    simp only [monotone, Bool.and_eq_true] at h
    exact h.2

theorem holds_false_of_aliveFirst : ∀ (order : List Read) (ps : List Phase), aliveFirst order = true → monotone ps = true →
    holds true order ps = false := by
  intro order
  induction order with
  | nil => intro ps h; simp [aliveFirst] at h
  | cons r rs ih =>
    intro ps ha hm
    cases ps with
    | nil => rfl
    | cons p ps =>
      cases r with
      | resultIsNone => simp [aliveFirst] at ha
      | started =>
        simp only [aliveFirst] at ha
        simp [holds, ih ps ha (monotone_tail p ps hm)]
      | notAlive =>
        simp only [aliveFirst] at ha
        cases p with
        | running => simp [holds, notAlive]
        | recorded => simp [holds, notAlive]
        | dead => simp [holds, notAlive, holds_false_of_all_dead rs ps (all_dead_of_monotone ps hm) ha]

end PwVerif.Accessor
