import PwVerif.Lemmas.PyFuel
/-!
Loops of the statement language over an unbounded number of items (`Model/Py.lean`).

* `firstWhileL` finds the (only) `while` statement of a regenerated run-loop program, so that theorems can speak
  about "the loop of the program" without quoting generated line numbers.
* `loop_generic`: if one pass over the loop body with an item turns the state into the same state with the item
  consumed, the counter bumped and one result message appended (`ItemSpec`), and a pass that receives the release
  marker leaves by `break` (`ReleaseSpec`), then for **every** `n` the loop run on `n` items followed by the marker
  ends normally with `n` result messages appended, counters consecutive (`loopPost`). Induction on `n`; fuel is
  handled by `exec_mono`. The two specs are discharged per program by symbolic evaluation (`simp`) of the generated
  body on a state whose fields are variables.
* `loop_rule` turns that into a rewrite rule for the evaluation of the whole program around the loop; the trace of
  line events is carried as `loopTr` (it is write-only in an undisturbed run).
-/
namespace PwVerif.Py

mutual
def firstWhile : Stmt → Option Stmt
  | .line _ _ => none
  | .ret _ _ => none
  | .brk _ => none
  | .call _ body _ => firstWhileL body
  | .ifS _ _ thn els => (firstWhileL thn).orElse fun _ => firstWhileL els
  | .whileS ln c body => some (.whileS ln c body)
  | .tryS _ body _ _ => firstWhileL body
def firstWhileL : List Stmt → Option Stmt
  | [] => none
  | s :: rest => (firstWhile s).orElse fun _ => firstWhileL rest
end

def itemsFrom (c : Nat) : Nat → List Msg
  | 0 => []
  | n + 1 => .item (c + 1) :: itemsFrom (c + 1) n

theorem itemsFrom_succ (c n : Nat) : [Msg.item (c + 1)] ++ itemsFrom (c + 1) n = itemsFrom c (n + 1) := rfl

def loopPost (st : St) (n : Nat) (tail : List Input) (r : St × Out) : Prop :=
  r.2 = .normal ∧ r.1 = { st with rtrace := r.1.rtrace, inputs := tail, extraNone := true,
                                   counter := st.counter + n, results := st.results ++ itemsFrom st.counter n }

theorem while_step (env : Env) (ln : Nat) (c : Cond) (body : List Stmt) (st st0 stb : St) (Fb F : Nat) (r : St × Out)
    (hle : lineEvent st ln = (st0, none)) (hc : evalCond st0 env c = true)
    (hb : execBlock env Fb st0 body = (stb, .normal))
    (hrest : exec env F stb (.whileS ln c body) = r) (hr : r.2 ≠ .fuel) :
    exec env (max Fb F + 1) st (.whileS ln c body) = r := by
  simp only [exec, hle, hc, if_true]
  rw [execBlock_mono env hb (by simp) (max Fb F) (Nat.le_max_left _ _)]
  simp only
  exact exec_mono env hrest hr _ (Nat.le_max_right _ _)

theorem while_break (env : Env) (ln : Nat) (c : Cond) (body : List Stmt) (st st0 stb : St) (Fb : Nat)
    (hle : lineEvent st ln = (st0, none)) (hc : evalCond st0 env c = true)
    (hb : execBlock env Fb st0 body = (stb, .broke)) :
    exec env (Fb + 1) st (.whileS ln c body) = (stb, .normal) := by
  simp only [exec, hle, hc, if_true, hb]

theorem lineEvent_quiet (st : St) (ln : Nat) (hl : st.left = none) (hf : st.inflight = none) :
    lineEvent st ln = ({ st with rtrace := ln :: st.rtrace }, none) := by
  simp [lineEvent, hl, hf]

structure Quiet (st : St) : Prop where
  left : st.left = none
  inflight : st.inflight = none
  stop : st.stop = false

/-- one full iteration of the loop body on an item -/
def ItemSpec (env : Env) (B ln : Nat) (body : List Stmt) : Prop :=
  ∀ (st : St) (rest : List Input), st.inputs = .item :: rest → Quiet st →
    (execBlock env B { st with rtrace := ln :: st.rtrace } body).2 = .normal ∧
    (execBlock env B { st with rtrace := ln :: st.rtrace } body).1 =
      { st with rtrace := (execBlock env B { st with rtrace := ln :: st.rtrace } body).1.rtrace, inputs := rest,
                extraNone := false, counter := st.counter + 1, results := st.results ++ [.item (st.counter + 1)] }

/-- the iteration that receives the release marker leaves the loop by `break` -/
def ReleaseSpec (env : Env) (B ln : Nat) (body : List Stmt) : Prop :=
  ∀ (st : St) (rest : List Input), st.inputs = .release :: rest → Quiet st →
    (execBlock env B { st with rtrace := ln :: st.rtrace } body).2 = .broke ∧
    (execBlock env B { st with rtrace := ln :: st.rtrace } body).1 =
      { st with rtrace := (execBlock env B { st with rtrace := ln :: st.rtrace } body).1.rtrace, inputs := rest,
                extraNone := true }

theorem loop_generic (env : Env) (B ln : Nat) (c : Cond) (body : List Stmt)
    (hcond : ∀ st : St, st.stop = false → evalCond st env c = true)
    (hitem : ItemSpec env B ln body) (hrel : ReleaseSpec env B ln body) :
    ∀ n : Nat, ∃ F, ∀ (st : St) (tail : List Input), st.inputs = List.replicate n .item ++ .release :: tail →
      Quiet st → loopPost st n tail (exec env F st (.whileS ln c body)) := by
  intro n
  induction n with
  | zero =>
    refine ⟨B + 1, ?_⟩
    intro st tail hi hq
    simp only [List.replicate, List.nil_append] at hi
    obtain ⟨h2, h1⟩ := hrel st tail hi hq
    have hle := lineEvent_quiet st ln hq.left hq.inflight
    generalize hr : execBlock env B { st with rtrace := ln :: st.rtrace } body = rb at h1 h2
    obtain ⟨stb, ob⟩ := rb
    simp only at h1 h2
    subst h2
    rw [while_break env ln c body st _ stb B hle (hcond _ hq.stop) hr]
    refine ⟨rfl, ?_⟩
    simp only [itemsFrom, Nat.add_zero, List.append_nil]
    exact h1
  | succ n ih =>
    obtain ⟨F, ih⟩ := ih
    refine ⟨max B F + 1, ?_⟩
    intro st tail hi hq
    simp only [List.replicate, List.cons_append] at hi
    obtain ⟨h2, h1⟩ := hitem st _ hi hq
    have hle := lineEvent_quiet st ln hq.left hq.inflight
    generalize hr : execBlock env B { st with rtrace := ln :: st.rtrace } body = rb at h1 h2
    obtain ⟨stb, ob⟩ := rb
    simp only at h1 h2
    subst h2
    generalize stb.rtrace = X at h1
    subst h1
    have hpost := ih { st with rtrace := X, inputs := (List.replicate n Input.item ++ Input.release :: tail), extraNone := false, counter := st.counter + 1, results := st.results ++ [Msg.item (st.counter + 1)] } tail rfl ⟨hq.left, hq.inflight, hq.stop⟩
    rw [while_step env ln c body st _ _ B F _ hle (hcond _ hq.stop) hr rfl (by rw [hpost.1]; simp)]
    refine ⟨hpost.1, ?_⟩
    rw [hpost.2]
    simp [itemsFrom, Nat.add_assoc, Nat.add_comm 1 n]

theorem exec_line (env : Env) (f : Nat) (st : St) (ln : Nat) (acts : List Act) :
    exec env (f + 1) st (.line ln acts) =
      match lineEvent st ln with
      | (st, some o) => (st, o)
      | (st, none) => doActs env st acts := by simp only [exec]; rfl
theorem exec_ret (env : Env) (f : Nat) (st : St) (ln : Nat) (acts : List Act) :
    exec env (f + 1) st (.ret ln acts) =
      match lineEvent st ln with
      | (st, some o) => (st, o)
      | (st, none) =>
        match doActs env st acts with
        | (st, .normal) => (st, .returned)
        | r => r := by simp only [exec]; rfl
theorem exec_brk (env : Env) (f : Nat) (st : St) (ln : Nat) :
    exec env (f + 1) st (.brk ln) =
      match lineEvent st ln with
      | (st, some o) => (st, o)
      | (st, none) => (st, .broke) := by simp only [exec]; rfl
theorem exec_call (env : Env) (f : Nat) (st : St) (ln : Nat) (body : List Stmt) (after : List Act) :
    exec env (f + 1) st (.call ln body after) =
      match lineEvent st ln with
      | (st, some o) => (st, o)
      | (st, none) =>
        match execBlock env f st body with
        | (st, .normal) => doActs env st after
        | (st, .returned) => doActs env st after
        | r => r := by simp only [exec]; rfl
theorem exec_ifS (env : Env) (f : Nat) (st : St) (ln : Nat) (c : Cond) (thn els : List Stmt) :
    exec env (f + 1) st (.ifS ln c thn els) =
      match lineEvent st ln with
      | (st, some o) => (st, o)
      | (st, none) => if evalCond st env c then execBlock env f st thn else execBlock env f st els := by
  simp only [exec]; rfl
theorem exec_tryS (env : Env) (f : Nat) (st : St) (ln : Nat) (body : List Stmt) (hs : List (Catch × Nat × List Stmt)) (fin : List Stmt) :
    exec env (f + 1) st (.tryS ln body hs fin) =
      match lineEvent st ln with
      | (st, some o) => (st, o)
      | (st, none) =>
        let (st, o) := execBlock env f st body
        let (st, o) :=
          match o with
          | .raised e => execHandlers env f st e hs
          | _ => (st, o)
        match o with
        | .killed => (st, o)
        | .stuck => (st, o)
        | .fuel => (st, o)
        | _ =>
          match execBlock env f st fin with
          | (st, .normal) => (st, o)
          | r => r := by simp only [exec]; rfl

def loopTr (env : Env) (F : Nat) (st : St) (W : Stmt) : List Nat := (exec env F st W).1.rtrace

theorem loop_rule (env : Env) (W : Stmt) (n F : Nat)
    (hF : ∀ (st : St) (tail : List Input), st.inputs = List.replicate n .item ++ .release :: tail →
      Quiet st → loopPost st n tail (exec env F st W)) :
    ∀ (k : Nat) (st : St), st.inputs = List.replicate n .item ++ [.release] → st.left = none → st.inflight = none →
      st.stop = false →
      exec env (F + k) st W = ({ st with rtrace := loopTr env F st W, inputs := [], extraNone := true,
                                         counter := st.counter + n, results := st.results ++ itemsFrom st.counter n }, .normal) := by
  intro k st hi hl hf hs
  obtain ⟨h2, h1⟩ := hF st [] hi ⟨hl, hf, hs⟩
  have : exec env F st W = ({ st with rtrace := loopTr env F st W, inputs := [], extraNone := true,
                                         counter := st.counter + n, results := st.results ++ itemsFrom st.counter n }, .normal) := by
    apply Prod.ext
    · exact h1
    · exact h2
  exact exec_mono env this (by simp) _ (Nat.le_add_right _ _)


end PwVerif.Py
