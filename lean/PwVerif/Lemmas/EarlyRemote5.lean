import PwVerif.Lemmas.LoopRemote
import PwVerif.Props.C05Generated
/-!
(written by `tools/gen_loopk.py` from one template; part 5 of 12 of the landing points before the loop)

The whole regenerated `premoteRun` program on `n` items and the release marker with one asynchronous event after `K` line
events, `K` smaller than the number `premoteP` of line events before the loop and `K % 12 = 5`: one symbolic evaluation
of the program per landing point. A request that nobody can deliver yet is lost, and the run is the undisturbed one
(loop summarised by `C05.premote_loop`).
-/
namespace PwVerif.LoopK
open PwVerif.Py PwVerif.Gen

set_option maxRecDepth 8000 in
set_option maxHeartbeats 4000000 in
theorem premote_early_5 (env : Env) (he : Returns env) (hc : C05.Returns env) (a : Async) (ha : premoteCov a) (n : Nat) :
    ∀ K, K < premoteP → K % 12 = 5 →
      ∃ F, StreamShape n (execBlock env F { inputs := List.replicate n .item ++ [.release], left := some K, async := a } premoteRun) := by
  obtain ⟨F, hF⟩ := C05.premote_loop env hc n
  have hW : C05.premoteW = .whileS _ _ _ := rfl
  have hrule := loop_rule env C05.premoteW n F hF
  rw [hW] at hrule
  unfold premoteP
  rcases ha with rfl | rfl | rfl
  all_goals
    repeat' (first | exact forall_lt_zero' | refine forall_lt_succ' ?_ ?_)
  all_goals
    first
    | (intro h; exact absurd h (by decide))
    | (intro _
       refine ⟨F + 90, ?_⟩
       simp [premoteRun, exec_line, exec_ret, exec_brk, exec_call, exec_ifS, exec_tryS, execBlock, execHandlers, lineEvent, doActs, doAct,
         evalCond, Catch.catches, hrule, he.ret, he.tn, he.na]
       first
         | exact ⟨by simp, 0, Nat.zero_le _, Or.inl rfl⟩
         | exact ⟨by simp, 0, Nat.zero_le _, Or.inr ⟨_, rfl⟩⟩
         | exact ⟨by simp, n, Nat.le_refl _, Or.inr ⟨_, rfl⟩⟩
         | exact ⟨by simp, n, Nat.le_refl _, Or.inl rfl⟩)

end PwVerif.LoopK
