import PwVerif.Lemmas.PyLoopD
import PwVerif.Lemmas.EvalNat
import PwVerif.Gen.RunLoops
/-!
(written by `tools/gen_loopk.py` from one template for the three persistent kinds)

The loop of the regenerated `pthreadRun` program under one asynchronous event (`terminate()` raising in the working thread, or a kill) at an arbitrary landing point,
any number of items: the hypotheses of `loop_disturbed` (`Lemmas/PyLoopD.lean`) are discharged by symbolic evaluation
of the generated loop body - one evaluation per landing point inside a pass. The numbers of line events of a pass
are computed from the generated program (`eval_nat%`, then proved by the kernel); no line number is quoted.
-/
namespace PwVerif.LoopK
open PwVerif.Py PwVerif.Gen

def pthreadW : Stmt := (firstWhileL pthreadRun).getD (.brk 0)
def pthreadL : Nat := eval_nat% (passLen (bodyOf pthreadW) .item)
def pthreadLr : Nat := eval_nat% (passLen (bodyOf pthreadW) .release)
theorem pthreadL_eq : pthreadL = passLen (bodyOf pthreadW) .item := by decide +kernel
theorem pthreadLr_eq : pthreadLr = passLen (bodyOf pthreadW) .release := by decide +kernel
/-- the events covered for this kind -/
def pthreadCov (a : Async) : Prop := a = .raiseWte false ∨ a = .kill
/-- what has to hold at the head of the loop -/
abbrev pthreadExtra (st : St) : Prop := True

set_option maxRecDepth 8000 in
theorem pthread_item (env : Env) (he : Returns env) : ItemSpecC env 40 (lnOf pthreadW) (bodyOf pthreadW) pthreadL := by
  intro st rest m hi hf hs
  simp [pthreadL, lnOf, bodyOf, pthreadW, firstWhileL, firstWhile, pthreadRun, Option.orElse, exec, execBlock, execHandlers, lineEvent, doActs, doAct,
    evalCond, Catch.catches, hi, hf, hs, he.ret, he.tn, he.na]

set_option maxRecDepth 8000 in
theorem pthread_rel (env : Env) (he : Returns env) : RelSpecC env 40 (lnOf pthreadW) (bodyOf pthreadW) pthreadLr := by
  intro st rest m hi hf hs
  simp [pthreadLr, lnOf, bodyOf, pthreadW, firstWhileL, firstWhile, pthreadRun, Option.orElse, exec, execBlock, execHandlers, lineEvent, doActs, doAct,
    evalCond, Catch.catches, hi, hf, hs, he.ret, he.tn, he.na]

set_option maxRecDepth 8000 in
set_option maxHeartbeats 1000000 in
theorem pthread_fire_item (env : Env) (he : Returns env) (a : Async) (ha : pthreadCov a) :
    FireItem env 40 (.whileS (lnOf pthreadW) (condOf pthreadW) (bodyOf pthreadW)) a pthreadL pthreadExtra := by
  intro st rest K hK hi hl hq hx
  have h1 := hq.inflight; have h2 := hq.stop; have h3 := hq.async
  unfold pthreadL at hK
  unfold pthreadExtra at hx
  generalize hr : exec env 40 st (.whileS (lnOf pthreadW) (condOf pthreadW) (bodyOf pthreadW)) = r
  rcases ha with rfl | rfl
  all_goals
    repeat' (first | omega | rcases K with _ | K)
  all_goals
    (simp [lnOf, condOf, bodyOf, pthreadW, firstWhileL, firstWhile, pthreadRun, Option.orElse, exec, execBlock, execHandlers, lineEvent, doActs,
       doAct, evalCond, Catch.catches, hi, hl, h1, h2, h3, hx, he.ret, he.tn, he.na] at hr
     subst hr
     constructor <;> simp [firedOut, firedReq, firedCtrl, h1, h2, h3, hx])

set_option maxRecDepth 8000 in
set_option maxHeartbeats 1000000 in
theorem pthread_fire_rel (env : Env) (he : Returns env) (a : Async) (ha : pthreadCov a) :
    FireRel env 40 (.whileS (lnOf pthreadW) (condOf pthreadW) (bodyOf pthreadW)) a pthreadLr pthreadExtra := by
  intro st rest K hK hi hl hq hx
  have h1 := hq.inflight; have h2 := hq.stop; have h3 := hq.async
  unfold pthreadLr at hK
  unfold pthreadExtra at hx
  generalize hr : exec env 40 st (.whileS (lnOf pthreadW) (condOf pthreadW) (bodyOf pthreadW)) = r
  rcases ha with rfl | rfl
  all_goals
    repeat' (first | omega | rcases K with _ | K)
  all_goals
    (simp [lnOf, condOf, bodyOf, pthreadW, firstWhileL, firstWhile, pthreadRun, Option.orElse, exec, execBlock, execHandlers, lineEvent, doActs,
       doAct, evalCond, Catch.catches, hi, hl, h1, h2, h3, hx, he.ret, he.tn, he.na] at hr
     subst hr
     refine ⟨?_, by simp⟩
     constructor <;> simp [firedOut, firedReq, firedCtrl, h1, h2, h3, hx])

/-- **the loop of the regenerated program under one event, any number of items, any landing point** -/
theorem pthread_loop_disturbed (env : Env) (he : Returns env) (a : Async) (ha : pthreadCov a) :
    ∀ n : Nat, ∃ F, 40 ≤ F ∧ ∀ (st : St) (K : Nat), st.inputs = List.replicate n .item ++ [.release] → st.left = some K →
      QuietC a st → pthreadExtra st → LoopOut a n pthreadL pthreadLr K st (exec env F st pthreadW) := by
  have hW : pthreadW = .whileS (lnOf pthreadW) (condOf pthreadW) (bodyOf pthreadW) := rfl
  rw [hW]
  apply loop_disturbed env 40 _ _ _ a pthreadL pthreadLr pthreadExtra
  · intro st hs; simp [condOf, pthreadW, firstWhileL, firstWhile, pthreadRun, Option.orElse, evalCond, hs]
  · exact pthread_item env he
  · exact pthread_rel env he
  · exact pthread_fire_item env he a ha
  · exact pthread_fire_rel env he a ha
  · intro st t l i e cn rs h; exact h

/-- line events of the program before the loop is reached / after it was left (run on the release marker alone) -/
def pthreadP : Nat := eval_nat% ((lineTrace pthreadRun {} [.release]).idxOf (lnOf pthreadW))
def pthreadS : Nat := eval_nat% ((lineTrace pthreadRun {} [.release]).length - (lineTrace pthreadRun {} [.release]).idxOf (lnOf pthreadW) - (passLen (bodyOf pthreadW) .release + 1))
theorem pthreadP_eq : pthreadP = (lineTrace pthreadRun {} [.release]).idxOf (lnOf pthreadW) := by decide +kernel
theorem pthreadS_eq : pthreadS = (lineTrace pthreadRun {} [.release]).length - (lineTrace pthreadRun {} [.release]).idxOf (lnOf pthreadW) - (passLen (bodyOf pthreadW) .release + 1) := by
  decide +kernel

end PwVerif.LoopK
