import PwVerif.Lemmas.EarlyThread0
/-!
(written by `tools/gen_loopk.py` from one template for the three persistent kinds)

The whole regenerated `pthreadRun` program on `n` items and the release marker with one asynchronous event
(`terminate()` raising in the working thread, or a kill) after `K` line events, for **every** `n` and **every** `K`:

* `pthread_early_*` (`Lemmas/EarlyThread*.lean`): the event lands before the loop is reached,
* `pthread_late_fired`: the statements before the loop go by (`K = m + P`), the loop is left by the event
  (`loop_fire_rule`: the exit state is known but for the number `j ≤ n` of results written, `loop_fire_prefix`), the
  statements after the loop - handlers, `finally` blocks - are evaluated symbolically on that exit state,
* `pthread_late_passed`: the loop is passed completely (`loop_pass_rule`) and the event lands in the statements after it
  (one evaluation per landing point) or after the end of the run.
-/
namespace PwVerif.LoopK
open PwVerif.Py PwVerif.Gen

theorem pthread_early (env : Env) (he : Returns env) (hc : C05.Returns env) (a : Async) (ha : pthreadCov a) (n K : Nat) (hK : K < pthreadP) :
    ∃ F, StreamShape n (execBlock env F { inputs := List.replicate n .item ++ [.release], left := some K, async := a } pthreadRun) := by
  have hlt : K % 1 < 1 := Nat.mod_lt _ (by decide)
  by_cases h0 : K % 1 = 0
  · exact pthread_early_0 env he hc a ha n K hK h0
  omega

set_option maxRecDepth 8000 in
set_option maxHeartbeats 4000000 in
/-- a graceful stop that lands inside the loop - in any pass, at any line - still ends the stream with exactly one end marker -/
theorem pthread_late_fired_graceful (env : Env) (he : Returns env) (a : Async) (ha : pthreadCov a) (hk : a ≠ .kill) (n m : Nat)
    (hm : m < loopLen n pthreadL pthreadLr) :
    ∃ F, StreamEnds n (execBlock env F { inputs := List.replicate n .item ++ [.release], left := some (m + pthreadP), async := a } pthreadRun) := by
  obtain ⟨F, hF40, hF⟩ := pthread_loop_disturbed env he a ha n
  have hW : pthreadW = .whileS _ _ _ := rfl
  have hrule := loop_fire_rule env a n pthreadL pthreadLr F pthreadW pthreadExtra hF
  have hpre := loop_fire_prefix env a n pthreadL pthreadLr F pthreadW pthreadExtra hF
  rw [hW] at hrule hpre
  have hp : ∀ (g st : St), loopEx env F st (.whileS (lnOf pthreadW) (condOf pthreadW) (bodyOf pthreadW)) = g →
      st.inputs = List.replicate n .item ++ [.release] → st.left = some m → QuietC a st → pthreadExtra st →
      ∃ j, j ≤ n ∧ g.results = st.results ++ itemsFrom st.counter j := by
    intro g st h hi hl hq hx; rw [← h]; exact hpre st m hi hl hm hq hx
  clear hpre hF
  refine ⟨F + 90, ?_⟩
  unfold pthreadP
  rcases ha with rfl | rfl
  all_goals
    first
    | exact absurd rfl hk
    | (simp [pthreadRun, pthreadExtra, firedOut, firedReq, firedCtrl, exec_line, exec_ret, exec_brk, exec_call, exec_ifS, exec_tryS, execBlock, execHandlers,
         lineEvent, doActs, doAct, evalCond, Catch.catches, hrule, hm, he.ret, he.tn, he.na]
       generalize hg : loopEx env F _ _ = g
       obtain ⟨j, hj, hres⟩ := hp _ _ hg rfl rfl ⟨rfl, rfl, rfl⟩ (by unfold pthreadExtra; first | rfl | trivial)
       simp only [List.nil_append] at hres
       exact ⟨by simp, j, hj, _, by rw [hres]⟩)

set_option maxRecDepth 8000 in
set_option maxHeartbeats 4000000 in
theorem pthread_late_fired_kill (env : Env) (he : Returns env) (n m : Nat) (hm : m < loopLen n pthreadL pthreadLr) :
    ∃ F, StreamShape n (execBlock env F { inputs := List.replicate n .item ++ [.release], left := some (m + pthreadP), async := .kill } pthreadRun) := by
  obtain ⟨F, hF40, hF⟩ := pthread_loop_disturbed env he .kill (by simp [pthreadCov]) n
  have hW : pthreadW = .whileS _ _ _ := rfl
  have hrule := loop_fire_rule env .kill n pthreadL pthreadLr F pthreadW pthreadExtra hF
  have hpre := loop_fire_prefix env .kill n pthreadL pthreadLr F pthreadW pthreadExtra hF
  rw [hW] at hrule hpre
  have hp : ∀ (g st : St), loopEx env F st (.whileS (lnOf pthreadW) (condOf pthreadW) (bodyOf pthreadW)) = g →
      st.inputs = List.replicate n .item ++ [.release] → st.left = some m → QuietC .kill st → pthreadExtra st →
      ∃ j, j ≤ n ∧ g.results = st.results ++ itemsFrom st.counter j := by
    intro g st h hi hl hq hx; rw [← h]; exact hpre st m hi hl hm hq hx
  clear hpre hF
  refine ⟨F + 90, ?_⟩
  unfold pthreadP
  simp [pthreadRun, pthreadExtra, firedOut, firedReq, firedCtrl, exec_line, exec_ret, exec_brk, exec_call, exec_ifS, exec_tryS, execBlock, execHandlers,
    lineEvent, doActs, doAct, evalCond, Catch.catches, hrule, hm, he.ret, he.tn, he.na]
  generalize hg : loopEx env F _ _ = g
  obtain ⟨j, hj, hres⟩ := hp _ _ hg rfl rfl ⟨rfl, rfl, rfl⟩ (by unfold pthreadExtra; first | rfl | trivial)
  simp only [List.nil_append] at hres
  first
    | exact ⟨by simp, j, hj, Or.inl hres⟩
    | exact ⟨by simp, j, hj, Or.inr ⟨_, by rw [hres]⟩⟩

theorem pthread_late_fired (env : Env) (he : Returns env) (a : Async) (ha : pthreadCov a) (n m : Nat) (hm : m < loopLen n pthreadL pthreadLr) :
    ∃ F, StreamShape n (execBlock env F { inputs := List.replicate n .item ++ [.release], left := some (m + pthreadP), async := a } pthreadRun) := by
  by_cases hk : a = .kill
  · subst hk; exact pthread_late_fired_kill env he n m hm
  · obtain ⟨F, h⟩ := pthread_late_fired_graceful env he a ha hk n m hm
    exact ⟨F, h.shape⟩

/-- a graceful stop landing inside the loop, for every fuel from some point on -/
theorem pthread_ends_in_loop (env : Env) (he : Returns env) (a : Async) (ha : pthreadCov a) (hk : a ≠ .kill) (n K : Nat)
    (h1 : pthreadP ≤ K) (h2 : K < pthreadP + loopLen n pthreadL pthreadLr) :
    ∃ F0, ∀ F, F0 ≤ F →
      StreamEnds n (execBlock env F { inputs := List.replicate n .item ++ [.release], left := some K, async := a } pthreadRun) := by
  obtain ⟨m, rfl⟩ : ∃ m, K = m + pthreadP := ⟨K - pthreadP, by omega⟩
  obtain ⟨F, h⟩ := pthread_late_fired_graceful env he a ha hk n m (by omega)
  exact ⟨F, streamEnds_mono env _ _ n F h⟩

set_option maxRecDepth 8000 in
set_option maxHeartbeats 4000000 in
theorem pthread_late_passed (env : Env) (he : Returns env) (a : Async) (ha : pthreadCov a) (n m2 : Nat) :
    ∃ F, StreamShape n (execBlock env F { inputs := List.replicate n .item ++ [.release], left := some (m2 + loopLen n pthreadL pthreadLr + pthreadP), async := a } pthreadRun) := by
  obtain ⟨F, hF40, hF⟩ := pthread_loop_disturbed env he a ha n
  have hW : pthreadW = .whileS _ _ _ := rfl
  have hrule := loop_pass_rule env a n pthreadL pthreadLr F pthreadW pthreadExtra hF
  rw [hW] at hrule
  refine ⟨F + 90, ?_⟩
  unfold pthreadP
  generalize loopLen n pthreadL pthreadLr = C at hrule
  clear hF
  rcases ha with rfl | rfl
  all_goals
    -- the statements before the loop and the loop go by; what is left is the decision tree of the statements after the
    -- loop over the line events `m2` still to go
    (simp [pthreadRun, pthreadExtra, exec_line, exec_ret, exec_brk, exec_call, exec_ifS, exec_tryS, execBlock, execHandlers, lineEvent, doActs, doAct,
       evalCond, Catch.catches, hrule, he.ret, he.tn, he.na]
     clear hrule
     by_cases hm2 : m2 < pthreadS
     · revert m2
       unfold pthreadS
       repeat' (first | exact forall_lt_zero' | refine forall_lt_succ' ?_ ?_)
       all_goals
         (simp
          first
            | exact ⟨by simp, n, Nat.le_refl _, Or.inr ⟨_, rfl⟩⟩
            | exact ⟨by simp, n, Nat.le_refl _, Or.inl rfl⟩)
     · obtain ⟨m3, rfl⟩ : ∃ m3, m2 = m3 + pthreadS := ⟨m2 - pthreadS, by omega⟩
       unfold pthreadS
       simp
       exact ⟨by simp, n, Nat.le_refl _, Or.inr ⟨_, rfl⟩⟩)


/-- **the whole regenerated program, any number of items, any landing point of the event** -/
theorem pthread_whole (env : Env) (he : Returns env) (hc : C05.Returns env) (a : Async) (ha : pthreadCov a) (n K : Nat) :
    ∃ F0, ∀ F, F0 ≤ F →
      StreamShape n (execBlock env F { inputs := List.replicate n .item ++ [.release], left := some K, async := a } pthreadRun) := by
  by_cases hK : K < pthreadP
  · obtain ⟨F, h⟩ := pthread_early env he hc a ha n K hK
    exact ⟨F, streamShape_mono env _ _ n F h⟩
  · obtain ⟨m, rfl⟩ : ∃ m, K = m + pthreadP := ⟨K - pthreadP, by omega⟩
    by_cases hm : m < loopLen n pthreadL pthreadLr
    · obtain ⟨F, h⟩ := pthread_late_fired env he a ha n m hm
      exact ⟨F, streamShape_mono env _ _ n F h⟩
    · obtain ⟨m2, rfl⟩ : ∃ m2, m = m2 + loopLen n pthreadL pthreadLr := ⟨m - loopLen n pthreadL pthreadLr, by omega⟩
      obtain ⟨F, h⟩ := pthread_late_passed env he a ha n m2
      exact ⟨F, streamShape_mono env _ _ n F h⟩


end PwVerif.LoopK
