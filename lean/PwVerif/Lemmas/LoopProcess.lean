import PwVerif.Lemmas.PyLoopD
import PwVerif.Lemmas.EvalNat
import PwVerif.Gen.RunLoops
/-!
(written by `tools/gen_loopk.py` from one template for the three persistent kinds)

The loop of the regenerated `pprocessRun` program under one asynchronous event (`terminate()` delivered by either mechanism, or a kill) at an arbitrary landing point,
any number of items: the hypotheses of `loop_disturbed` (`Lemmas/PyLoopD.lean`) are discharged by symbolic evaluation
of the generated loop body - one evaluation per landing point inside a pass. The numbers of line events of a pass
are computed from the generated program (`eval_nat%`, then proved by the kernel); no line number is quoted.
-/
namespace PwVerif.LoopK
open PwVerif.Py PwVerif.Gen

def pprocessW : Stmt := (firstWhileL pprocessRun).getD (.brk 0)
def pprocessL : Nat := eval_nat% (passLen (bodyOf pprocessW) .item)
def pprocessLr : Nat := eval_nat% (passLen (bodyOf pprocessW) .release)
theorem pprocessL_eq : pprocessL = passLen (bodyOf pprocessW) .item := by decide +kernel
theorem pprocessLr_eq : pprocessLr = passLen (bodyOf pprocessW) .release := by decide +kernel
/-- the events covered for this kind -/
def pprocessCov (a : Async) : Prop := a = .raiseWte false ∨ a = .kill ∨ a = .raiseWte true
/-- what has to hold at the head of the loop -/
abbrev pprocessExtra (st : St) : Prop := st.ctrlAlive = true

set_option maxRecDepth 8000 in
theorem pprocess_item (env : Env) (he : Returns env) : ItemSpecC env 40 (lnOf pprocessW) (bodyOf pprocessW) pprocessL := by
  intro st rest m hi hf hs
  simp [pprocessL, lnOf, bodyOf, pprocessW, firstWhileL, firstWhile, pprocessRun, Option.orElse, exec, execBlock, execHandlers, lineEvent, doActs, doAct,
    evalCond, Catch.catches, hi, hf, hs, he.ret, he.tn, he.na]

set_option maxRecDepth 8000 in
theorem pprocess_rel (env : Env) (he : Returns env) : RelSpecC env 40 (lnOf pprocessW) (bodyOf pprocessW) pprocessLr := by
  intro st rest m hi hf hs
  simp [pprocessLr, lnOf, bodyOf, pprocessW, firstWhileL, firstWhile, pprocessRun, Option.orElse, exec, execBlock, execHandlers, lineEvent, doActs, doAct,
    evalCond, Catch.catches, hi, hf, hs, he.ret, he.tn, he.na]

set_option maxRecDepth 8000 in
set_option maxHeartbeats 1000000 in
theorem pprocess_fire_item (env : Env) (he : Returns env) (a : Async) (ha : pprocessCov a) :
    FireItem env 40 (.whileS (lnOf pprocessW) (condOf pprocessW) (bodyOf pprocessW)) a pprocessL pprocessExtra := by
  intro st rest K hK hi hl hq hx
  have h1 := hq.inflight; have h2 := hq.stop; have h3 := hq.async
  unfold pprocessL at hK
  unfold pprocessExtra at hx
  generalize hr : exec env 40 st (.whileS (lnOf pprocessW) (condOf pprocessW) (bodyOf pprocessW)) = r
  rcases ha with rfl | rfl | rfl
  all_goals
    repeat' (first | omega | rcases K with _ | K)
  all_goals
    (simp [lnOf, condOf, bodyOf, pprocessW, firstWhileL, firstWhile, pprocessRun, Option.orElse, exec, execBlock, execHandlers, lineEvent, doActs,
       doAct, evalCond, Catch.catches, hi, hl, h1, h2, h3, hx, he.ret, he.tn, he.na] at hr
     subst hr
     constructor <;> simp [firedOut, firedReq, firedCtrl, h1, h2, h3, hx])

set_option maxRecDepth 8000 in
set_option maxHeartbeats 1000000 in
theorem pprocess_fire_rel (env : Env) (he : Returns env) (a : Async) (ha : pprocessCov a) :
    FireRel env 40 (.whileS (lnOf pprocessW) (condOf pprocessW) (bodyOf pprocessW)) a pprocessLr pprocessExtra := by
  intro st rest K hK hi hl hq hx
  have h1 := hq.inflight; have h2 := hq.stop; have h3 := hq.async
  unfold pprocessLr at hK
  unfold pprocessExtra at hx
  generalize hr : exec env 40 st (.whileS (lnOf pprocessW) (condOf pprocessW) (bodyOf pprocessW)) = r
  rcases ha with rfl | rfl | rfl
  all_goals
    repeat' (first | omega | rcases K with _ | K)
  all_goals
    (simp [lnOf, condOf, bodyOf, pprocessW, firstWhileL, firstWhile, pprocessRun, Option.orElse, exec, execBlock, execHandlers, lineEvent, doActs,
       doAct, evalCond, Catch.catches, hi, hl, h1, h2, h3, hx, he.ret, he.tn, he.na] at hr
     subst hr
     refine ⟨?_, by simp⟩
     constructor <;> simp [firedOut, firedReq, firedCtrl, h1, h2, h3, hx])

/-- **the loop of the regenerated program under one event, any number of items, any landing point** -/
theorem pprocess_loop_disturbed (env : Env) (he : Returns env) (a : Async) (ha : pprocessCov a) :
    ∀ n : Nat, ∃ F, 40 ≤ F ∧ ∀ (st : St) (K : Nat), st.inputs = List.replicate n .item ++ [.release] → st.left = some K →
      QuietC a st → pprocessExtra st → LoopOut a n pprocessL pprocessLr K st (exec env F st pprocessW) := by
  have hW : pprocessW = .whileS (lnOf pprocessW) (condOf pprocessW) (bodyOf pprocessW) := rfl
  rw [hW]
  apply loop_disturbed env 40 _ _ _ a pprocessL pprocessLr pprocessExtra
  · intro st hs; simp [condOf, pprocessW, firstWhileL, firstWhile, pprocessRun, Option.orElse, evalCond, hs]
  · exact pprocess_item env he
  · exact pprocess_rel env he
  · exact pprocess_fire_item env he a ha
  · exact pprocess_fire_rel env he a ha
  · intro st t l i e cn rs h; exact h

/-- line events of the program before the loop is reached / after it was left (run on the release marker alone) -/
def pprocessP : Nat := eval_nat% ((lineTrace pprocessRun {} [.release]).idxOf (lnOf pprocessW))
def pprocessS : Nat := eval_nat% ((lineTrace pprocessRun {} [.release]).length - (lineTrace pprocessRun {} [.release]).idxOf (lnOf pprocessW) - (passLen (bodyOf pprocessW) .release + 1))
theorem pprocessP_eq : pprocessP = (lineTrace pprocessRun {} [.release]).idxOf (lnOf pprocessW) := by decide +kernel
theorem pprocessS_eq : pprocessS = (lineTrace pprocessRun {} [.release]).length - (lineTrace pprocessRun {} [.release]).idxOf (lnOf pprocessW) - (passLen (bodyOf pprocessW) .release + 1) := by
  decide +kernel

end PwVerif.LoopK
