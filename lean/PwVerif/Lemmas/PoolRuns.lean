import PwVerif.Lemmas.PoolK
/-!
Consecutive runs on one pool: after a run that returned normally, re-entering `run()` with the bookkeeping
re-initialised re-establishes both invariants, so everything proved about one run holds for every later run.
-/
namespace PwVerif.Pool

theorem ppw_nil_of_len_zero (l : List Worker) (h : (l.map fun x => x.ppw.length).sum = 0) : ∀ x ∈ l, x.ppw = [] := by
  induction l with
  | nil => intro x hx; simp at hx
  | cons a as ih =>
    intro x hx
    simp only [List.map_cons, List.sum_cons] at h
    simp only [List.mem_cons] at hx
    rcases hx with rfl | hx
    · exact List.length_eq_zero_iff.mp (by omega)
    · exact ih (by omega) x hx

theorem count_zero_of_ppw_nil (l : List Worker) (i : Inp) (h : ∀ x ∈ l, x.ppw = []) : (l.map fun x => x.ppw.count i).sum = 0 := by
  induction l with
  | nil => rfl
  | cons a as ih =>
    simp only [List.map_cons, List.sum_cons]
    rw [h a (by simp), ih (fun x hx => h x (by simp [hx]))]
    simp

/-- what a normal return means for the bookkeeping -/
theorem returned_facts {s : St} {ret : List Inp} (h : outcome s = .returned ret) :
    s.err = none ∧ s.depleted = true ∧ s.pending = 0 ∧ s.retries = [] ∧ ret = s.ret := by
  unfold outcome at h
  split at h
  · cases h
  · rename_i he
    split at h
    · cases h
    · split at h
      · rename_i hexit
        simp only [Bool.and_eq_true, decide_eq_true_eq, List.isEmpty_iff] at hexit
        simp only [Outcome.returned.injEq] at h
        exact ⟨he, hexit.1.1, hexit.1.2, hexit.2, h.symm⟩
      · cases h

/-- **exactly once**, from the invariant alone -/
theorem perm_of_inv_returned {src0 : List Inp} {s : St} {ret : List Inp} (hinv : Inv src0 [] s)
    (h : outcome s = .returned ret) : ret.Perm src0 := by
  obtain ⟨_, hd, hpend, hretr, rfl⟩ := returned_facts h
  have hsrc := hinv.depl hd
  have hlen : ppwLen s = 0 := by
    have := hinv.pending
    rw [hpend] at this
    omega
  have hzero : ∀ i, ppwCount i s = 0 := fun i => count_zero_of_ppw_nil s.ws i (ppw_nil_of_len_zero s.ws hlen)
  apply List.perm_iff_count.mpr
  intro i
  have := hinv.cons i
  simp only [cnt, hsrc, hretr, hzero i, List.count_nil] at this
  omega

theorem sum_len_clear (l : List Worker) :
    ((l.map fun x => ({ x with ppw := [] } : Worker)).map fun x => x.ppw.length).sum = 0 := by
  induction l with
  | nil => rfl
  | cons a as ih => simp only [List.map_cons, List.sum_cons, List.length_nil, Nat.zero_add]; exact ih

theorem sum_count_clear (l : List Worker) (i : Inp) :
    ((l.map fun x => ({ x with ppw := [] } : Worker)).map fun x => x.ppw.count i).sum = 0 := by
  induction l with
  | nil => rfl
  | cons a as ih => simp only [List.map_cons, List.sum_cons, List.count_nil, Nat.zero_add]; exact ih

theorem mem_map_clear {l : List Worker} {y : Worker} (h : y ∈ l.map (fun x => { x with ppw := [] })) :
    ∃ x ∈ l, y = { x with ppw := [] } := by
  simp only [List.mem_map] at h
  obtain ⟨x, hx, rfl⟩ := h
  exact ⟨x, hx, rfl⟩

/-- after a normal return the re-initialised state satisfies the invariant for the new inputs -/
theorem inv_reset {src0 : List Inp} {s : St} {ret : List Inp} (hinv : Inv src0 [] s)
    (h : outcome s = .returned ret) (r : ResetCfg) (hr : r.all = true) (src : List Inp) :
    Inv src [] (resetFor r s src) := by
  obtain ⟨_, hd, hpend, hretr, _⟩ := returned_facts h
  simp only [ResetCfg.all, Bool.and_eq_true] at hr
  obtain ⟨⟨⟨⟨h1, h2⟩, h3⟩, h4⟩, h5⟩ := hr
  have hlen : ppwLen s = 0 := by
    have := hinv.pending
    rw [hpend] at this
    omega
  have hnil := ppw_nil_of_len_zero s.ws hlen
  have hws : (resetFor r s src).ws = s.ws.map (fun x => { x with ppw := [] }) := by simp [resetFor, h3]
  refine ⟨?_, ?_, ?_, ?_, by simp [resetFor]⟩
  · intro y hy
    rw [hws] at hy
    obtain ⟨x, hx, rfl⟩ := mem_map_clear hy
    have hx' := hinv.ws x hx
    refine ⟨?_, fun _ => rfl, hx'.alive_, hx'.dead_⟩
    intro hcl
    have := hx'.open_ hcl
    rw [hnil x hx] at this
    exact this
  · simp only [resetFor, h2, if_true, ppwLen, h3]
    rw [sum_len_clear]; rfl
  · intro i
    simp only [cnt, ppwCount, resetFor, h3, h4, h5, if_true, sum_count_clear, List.count_nil]
    omega
  · intro hd'
    simp [resetFor, h1] at hd'

theorem inv_nextRun {c : Cfg} (hc : Plain c) {pick : List Nat → Option Nat} (hp : PickOK pick)
    {src0 : List Inp} {s : St} {ret : List Inp} (hinv : Inv src0 [] s) (h : outcome s = .returned ret)
    (r : ResetCfg) (hr : r.all = true) (src : List Inp) (pre : List Ev) :
    Inv src [] (nextRun c pick r s src pre) := by
  unfold nextRun
  have h0 : Inv src [] (pre.foldl (step c pick) (resetFor r s src)) := by
    have key : ∀ (l : List Ev) (t : St), Inv src [] t → Inv src [] (l.foldl (step c pick) t) := by
      intro l
      induction l with
      | nil => intro t ht; exact ht
      | cons e es ih => intro t ht; exact ih _ (inv_step hc hp e ht).1
    exact key pre _ (inv_reset hinv h r hr src)
  exact (inv_firstEnqueue hc hp _ _ h0).1

theorem K_nextRun {c : Cfg} (hc : Plain c) {pick : List Nat → Option Nat} (hp : PickOK pick)
    (r : ResetCfg) (s : St) (src : List Inp) (pre : List Ev) : K (nextRun c pick r s src pre) := by
  unfold nextRun
  exact K_firstEnqueue hc hp c.extra _

end PwVerif.Pool
