import PwVerif.Model.Framing
/-! Helper lemmas for family F. -/
namespace PwVerif.Framing

theorem unbe32_be32 (n : Nat) (h : n < 4294967296) : unbe32 (be32 n) = some n := by
  simp only [be32, unbe32]
  congr 1
  omega

theorem be32_length (n : Nat) : (be32 n).length = 4 := rfl

/-- Exact read succeeds on any segmentation when enough bytes are there. -/
theorem recvExact_all :
    ∀ (fuel n : Nat) (d rest : List Byte) (cuts : List Nat) (acc : List Byte),
      d.length = n → n ≤ fuel →
      ∃ cuts', recvExact fuel n ⟨d ++ rest, cuts⟩ acc = (.got (acc ++ d), ⟨rest, cuts'⟩) := by
  intro fuel
  induction fuel with
  | zero =>
    intro n d rest cuts acc hd hn
    have : n = 0 := by omega
    subst this
    have : d = [] := List.length_eq_zero_iff.mp hd
    subst this
    exact ⟨cuts, by simp [recvExact]⟩
  | succ fuel ih =>
    intro n d rest cuts acc hd hn
    cases n with
    | zero =>
      have : d = [] := List.length_eq_zero_iff.mp hd
      subst this
      exact ⟨cuts, by simp [recvExact]⟩
    | succ n =>
      -- one recv
      cases cuts with
      | nil =>
        -- unlimited: takes all n+1 bytes
        have htake : (d ++ rest).take (n + 1) = d := by
          rw [← hd]; simp
        have hdrop : (d ++ rest).drop (n + 1) = rest := by
          rw [← hd]; simp
        have hne : d ≠ [] := by intro h; subst h; simp at hd
        obtain ⟨c', hc'⟩ := ih 0 [] rest [] (acc ++ d) rfl (Nat.zero_le _)
        refine ⟨c', ?_⟩
        simp only [recvExact, Sock.recv, htake, hdrop]
        have : d.isEmpty = false := by cases d <;> simp_all
        simp only [this, hd]
        simpa using hc'
      | cons c cs =>
        let k := min (n + 1) (c + 1)
        have hk1 : 1 ≤ k := by simp only [k]; omega
        have hkn : k ≤ n + 1 := by simp only [k]; omega
        have htake : (d ++ rest).take k = d.take k := by
          rw [List.take_append_of_le_length (by omega)]
        have hdrop : (d ++ rest).drop k = d.drop k ++ rest := by
          rw [List.drop_append_of_le_length (by omega)]
        have hlen : (d.take k).length = k := by simp; omega
        have hne : (d.take k).isEmpty = false := by
          cases h : d.take k with
          | nil => rw [h] at hlen; simp at hlen; omega
          | cons _ _ => rfl
        obtain ⟨c', hc'⟩ := ih (n + 1 - k) (d.drop k) rest cs (acc ++ d.take k)
          (by simp; omega) (by omega)
        refine ⟨c', ?_⟩
        simp only [recvExact, Sock.recv]
        show (match ((d ++ rest).take k, (⟨(d ++ rest).drop k, cs⟩ : Sock)) with
              | (chunk, s') => if chunk.isEmpty then (Exact.closed, s')
                               else recvExact fuel (n + 1 - chunk.length) s' (acc ++ chunk)) = _
        simp only [htake, hdrop, hne, hlen]
        simp only [Bool.false_eq_true, if_false]
        rw [hc']
        simp [List.append_assoc]

/-- If the stream ends before `n` bytes are there the exact read reports `closed`
    — never `spin`, never a short result. -/
theorem recvExact_short :
    ∀ (fuel n : Nat) (d : List Byte) (cuts : List Nat) (acc : List Byte),
      d.length < n → n ≤ fuel →
      ∃ s', recvExact fuel n ⟨d, cuts⟩ acc = (.closed, s') := by
  intro fuel
  induction fuel with
  | zero => intro n d cuts acc hd hn; omega
  | succ fuel ih =>
    intro n d cuts acc hd hn
    cases n with
    | zero => omega
    | succ n =>
      cases hdd : d with
      | nil =>
        cases cuts with
        | nil => exact ⟨⟨[], []⟩, by simp [recvExact, Sock.recv]⟩
        | cons c cs => exact ⟨⟨[], cs⟩, by simp [recvExact, Sock.recv]⟩
      | cons x xs =>
        subst hdd
        cases cuts with
        | nil =>
          have htake : (x :: xs).take (n + 1) = x :: xs := List.take_of_length_le (by simp at hd ⊢; omega)
          have hdrop : (x :: xs).drop (n + 1) = [] := List.drop_of_length_le (by simp at hd ⊢; omega)
          obtain ⟨s', hs'⟩ := ih (n + 1 - (x :: xs).length) [] [] (acc ++ x :: xs)
            (by simp at hd ⊢; omega) (by simp; omega)
          refine ⟨s', ?_⟩
          simp only [recvExact, Sock.recv, htake, hdrop]
          simpa using hs'
        | cons c cs =>
          let k := min (n + 1) (c + 1)
          have hk1 : 1 ≤ k := by simp only [k]; omega
          have hlen : ((x :: xs).take k).length = min k (xs.length + 1) := by simp
          have hne : ((x :: xs).take k).isEmpty = false := by
            cases h : (x :: xs).take k with
            | nil => rw [h] at hlen; simp at hlen; omega
            | cons _ _ => rfl
          obtain ⟨s', hs'⟩ := ih (n + 1 - ((x :: xs).take k).length) ((x :: xs).drop k) cs
            (acc ++ (x :: xs).take k)
            (by simp at hd ⊢; omega) (by rw [hlen]; omega)
          refine ⟨s', ?_⟩
          simp only [recvExact, Sock.recv]
          show (match ((x :: xs).take k, (⟨(x :: xs).drop k, cs⟩ : Sock)) with
                | (chunk, s') => if chunk.isEmpty then (Exact.closed, s')
                                 else recvExact fuel (n + 1 - chunk.length) s' (acc ++ chunk)) = _
          simp only [hne, Bool.false_eq_true, if_false]
          exact hs'

end PwVerif.Framing
