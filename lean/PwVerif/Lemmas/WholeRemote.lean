import PwVerif.Lemmas.EarlyRemote0
import PwVerif.Lemmas.EarlyRemote1
import PwVerif.Lemmas.EarlyRemote2
import PwVerif.Lemmas.EarlyRemote3
import PwVerif.Lemmas.EarlyRemote4
import PwVerif.Lemmas.EarlyRemote5
import PwVerif.Lemmas.EarlyRemote6
import PwVerif.Lemmas.EarlyRemote7
import PwVerif.Lemmas.EarlyRemote8
import PwVerif.Lemmas.EarlyRemote9
import PwVerif.Lemmas.EarlyRemote10
import PwVerif.Lemmas.EarlyRemote11
/-!
(written by `tools/gen_loopk.py` from one template for the three persistent kinds)

The whole regenerated `premoteRun` program on `n` items and the release marker with one asynchronous event
(`terminate()` delivered by either mechanism, or a kill) after `K` line events, for **every** `n` and **every** `K`:

* `premote_early_*` (`Lemmas/EarlyRemote*.lean`): the event lands before the loop is reached,
* `premote_late_fired`: the statements before the loop go by (`K = m + P`), the loop is left by the event
  (`loop_fire_rule`: the exit state is known but for the number `j ≤ n` of results written, `loop_fire_prefix`), the
  statements after the loop - handlers, `finally` blocks - are evaluated symbolically on that exit state,
* `premote_late_passed`: the loop is passed completely (`loop_pass_rule`) and the event lands in the statements after it
  (one evaluation per landing point) or after the end of the run.
-/
namespace PwVerif.LoopK
open PwVerif.Py PwVerif.Gen

theorem premote_early (env : Env) (he : Returns env) (hc : C05.Returns env) (a : Async) (ha : premoteCov a) (n K : Nat) (hK : K < premoteP) :
    ∃ F, StreamShape n (execBlock env F { inputs := List.replicate n .item ++ [.release], left := some K, async := a } premoteRun) := by
  have hlt : K % 12 < 12 := Nat.mod_lt _ (by decide)
  by_cases h0 : K % 12 = 0
  · exact premote_early_0 env he hc a ha n K hK h0
  by_cases h1 : K % 12 = 1
  · exact premote_early_1 env he hc a ha n K hK h1
  by_cases h2 : K % 12 = 2
  · exact premote_early_2 env he hc a ha n K hK h2
  by_cases h3 : K % 12 = 3
  · exact premote_early_3 env he hc a ha n K hK h3
  by_cases h4 : K % 12 = 4
  · exact premote_early_4 env he hc a ha n K hK h4
  by_cases h5 : K % 12 = 5
  · exact premote_early_5 env he hc a ha n K hK h5
  by_cases h6 : K % 12 = 6
  · exact premote_early_6 env he hc a ha n K hK h6
  by_cases h7 : K % 12 = 7
  · exact premote_early_7 env he hc a ha n K hK h7
  by_cases h8 : K % 12 = 8
  · exact premote_early_8 env he hc a ha n K hK h8
  by_cases h9 : K % 12 = 9
  · exact premote_early_9 env he hc a ha n K hK h9
  by_cases h10 : K % 12 = 10
  · exact premote_early_10 env he hc a ha n K hK h10
  by_cases h11 : K % 12 = 11
  · exact premote_early_11 env he hc a ha n K hK h11
  omega

set_option maxRecDepth 8000 in
set_option maxHeartbeats 4000000 in
/-- a graceful stop that lands inside the loop - in any pass, at any line - still ends the stream with exactly one end marker -/
theorem premote_late_fired_graceful (env : Env) (he : Returns env) (a : Async) (ha : premoteCov a) (hk : a ≠ .kill) (n m : Nat)
    (hm : m < loopLen n premoteL premoteLr) :
    ∃ F, StreamEnds n (execBlock env F { inputs := List.replicate n .item ++ [.release], left := some (m + premoteP), async := a } premoteRun) := by
  obtain ⟨F, hF40, hF⟩ := premote_loop_disturbed env he a ha n
  have hW : premoteW = .whileS _ _ _ := rfl
  have hrule := loop_fire_rule env a n premoteL premoteLr F premoteW premoteExtra hF
  have hpre := loop_fire_prefix env a n premoteL premoteLr F premoteW premoteExtra hF
  rw [hW] at hrule hpre
  have hp : ∀ (g st : St), loopEx env F st (.whileS (lnOf premoteW) (condOf premoteW) (bodyOf premoteW)) = g →
      st.inputs = List.replicate n .item ++ [.release] → st.left = some m → QuietC a st → premoteExtra st →
      ∃ j, j ≤ n ∧ g.results = st.results ++ itemsFrom st.counter j := by
    intro g st h hi hl hq hx; rw [← h]; exact hpre st m hi hl hm hq hx
  clear hpre hF
  refine ⟨F + 90, ?_⟩
  unfold premoteP
  rcases ha with rfl | rfl | rfl
  all_goals
    first
    | exact absurd rfl hk
    | (simp [premoteRun, premoteExtra, firedOut, firedReq, firedCtrl, exec_line, exec_ret, exec_brk, exec_call, exec_ifS, exec_tryS, execBlock, execHandlers,
         lineEvent, doActs, doAct, evalCond, Catch.catches, hrule, hm, he.ret, he.tn, he.na]
       generalize hg : loopEx env F _ _ = g
       obtain ⟨j, hj, hres⟩ := hp _ _ hg rfl rfl ⟨rfl, rfl, rfl⟩ (by unfold premoteExtra; first | rfl | trivial)
       simp only [List.nil_append] at hres
       exact ⟨by simp, j, hj, _, by rw [hres]⟩)

set_option maxRecDepth 8000 in
set_option maxHeartbeats 4000000 in
theorem premote_late_fired_kill (env : Env) (he : Returns env) (n m : Nat) (hm : m < loopLen n premoteL premoteLr) :
    ∃ F, StreamShape n (execBlock env F { inputs := List.replicate n .item ++ [.release], left := some (m + premoteP), async := .kill } premoteRun) := by
  obtain ⟨F, hF40, hF⟩ := premote_loop_disturbed env he .kill (by simp [premoteCov]) n
  have hW : premoteW = .whileS _ _ _ := rfl
  have hrule := loop_fire_rule env .kill n premoteL premoteLr F premoteW premoteExtra hF
  have hpre := loop_fire_prefix env .kill n premoteL premoteLr F premoteW premoteExtra hF
  rw [hW] at hrule hpre
  have hp : ∀ (g st : St), loopEx env F st (.whileS (lnOf premoteW) (condOf premoteW) (bodyOf premoteW)) = g →
      st.inputs = List.replicate n .item ++ [.release] → st.left = some m → QuietC .kill st → premoteExtra st →
      ∃ j, j ≤ n ∧ g.results = st.results ++ itemsFrom st.counter j := by
    intro g st h hi hl hq hx; rw [← h]; exact hpre st m hi hl hm hq hx
  clear hpre hF
  refine ⟨F + 90, ?_⟩
  unfold premoteP
  simp [premoteRun, premoteExtra, firedOut, firedReq, firedCtrl, exec_line, exec_ret, exec_brk, exec_call, exec_ifS, exec_tryS, execBlock, execHandlers,
    lineEvent, doActs, doAct, evalCond, Catch.catches, hrule, hm, he.ret, he.tn, he.na]
  generalize hg : loopEx env F _ _ = g
  obtain ⟨j, hj, hres⟩ := hp _ _ hg rfl rfl ⟨rfl, rfl, rfl⟩ (by unfold premoteExtra; first | rfl | trivial)
  simp only [List.nil_append] at hres
  first
    | exact ⟨by simp, j, hj, Or.inl hres⟩
    | exact ⟨by simp, j, hj, Or.inr ⟨_, by rw [hres]⟩⟩

theorem premote_late_fired (env : Env) (he : Returns env) (a : Async) (ha : premoteCov a) (n m : Nat) (hm : m < loopLen n premoteL premoteLr) :
    ∃ F, StreamShape n (execBlock env F { inputs := List.replicate n .item ++ [.release], left := some (m + premoteP), async := a } premoteRun) := by
  by_cases hk : a = .kill
  · subst hk; exact premote_late_fired_kill env he n m hm
  · obtain ⟨F, h⟩ := premote_late_fired_graceful env he a ha hk n m hm
    exact ⟨F, h.shape⟩

/-- a graceful stop landing inside the loop, for every fuel from some point on -/
theorem premote_ends_in_loop (env : Env) (he : Returns env) (a : Async) (ha : premoteCov a) (hk : a ≠ .kill) (n K : Nat)
    (h1 : premoteP ≤ K) (h2 : K < premoteP + loopLen n premoteL premoteLr) :
    ∃ F0, ∀ F, F0 ≤ F →
      StreamEnds n (execBlock env F { inputs := List.replicate n .item ++ [.release], left := some K, async := a } premoteRun) := by
  obtain ⟨m, rfl⟩ : ∃ m, K = m + premoteP := ⟨K - premoteP, by omega⟩
  obtain ⟨F, h⟩ := premote_late_fired_graceful env he a ha hk n m (by omega)
  exact ⟨F, streamEnds_mono env _ _ n F h⟩


/-- **the whole regenerated program, any number of items, any landing point of the event up to the end of the loop**
    (partial: an event that lands in the statements after the loop is covered for two items only, by the finite tables
    `C06_generated_remote`) -/
theorem premote_whole_partial (env : Env) (he : Returns env) (hc : C05.Returns env) (a : Async) (ha : premoteCov a) (n K : Nat)
    (hlate : K < premoteP + loopLen n premoteL premoteLr) :
    ∃ F0, ∀ F, F0 ≤ F →
      StreamShape n (execBlock env F { inputs := List.replicate n .item ++ [.release], left := some K, async := a } premoteRun) := by
  by_cases hK : K < premoteP
  · obtain ⟨F, h⟩ := premote_early env he hc a ha n K hK
    exact ⟨F, streamShape_mono env _ _ n F h⟩
  · obtain ⟨m, rfl⟩ : ∃ m, K = m + premoteP := ⟨K - premoteP, by omega⟩
    obtain ⟨F, h⟩ := premote_late_fired env he a ha n m (by omega)
    exact ⟨F, streamShape_mono env _ _ n F h⟩


end PwVerif.LoopK
