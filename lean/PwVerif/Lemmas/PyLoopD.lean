import PwVerif.Lemmas.PyLoop
/-!
Loops of the statement language under **one asynchronous event at an arbitrary landing point**, for an unbounded
number of items (continuation of `Lemmas/PyLoop.lean`).

The interpreter counts line events down (`St.left`); the event fires at the line event that finds the counter at 0.
For a loop whose body satisfies

* `ItemSpecC`: a pass over an item while the counter is at least the length `L + 1` of such a pass behaves like the
  undisturbed pass and leaves the counter `L + 1` lower,
* `RelSpecC`: the same for the pass that receives the release marker (`Lr + 1` line events, leaves by `break`),
* `FireItem` / `FireRel`: a pass that starts with a counter below its length ends the loop with the event
  (`Fired`: the exception or the kill; at most one more result message, written only after the counter was bumped;
  nothing else of the state the code around the loop reads is touched),

`loop_disturbed` describes how the loop is left for **every** number `n` of items and **every** initial counter:
either it was passed completely (`n` result messages, the counter of line events still running: the event lands
behind the loop) or it was left by the event after `j` complete passes.
-/
namespace PwVerif.Py

theorem lineEvent_count (st : St) (ln k : Nat) (hl : st.left = some (k + 1)) (hf : st.inflight = none) :
    lineEvent st ln = ({ st with rtrace := ln :: st.rtrace, left := some k }, none) := by
  simp [lineEvent, hl, hf]

/-- what the event does to the two flags of the child's control thread when it fires -/
def firedReq (a : Async) (st : St) : Bool :=
  match a with
  | .raiseWte via => st.terminateReq || via
  | _ => st.terminateReq
def firedCtrl (a : Async) (st : St) : Bool :=
  match a with
  | .raiseWte via => if via then false else st.ctrlAlive
  | _ => st.ctrlAlive
def firedOut (a : Async) : Out :=
  match a with
  | .kill => .killed
  | _ => .raised .wte

/-- the loop was left by the event during the pass that started in `st` -/
structure Fired (a : Async) (st : St) (r : St × Out) : Prop where
  out : r.2 = firedOut a
  results : r.1.results = st.results ∨ r.1.results = st.results ++ [.item (st.counter + 1)]
  counter : r.1.counter = st.counter ∨ r.1.counter = st.counter + 1
  consistent : r.1.results = st.results ++ [.item (st.counter + 1)] → r.1.counter = st.counter + 1
  left : r.1.left = none
  inflight : r.1.inflight = none
  req : r.1.terminateReq = firedReq a st
  ctrl : r.1.ctrlAlive = firedCtrl a st
  -- untouched
  cur : r.1.cur = st.cur
  result : r.1.result = st.result
  var : r.1.var = st.var
  comms : r.1.comms = st.comms
  commsClosed : r.1.commsClosed = st.commsClosed
  cleaned : r.1.cleaned = st.cleaned
  stop : r.1.stop = st.stop
  async : r.1.async = st.async

structure QuietC (a : Async) (st : St) : Prop where
  inflight : st.inflight = none
  stop : st.stop = false
  async : st.async = a

def ItemSpecC (env : Env) (B ln : Nat) (body : List Stmt) (L : Nat) : Prop :=
  ∀ (st : St) (rest : List Input) (m : Nat), st.inputs = .item :: rest → st.inflight = none → st.stop = false →
    (execBlock env B { st with rtrace := ln :: st.rtrace, left := some (m + L) } body).2 = .normal ∧
    (execBlock env B { st with rtrace := ln :: st.rtrace, left := some (m + L) } body).1 =
      { st with rtrace := (execBlock env B { st with rtrace := ln :: st.rtrace, left := some (m + L) } body).1.rtrace,
                left := some m, inputs := rest, extraNone := false, counter := st.counter + 1,
                results := st.results ++ [.item (st.counter + 1)] }

def RelSpecC (env : Env) (B ln : Nat) (body : List Stmt) (Lr : Nat) : Prop :=
  ∀ (st : St) (rest : List Input) (m : Nat), st.inputs = .release :: rest → st.inflight = none → st.stop = false →
    (execBlock env B { st with rtrace := ln :: st.rtrace, left := some (m + Lr) } body).2 = .broke ∧
    (execBlock env B { st with rtrace := ln :: st.rtrace, left := some (m + Lr) } body).1 =
      { st with rtrace := (execBlock env B { st with rtrace := ln :: st.rtrace, left := some (m + Lr) } body).1.rtrace,
                left := some m, inputs := rest, extraNone := true }

/-- a pass over an item that starts with fewer line events left than it has: the event fires inside -/
def FireItem (env : Env) (B : Nat) (W : Stmt) (a : Async) (L : Nat) (extra : St → Prop) : Prop :=
  ∀ (st : St) (rest : List Input) (K : Nat), K ≤ L → st.inputs = .item :: rest → st.left = some K → QuietC a st → extra st →
    Fired a st (exec env B st W)

/-- the same for the pass that receives the release marker: no result message is written in it -/
def FireRel (env : Env) (B : Nat) (W : Stmt) (a : Async) (Lr : Nat) (extra : St → Prop) : Prop :=
  ∀ (st : St) (rest : List Input) (K : Nat), K ≤ Lr → st.inputs = .release :: rest → st.left = some K → QuietC a st → extra st →
    Fired a st (exec env B st W) ∧ (exec env B st W).1.results = st.results

/-- how the loop is left -/
inductive LoopOut (a : Async) (n : Nat) (st : St) (r : St × Out) : Prop where
  /-- every item and the release marker were processed; the event (if any) is still to come -/
  | passed (hout : r.2 = .normal)
      (heq : r.1 = { st with rtrace := r.1.rtrace, left := r.1.left, inputs := [], extraNone := true,
                             counter := st.counter + n, results := st.results ++ itemsFrom st.counter n })
      (hleft : r.1.left.isSome)
  /-- the event fired after `j` complete passes, in the pass that started with `j` results written -/
  | fired (j : Nat) (hj : j ≤ n) (mid : St)
      (hmid : mid.counter = st.counter + j ∧ mid.results = st.results ++ itemsFrom st.counter j ∧
              mid.cur = st.cur ∧ mid.result = st.result ∧ mid.var = st.var ∧ mid.comms = st.comms ∧
              mid.commsClosed = st.commsClosed ∧ mid.cleaned = st.cleaned ∧ mid.stop = st.stop ∧ mid.async = st.async ∧
              mid.terminateReq = st.terminateReq ∧ mid.ctrlAlive = st.ctrlAlive)
      (hfired : Fired a mid r)
      (hroom : r.1.results = mid.results ++ [.item (mid.counter + 1)] → j + 1 ≤ n)

theorem while_step_c (env : Env) (ln : Nat) (c : Cond) (body : List Stmt) (st stb : St) (k Fb F : Nat) (r : St × Out)
    (hl : st.left = some (k + 1)) (hf : st.inflight = none)
    (hc : evalCond { st with rtrace := ln :: st.rtrace, left := some k } env c = true)
    (hb : execBlock env Fb { st with rtrace := ln :: st.rtrace, left := some k } body = (stb, .normal))
    (hrest : exec env F stb (.whileS ln c body) = r) (hr : r.2 ≠ .fuel) :
    exec env (max Fb F + 1) st (.whileS ln c body) = r := by
  simp only [exec, lineEvent_count st ln k hl hf, hc, if_true]
  rw [execBlock_mono env hb (by simp) (max Fb F) (Nat.le_max_left _ _)]
  simp only
  exact exec_mono env hrest hr _ (Nat.le_max_right _ _)

theorem while_break_c (env : Env) (ln : Nat) (c : Cond) (body : List Stmt) (st stb : St) (k Fb : Nat)
    (hl : st.left = some (k + 1)) (hf : st.inflight = none)
    (hc : evalCond { st with rtrace := ln :: st.rtrace, left := some k } env c = true)
    (hb : execBlock env Fb { st with rtrace := ln :: st.rtrace, left := some k } body = (stb, .broke)) :
    exec env (Fb + 1) st (.whileS ln c body) = (stb, .normal) := by
  simp only [exec, lineEvent_count st ln k hl hf, hc, if_true, hb]

theorem firedOut_ne_fuel (a : Async) : firedOut a ≠ .fuel := by cases a <;> simp [firedOut]

theorem itemsFrom_snoc (c n : Nat) : [Msg.item (c + 1)] ++ itemsFrom (c + 1) n = itemsFrom c (n + 1) := rfl

/-- **the loop under one event, any number of items, any landing point.** -/
theorem loop_disturbed (env : Env) (B ln : Nat) (c : Cond) (body : List Stmt) (a : Async) (L Lr : Nat) (extra : St → Prop)
    (hcond : ∀ st : St, st.stop = false → evalCond st env c = true)
    (hitem : ItemSpecC env B ln body L) (hrel : RelSpecC env B ln body Lr)
    (hfi : FireItem env B (.whileS ln c body) a L extra)
    (hfr : FireRel env B (.whileS ln c body) a Lr extra)
    (hextra : ∀ (st : St) (t : List Nat) (l : Option Nat) (i : List Input) (e : Bool) (cn : Nat) (rs : List Msg),
      extra st → extra { st with rtrace := t, left := l, inputs := i, extraNone := e, counter := cn, results := rs }) :
    ∀ n : Nat, ∃ F, B ≤ F ∧ ∀ (st : St) (K : Nat), st.inputs = List.replicate n .item ++ [.release] → st.left = some K →
      QuietC a st → extra st → LoopOut a n st (exec env F st (.whileS ln c body)) := by
  intro n
  induction n with
  | zero =>
    refine ⟨B + 1, Nat.le_succ _, ?_⟩
    intro st K hi hl hq hx
    simp only [List.replicate, List.nil_append] at hi
    by_cases hK : K ≤ Lr
    · -- the event fires in the pass that would have received the release marker
      obtain ⟨hfire, hres⟩ := hfr st [] K hK hi hl hq hx
      have hm := exec_mono env (rfl : exec env B st (.whileS ln c body) = _) (by rw [hfire.out]; exact firedOut_ne_fuel a)
        (B + 1) (Nat.le_succ _)
      rw [hm]
      refine .fired 0 (Nat.le_refl _) st ⟨by simp, by simp [itemsFrom], rfl, rfl, rfl, rfl, rfl, rfl, rfl, rfl, rfl, rfl⟩ hfire ?_
      intro h
      rw [hres] at h
      have := congrArg List.length h
      simp at this
    · -- the whole pass goes by: the loop is left by `break`
      obtain ⟨m, rfl⟩ : ∃ m, K = m + Lr + 1 := ⟨K - Lr - 1, by omega⟩
      obtain ⟨h2, h1⟩ := hrel st [] m hi hq.inflight hq.stop
      generalize hr : execBlock env B { st with rtrace := ln :: st.rtrace, left := some (m + Lr) } body = rb at h1 h2
      obtain ⟨stb, ob⟩ := rb
      simp only at h1 h2
      subst h2
      rw [while_break_c env ln c body st stb (m + Lr) B hl hq.inflight (hcond _ hq.stop) hr]
      refine .passed rfl ?_ ?_
      · simp only [itemsFrom, Nat.add_zero, List.append_nil]
        rw [h1]
      · rw [h1]; rfl
  | succ n ih =>
    obtain ⟨F, hBF, ih⟩ := ih
    refine ⟨max B F + 1, by omega, ?_⟩
    intro st K hi hl hq hx
    simp only [List.replicate, List.cons_append] at hi
    by_cases hK : K ≤ L
    · -- the event fires in this pass
      have hfire := hfi st _ K hK hi hl hq hx
      have hm := exec_mono env (rfl : exec env B st (.whileS ln c body) = _) (by rw [hfire.out]; exact firedOut_ne_fuel a)
        (max B F + 1) (by omega)
      rw [hm]
      exact .fired 0 (Nat.zero_le _) st ⟨by simp, by simp [itemsFrom], rfl, rfl, rfl, rfl, rfl, rfl, rfl, rfl, rfl, rfl⟩ hfire
        (fun _ => by omega)
    · obtain ⟨m, rfl⟩ : ∃ m, K = m + L + 1 := ⟨K - L - 1, by omega⟩
      obtain ⟨h2, h1⟩ := hitem st _ m hi hq.inflight hq.stop
      generalize hr : execBlock env B { st with rtrace := ln :: st.rtrace, left := some (m + L) } body = rb at h1 h2
      obtain ⟨stb, ob⟩ := rb
      simp only at h1 h2
      subst h2
      generalize stb.rtrace = X at h1
      subst h1
      have hq' : QuietC a { st with rtrace := X, left := some m, inputs := List.replicate n Input.item ++ [Input.release], extraNone := false, counter := st.counter + 1, results := st.results ++ [Msg.item (st.counter + 1)] } :=
        ⟨hq.inflight, hq.stop, hq.async⟩
      have hpost := ih _ m rfl rfl hq' (hextra st _ _ _ _ _ _ hx)
      have hne : (exec env F { st with rtrace := X, left := some m, inputs := List.replicate n Input.item ++ [Input.release], extraNone := false, counter := st.counter + 1, results := st.results ++ [Msg.item (st.counter + 1)] } (.whileS ln c body)).2 ≠ .fuel := by
        cases hpost with
        | passed hout _ _ => rw [hout]; simp
        | fired j hj mid hmid hfired _ => rw [hfired.out]; exact firedOut_ne_fuel a
      rw [while_step_c env ln c body st _ (m + L) B F _ hl hq.inflight (hcond _ hq.stop) hr rfl hne]
      cases hpost with
      | passed hout heq hleft =>
        refine .passed hout ?_ hleft
        rw [heq]
        simp [itemsFrom, Nat.add_assoc, Nat.add_comm 1 n]
      | fired j hj mid hmid hfired hroom =>
        obtain ⟨m1, m2, m3, m4, m5, m6, m7, m8, m9, m10, m11, m12⟩ := hmid
        refine .fired (j + 1) (by omega) mid ⟨?_, ?_, m3, m4, m5, m6, m7, m8, m9, m10, m11, m12⟩ hfired (fun h => by have := hroom h; omega)
        · rw [m1]; simp only; omega
        · rw [m2]; simp only [List.append_assoc, itemsFrom_snoc]

end PwVerif.Py
