import PwVerif.Lemmas.PyLoop
/-!
Loops of the statement language under **one asynchronous event at an arbitrary landing point**, for an unbounded
number of items (continuation of `Lemmas/PyLoop.lean`).

The interpreter counts line events down (`St.left`); the event fires at the line event that finds the counter at 0.
For a loop whose body satisfies

* `ItemSpecC`: a pass over an item while the counter is at least the length `L + 1` of such a pass behaves like the
  undisturbed pass and leaves the counter `L + 1` lower,
* `RelSpecC`: the same for the pass that receives the release marker (`Lr + 1` line events, leaves by `break`),
* `FireItem` / `FireRel`: a pass that starts with a counter below its length ends the loop with the event
  (`Fired`: the exception or the kill; at most one more result message, written only after the counter was bumped;
  nothing else of the state the code around the loop reads is touched),

`loop_disturbed` describes how the loop is left for **every** number `n` of items and **every** initial counter:
either it was passed completely (`n` result messages, the counter of line events still running: the event lands
behind the loop) or it was left by the event after `j` complete passes.
-/
namespace PwVerif.Py

theorem lineEvent_count (st : St) (ln k : Nat) (hl : st.left = some (k + 1)) (hf : st.inflight = none) :
    lineEvent st ln = ({ st with rtrace := ln :: st.rtrace, left := some k }, none) := by
  simp [lineEvent, hl, hf]

/-- what the event does to the two flags of the child's control thread when it fires -/
def firedReq (a : Async) (st : St) : Bool :=
  match a with
  | .raiseWte via => st.terminateReq || via
  | _ => st.terminateReq
def firedCtrl (a : Async) (st : St) : Bool :=
  match a with
  | .raiseWte via => if via then false else st.ctrlAlive
  | _ => st.ctrlAlive
def firedOut (a : Async) : Out :=
  match a with
  | .kill => .killed
  | _ => .raised .wte

/-- the loop was left by the event during the pass that started in `st` -/
structure Fired (a : Async) (st : St) (r : St × Out) : Prop where
  out : r.2 = firedOut a
  results : r.1.results = st.results ∨ r.1.results = st.results ++ [.item (st.counter + 1)]
  counter : r.1.counter = st.counter ∨ r.1.counter = st.counter + 1
  consistent : r.1.results = st.results ++ [.item (st.counter + 1)] → r.1.counter = st.counter + 1
  left : r.1.left = none
  inflight : r.1.inflight = none
  req : r.1.terminateReq = firedReq a st
  ctrl : r.1.ctrlAlive = firedCtrl a st
  -- untouched
  cur : r.1.cur = st.cur
  result : r.1.result = st.result
  var : r.1.var = st.var
  comms : r.1.comms = st.comms
  commsClosed : r.1.commsClosed = st.commsClosed
  cleaned : r.1.cleaned = st.cleaned
  stop : r.1.stop = st.stop
  async : r.1.async = st.async

structure QuietC (a : Async) (st : St) : Prop where
  inflight : st.inflight = none
  stop : st.stop = false
  async : st.async = a

def ItemSpecC (env : Env) (B ln : Nat) (body : List Stmt) (L : Nat) : Prop :=
  ∀ (st : St) (rest : List Input) (m : Nat), st.inputs = .item :: rest → st.inflight = none → st.stop = false →
    (execBlock env B { st with rtrace := ln :: st.rtrace, left := some (m + L) } body).2 = .normal ∧
    (execBlock env B { st with rtrace := ln :: st.rtrace, left := some (m + L) } body).1 =
      { st with rtrace := (execBlock env B { st with rtrace := ln :: st.rtrace, left := some (m + L) } body).1.rtrace,
                left := some m, inputs := rest, extraNone := false, counter := st.counter + 1,
                results := st.results ++ [.item (st.counter + 1)] }

def RelSpecC (env : Env) (B ln : Nat) (body : List Stmt) (Lr : Nat) : Prop :=
  ∀ (st : St) (rest : List Input) (m : Nat), st.inputs = .release :: rest → st.inflight = none → st.stop = false →
    (execBlock env B { st with rtrace := ln :: st.rtrace, left := some (m + Lr) } body).2 = .broke ∧
    (execBlock env B { st with rtrace := ln :: st.rtrace, left := some (m + Lr) } body).1 =
      { st with rtrace := (execBlock env B { st with rtrace := ln :: st.rtrace, left := some (m + Lr) } body).1.rtrace,
                left := some m, inputs := rest, extraNone := true }

/-- a pass over an item that starts with fewer line events left than it has: the event fires inside -/
def FireItem (env : Env) (B : Nat) (W : Stmt) (a : Async) (L : Nat) (extra : St → Prop) : Prop :=
  ∀ (st : St) (rest : List Input) (K : Nat), K ≤ L → st.inputs = .item :: rest → st.left = some K → QuietC a st → extra st →
    Fired a st (exec env B st W)

/-- the same for the pass that receives the release marker: no result message is written in it -/
def FireRel (env : Env) (B : Nat) (W : Stmt) (a : Async) (Lr : Nat) (extra : St → Prop) : Prop :=
  ∀ (st : St) (rest : List Input) (K : Nat), K ≤ Lr → st.inputs = .release :: rest → st.left = some K → QuietC a st → extra st →
    Fired a st (exec env B st W) ∧ (exec env B st W).1.results = st.results

/-- line events of a loop that processes `n` items and then the release marker -/
def loopLen (n L Lr : Nat) : Nat := n * (L + 1) + (Lr + 1)

theorem loopLen_zero (L Lr : Nat) : loopLen 0 L Lr = Lr + 1 := by simp [loopLen]
theorem loopLen_succ (n L Lr : Nat) : loopLen (n + 1) L Lr = loopLen n L Lr + (L + 1) := by
  simp only [loopLen, Nat.succ_mul]; omega

/-- how the loop is left when it is entered with `K` line events to go before the event -/
inductive LoopOut (a : Async) (n L Lr K : Nat) (st : St) (r : St × Out) : Prop where
  /-- every item and the release marker were processed; the event is still to come -/
  | passed (hK : loopLen n L Lr ≤ K) (hout : r.2 = .normal)
      (heq : r.1 = { st with rtrace := r.1.rtrace, left := some (K - loopLen n L Lr), inputs := [], extraNone := true,
                             counter := st.counter + n, results := st.results ++ itemsFrom st.counter n })
  /-- the event fired after `j` complete passes, in the pass that started with `j` results written -/
  | fired (hK : K < loopLen n L Lr) (j : Nat) (hj : j ≤ n) (mid : St)
      (hmid : mid.counter = st.counter + j ∧ mid.results = st.results ++ itemsFrom st.counter j ∧
              mid.cur = st.cur ∧ mid.result = st.result ∧ mid.var = st.var ∧ mid.comms = st.comms ∧
              mid.commsClosed = st.commsClosed ∧ mid.cleaned = st.cleaned ∧ mid.stop = st.stop ∧ mid.async = st.async ∧
              mid.terminateReq = st.terminateReq ∧ mid.ctrlAlive = st.ctrlAlive)
      (hfired : Fired a mid r)
      (hroom : r.1.results = mid.results ++ [.item (mid.counter + 1)] → j + 1 ≤ n)

theorem while_step_c (env : Env) (ln : Nat) (c : Cond) (body : List Stmt) (st stb : St) (k Fb F : Nat) (r : St × Out)
    (hl : st.left = some (k + 1)) (hf : st.inflight = none)
    (hc : evalCond { st with rtrace := ln :: st.rtrace, left := some k } env c = true)
    (hb : execBlock env Fb { st with rtrace := ln :: st.rtrace, left := some k } body = (stb, .normal))
    (hrest : exec env F stb (.whileS ln c body) = r) (hr : r.2 ≠ .fuel) :
    exec env (max Fb F + 1) st (.whileS ln c body) = r := by
  simp only [exec, lineEvent_count st ln k hl hf, hc, if_true]
  rw [execBlock_mono env hb (by simp) (max Fb F) (Nat.le_max_left _ _)]
  simp only
  exact exec_mono env hrest hr _ (Nat.le_max_right _ _)

theorem while_break_c (env : Env) (ln : Nat) (c : Cond) (body : List Stmt) (st stb : St) (k Fb : Nat)
    (hl : st.left = some (k + 1)) (hf : st.inflight = none)
    (hc : evalCond { st with rtrace := ln :: st.rtrace, left := some k } env c = true)
    (hb : execBlock env Fb { st with rtrace := ln :: st.rtrace, left := some k } body = (stb, .broke)) :
    exec env (Fb + 1) st (.whileS ln c body) = (stb, .normal) := by
  simp only [exec, lineEvent_count st ln k hl hf, hc, if_true, hb]

theorem firedOut_ne_fuel (a : Async) : firedOut a ≠ .fuel := by cases a <;> simp [firedOut]

theorem itemsFrom_snoc (c n : Nat) : [Msg.item (c + 1)] ++ itemsFrom (c + 1) n = itemsFrom c (n + 1) := rfl

/-- **the loop under one event, any number of items, any landing point.** -/
theorem loop_disturbed (env : Env) (B ln : Nat) (c : Cond) (body : List Stmt) (a : Async) (L Lr : Nat) (extra : St → Prop)
    (hcond : ∀ st : St, st.stop = false → evalCond st env c = true)
    (hitem : ItemSpecC env B ln body L) (hrel : RelSpecC env B ln body Lr)
    (hfi : FireItem env B (.whileS ln c body) a L extra)
    (hfr : FireRel env B (.whileS ln c body) a Lr extra)
    (hextra : ∀ (st : St) (t : List Nat) (l : Option Nat) (i : List Input) (e : Bool) (cn : Nat) (rs : List Msg),
      extra st → extra { st with rtrace := t, left := l, inputs := i, extraNone := e, counter := cn, results := rs }) :
    ∀ n : Nat, ∃ F, B ≤ F ∧ ∀ (st : St) (K : Nat), st.inputs = List.replicate n .item ++ [.release] → st.left = some K →
      QuietC a st → extra st → LoopOut a n L Lr K st (exec env F st (.whileS ln c body)) := by
  intro n
  induction n with
  | zero =>
    refine ⟨B + 1, Nat.le_succ _, ?_⟩
    intro st K hi hl hq hx
    simp only [List.replicate, List.nil_append] at hi
    by_cases hK : K ≤ Lr
    · -- the event fires in the pass that would have received the release marker
      obtain ⟨hfire, hres⟩ := hfr st [] K hK hi hl hq hx
      have hm := exec_mono env (rfl : exec env B st (.whileS ln c body) = _) (by rw [hfire.out]; exact firedOut_ne_fuel a)
        (B + 1) (Nat.le_succ _)
      rw [hm]
      refine .fired (by rw [loopLen_zero]; omega) 0 (Nat.le_refl _) st
        ⟨by simp, by simp [itemsFrom], rfl, rfl, rfl, rfl, rfl, rfl, rfl, rfl, rfl, rfl⟩ hfire ?_
      intro h
      rw [hres] at h
      have := congrArg List.length h
      simp at this
    · -- the whole pass goes by: the loop is left by `break`
      obtain ⟨m, rfl⟩ : ∃ m, K = m + Lr + 1 := ⟨K - Lr - 1, by omega⟩
      obtain ⟨h2, h1⟩ := hrel st [] m hi hq.inflight hq.stop
      generalize hr : execBlock env B { st with rtrace := ln :: st.rtrace, left := some (m + Lr) } body = rb at h1 h2
      obtain ⟨stb, ob⟩ := rb
      simp only at h1 h2
      subst h2
      rw [while_break_c env ln c body st stb (m + Lr) B hl hq.inflight (hcond _ hq.stop) hr]
      have hm : m + Lr + 1 - loopLen 0 L Lr = m := by rw [loopLen_zero]; omega
      refine .passed (by rw [loopLen_zero]; omega) rfl ?_
      simp only [itemsFrom, Nat.add_zero, List.append_nil, hm]
      rw [h1]
  | succ n ih =>
    obtain ⟨F, hBF, ih⟩ := ih
    refine ⟨max B F + 1, by omega, ?_⟩
    intro st K hi hl hq hx
    simp only [List.replicate, List.cons_append] at hi
    by_cases hK : K ≤ L
    · -- the event fires in this pass
      have hfire := hfi st _ K hK hi hl hq hx
      have hm := exec_mono env (rfl : exec env B st (.whileS ln c body) = _) (by rw [hfire.out]; exact firedOut_ne_fuel a)
        (max B F + 1) (by omega)
      rw [hm]
      exact .fired (by rw [loopLen_succ]; omega) 0 (Nat.zero_le _) st
        ⟨by simp, by simp [itemsFrom], rfl, rfl, rfl, rfl, rfl, rfl, rfl, rfl, rfl, rfl⟩ hfire (fun _ => by omega)
    · obtain ⟨m, rfl⟩ : ∃ m, K = m + L + 1 := ⟨K - L - 1, by omega⟩
      obtain ⟨h2, h1⟩ := hitem st _ m hi hq.inflight hq.stop
      generalize hr : execBlock env B { st with rtrace := ln :: st.rtrace, left := some (m + L) } body = rb at h1 h2
      obtain ⟨stb, ob⟩ := rb
      simp only at h1 h2
      subst h2
      generalize stb.rtrace = X at h1
      subst h1
      have hq' : QuietC a { st with rtrace := X, left := some m, inputs := List.replicate n Input.item ++ [Input.release], extraNone := false, counter := st.counter + 1, results := st.results ++ [Msg.item (st.counter + 1)] } :=
        ⟨hq.inflight, hq.stop, hq.async⟩
      have hpost := ih _ m rfl rfl hq' (hextra st _ _ _ _ _ _ hx)
      have hne : (exec env F { st with rtrace := X, left := some m, inputs := List.replicate n Input.item ++ [Input.release], extraNone := false, counter := st.counter + 1, results := st.results ++ [Msg.item (st.counter + 1)] } (.whileS ln c body)).2 ≠ .fuel := by
        cases hpost with
        | passed _ hout _ => rw [hout]; simp
        | fired _ j hj mid hmid hfired _ => rw [hfired.out]; exact firedOut_ne_fuel a
      rw [while_step_c env ln c body st _ (m + L) B F _ hl hq.inflight (hcond _ hq.stop) hr rfl hne]
      cases hpost with
      | passed hK' hout heq =>
        have hm : m + L + 1 - loopLen (n + 1) L Lr = m - loopLen n L Lr := by rw [loopLen_succ]; omega
        refine .passed (by rw [loopLen_succ]; omega) hout ?_
        rw [heq, hm]
        simp [itemsFrom, Nat.add_assoc, Nat.add_comm 1 n]
      | fired hK' j hj mid hmid hfired hroom =>
        obtain ⟨m1, m2, m3, m4, m5, m6, m7, m8, m9, m10, m11, m12⟩ := hmid
        refine .fired (by rw [loopLen_succ]; omega) (j + 1) (by omega) mid ⟨?_, ?_, m3, m4, m5, m6, m7, m8, m9, m10, m11, m12⟩ hfired
          (fun h => by have := hroom h; omega)
        · rw [m1]; simp only; omega
        · rw [m2]; simp only [List.append_assoc, itemsFrom_snoc]

/-! ### reading a regenerated program: its loop, the lengths of a pass, what the code around the loop sees -/
/-- the environment of the theorems about the regenerated loops: the target returns, is not `None`, does not assign `user_state` -/
structure Returns (env : Env) : Prop where
  ret : env.target = .returns
  tn : env.targetNone = false
  na : env.assigns = false

def lnOf : Stmt → Nat
  | .whileS ln _ _ => ln
  | _ => 0
def condOf : Stmt → Cond
  | .whileS _ c _ => c
  | _ => .notStop
def bodyOf : Stmt → List Stmt
  | .whileS _ _ b => b
  | _ => []
/-- line events of the body during a pass that receives `i` -/
def passLen (body : List Stmt) (i : Input) : Nat := (execBlock {} 60 { inputs := [i] } body).1.rtrace.length
/-- the asynchronous events covered: `terminate()` delivered by either mechanism, or a kill -/
def Covered (a : Async) : Prop := a = .raiseWte false ∨ a = .kill ∨ a = .raiseWte true

theorem itemsFrom_succ_right (c n : Nat) : itemsFrom c (n + 1) = itemsFrom c n ++ [.item (c + n + 1)] := by
  induction n generalizing c with
  | zero => simp [itemsFrom]
  | succ n ih =>
    have h := ih (c + 1)
    simp only [itemsFrom] at h ⊢
    rw [h]
    simp [Nat.add_assoc, Nat.add_comm 1 n]

/-- the loop was left by the event: what the code around the loop can observe (the flat form of `LoopOut.fired`) -/
structure LeftBy (a : Async) (n : Nat) (st : St) (r : St × Out) : Prop where
  out : r.2 = firedOut a
  prefix_ : ∃ j, j ≤ n ∧ r.1.results = st.results ++ itemsFrom st.counter j ∧
    (r.1.counter = st.counter + j ∨ r.1.counter = st.counter + j + 1)
  left : r.1.left = none
  inflight : r.1.inflight = none
  req : r.1.terminateReq = firedReq a st
  ctrl : r.1.ctrlAlive = firedCtrl a st
  cur : r.1.cur = st.cur
  result : r.1.result = st.result
  var : r.1.var = st.var
  comms : r.1.comms = st.comms
  commsClosed : r.1.commsClosed = st.commsClosed
  cleaned : r.1.cleaned = st.cleaned
  stop : r.1.stop = st.stop
  async : r.1.async = st.async

theorem LoopOut.leftBy {a : Async} {n L Lr K : Nat} {st : St} {r : St × Out} (h : LoopOut a n L Lr K st r) (hK : K < loopLen n L Lr) :
    LeftBy a n st r := by
  cases h with
  | passed hK' _ _ => omega
  | fired _ j hj mid hmid hf hroom =>
    obtain ⟨m1, m2, m3, m4, m5, m6, m7, m8, m9, m10, m11, m12⟩ := hmid
    have hreq : firedReq a mid = firedReq a st := by cases a <;> simp [firedReq, m11]
    have hctrl : firedCtrl a mid = firedCtrl a st := by cases a <;> simp [firedCtrl, m12]
    refine ⟨hf.out, ?_, hf.left, hf.inflight, by rw [hf.req, hreq], by rw [hf.ctrl, hctrl], by rw [hf.cur, m3], by rw [hf.result, m4],
      by rw [hf.var, m5], by rw [hf.comms, m6], by rw [hf.commsClosed, m7], by rw [hf.cleaned, m8], by rw [hf.stop, m9], by rw [hf.async, m10]⟩
    rcases hf.results with h | h
    · refine ⟨j, hj, by rw [h, m2], ?_⟩
      rcases hf.counter with hc | hc
      · left; rw [hc, m1]
      · right; rw [hc, m1]
    · refine ⟨j + 1, hroom h, ?_, ?_⟩
      · rw [h, m2, m1, itemsFrom_succ_right, List.append_assoc]
      · left; rw [hf.consistent h, m1]; omega

theorem forall_lt_zero' {P : Nat → Prop} : ∀ m, m < 0 → P m := fun _ h => absurd h (Nat.not_lt_zero _)
theorem forall_lt_succ' {P : Nat → Prop} {k : Nat} (h1 : ∀ m, m < k → P m) (h2 : P k) : ∀ m, m < k + 1 → P m := by
  intro m hm
  by_cases h : m = k
  · subst h; exact h2
  · exact h1 m (by omega)

/-- what a reader of the results pipe can see after a run on `n` items: result messages with counters `1..j` for some
    `j ≤ n`, in order, then nothing or exactly one end marker (and the interpreter did not run out of fuel) -/
def StreamShape (n : Nat) (r : St × Out) : Prop :=
  r.2 ≠ .fuel ∧ ∃ j, j ≤ n ∧ (r.1.results = itemsFrom 0 j ∨ ∃ e, r.1.results = itemsFrom 0 j ++ [.endMarker e])

/-- what the summary of a loop (`@K@_loop_disturbed`) says, as a hypothesis -/
def LoopSummary (env : Env) (a : Async) (n L Lr F : Nat) (W : Stmt) (extra : St → Prop) : Prop :=
  ∀ (st : St) (K : Nat), st.inputs = List.replicate n .item ++ [.release] → st.left = some K →
    QuietC a st → extra st → LoopOut a n L Lr K st (exec env F st W)

/-- rewriting rule: a loop that is entered with enough line events to go is passed completely -/
theorem loop_pass_rule (env : Env) (a : Async) (n L Lr F : Nat) (W : Stmt) (extra : St → Prop) (hF : LoopSummary env a n L Lr F W extra) :
    ∀ (k : Nat) (st : St), st.inputs = List.replicate n .item ++ [.release] → st.left.isSome = true →
      loopLen n L Lr ≤ st.left.getD 0 → st.inflight = none → st.stop = false → st.async = a → extra st →
      exec env (F + k) st W = ({ st with rtrace := loopTr env F st W, left := some (st.left.getD 0 - loopLen n L Lr), inputs := [], extraNone := true, counter := st.counter + n, results := st.results ++ itemsFrom st.counter n }, .normal) := by
  intro k st hi hl hK hf hs ha hc
  obtain ⟨K, hK'⟩ := Option.isSome_iff_exists.mp hl
  rw [hK'] at hK
  simp only [Option.getD_some] at hK
  have h := hF st K hi hK' ⟨hf, hs, ha⟩ hc
  have : exec env F st W = ({ st with rtrace := loopTr env F st W, left := some (st.left.getD 0 - loopLen n L Lr), inputs := [], extraNone := true, counter := st.counter + n, results := st.results ++ itemsFrom st.counter n }, .normal) := by
    cases h with
    | passed _ hout heq =>
      apply Prod.ext
      · rw [hK']; exact heq
      · exact hout
    | fired hlt _ _ _ _ _ _ => omega
  exact exec_mono env this (by simp) _ (Nat.le_add_right _ _)

/-- the stream ends: result messages with counters `1..j`, `j ≤ n`, then exactly one end marker -/
def StreamEnds (n : Nat) (r : St × Out) : Prop :=
  r.2 ≠ .fuel ∧ ∃ j, j ≤ n ∧ ∃ e, r.1.results = itemsFrom 0 j ++ [.endMarker e]

theorem StreamEnds.shape {n : Nat} {r : St × Out} (h : StreamEnds n r) : StreamShape n r :=
  let ⟨h1, j, hj, e, he⟩ := h
  ⟨h1, j, hj, Or.inr ⟨e, he⟩⟩

theorem streamEnds_mono (env : Env) (prog : List Stmt) (st : St) (n F : Nat)
    (h : StreamEnds n (execBlock env F st prog)) : ∀ G, F ≤ G → StreamEnds n (execBlock env G st prog) := by
  intro G hG
  rw [execBlock_mono env rfl h.1 G hG]
  exact h

/-- the state in which the loop is left (opaque in the rewriting rules: they must not mention `exec` on the right) -/
def loopEx (env : Env) (F : Nat) (st : St) (W : Stmt) : St := (exec env F st W).1

/-- rewriting rule: a loop that is entered with fewer line events to go than it has is left by the event; whatever the
    code around the loop can read of the exit state is known, but for the number of results written (`loop_fire_prefix`) -/
theorem loop_fire_rule (env : Env) (a : Async) (n L Lr F : Nat) (W : Stmt) (extra : St → Prop) (hF : LoopSummary env a n L Lr F W extra) :
    ∀ (k : Nat) (st : St), st.inputs = List.replicate n .item ++ [.release] → st.left.isSome = true →
      st.left.getD 0 < loopLen n L Lr → st.inflight = none → st.stop = false → st.async = a → extra st →
      exec env (F + k) st W = ({ st with rtrace := (loopEx env F st W).rtrace, inputs := (loopEx env F st W).inputs, extraNone := (loopEx env F st W).extraNone, raisedAt := (loopEx env F st W).raisedAt, ustate := (loopEx env F st W).ustate, results := (loopEx env F st W).results, counter := (loopEx env F st W).counter, left := none, inflight := none, terminateReq := firedReq a st, ctrlAlive := firedCtrl a st }, firedOut a) := by
  intro k st hi hl hK hf hs ha hc
  obtain ⟨K, hK'⟩ := Option.isSome_iff_exists.mp hl
  rw [hK'] at hK
  simp only [Option.getD_some] at hK
  have h := (hF st K hi hK' ⟨hf, hs, ha⟩ hc).leftBy hK
  have : exec env F st W = ({ st with rtrace := (loopEx env F st W).rtrace, inputs := (loopEx env F st W).inputs, extraNone := (loopEx env F st W).extraNone, raisedAt := (loopEx env F st W).raisedAt, ustate := (loopEx env F st W).ustate, results := (loopEx env F st W).results, counter := (loopEx env F st W).counter, left := none, inflight := none, terminateReq := firedReq a st, ctrlAlive := firedCtrl a st }, firedOut a) := by
    obtain ⟨hout, _, h1, h2, h3, h4, h5, h6, h7, h8, h9, h10, h11, h12⟩ := h
    unfold loopEx
    generalize exec env F st W = r at *
    obtain ⟨r1, r2⟩ := r
    simp only at hout h1 h2 h3 h4 h5 h6 h7 h8 h9 h10 h11 h12
    subst hout
    cases r1
    cases st
    simp only at h1 h2 h3 h4 h5 h6 h7 h8 h9 h10 h11 h12 ⊢
    subst h1 h2 h3 h4 h5 h6 h7 h8 h9 h10 h11 h12
    rfl
  exact exec_mono env this (firedOut_ne_fuel a) _ (Nat.le_add_right _ _)

theorem loop_fire_prefix (env : Env) (a : Async) (n L Lr F : Nat) (W : Stmt) (extra : St → Prop) (hF : LoopSummary env a n L Lr F W extra)
    (st : St) (K : Nat) (hi : st.inputs = List.replicate n .item ++ [.release]) (hl : st.left = some K) (hK : K < loopLen n L Lr)
    (hq : QuietC a st) (hx : extra st) :
    ∃ j, j ≤ n ∧ (loopEx env F st W).results = st.results ++ itemsFrom st.counter j :=
  let ⟨j, hj, h, _⟩ := ((hF st K hi hl hq hx).leftBy hK).prefix_
  ⟨j, hj, h⟩

theorem streamShape_mono (env : Env) (prog : List Stmt) (st : St) (n F : Nat)
    (h : StreamShape n (execBlock env F st prog)) : ∀ G, F ≤ G → StreamShape n (execBlock env G st prog) := by
  intro G hG
  rw [execBlock_mono env rfl h.1 G hG]
  exact h

end PwVerif.Py
