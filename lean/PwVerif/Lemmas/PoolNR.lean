import PwVerif.Lemmas.PoolK
/-!
Invariants of the Pool model with **retry disabled** (`Pool(..., retry=False)`), no user `enqueue_fn`.

With retry off `handle_unused_data` discards its input and `handle_death` discards the pending list of the dead
worker; the model records both in the ghost list `St.dropped` (worker, input, had-been-handed flag). The invariant
`InvNR` says: every input is, with multiplicity, still in the source, on some pending list, in the results, or in
`dropped`; and every entry of `dropped` names a worker that the pool has declared dead - and that *is* dead
(`WDead`: the pool declares a worker dead only after an end marker / EOF / a failed enqueue, all of which only a
dead worker produces).
-/
namespace PwVerif.Pool

structure NoRetry (c : Cfg) : Prop where
  retry : c.retry = false
  rr : c.returnResults = true
  noFn : ∀ w i, c.refuse w i = false

/-- facts that tie the pool's view of a worker to the worker's real state -/
structure WDead (x : Worker) : Prop where
  closed_dead : x.closed = true → x.alive = false
  eof_dead : x.eof = true → x.alive = false
  marker_dead : Msg.endMarker ∈ x.chan → x.alive = false

def dropCount (i : Inp) (s : St) : Nat := (s.dropped.map (fun d => d.inp)).count i

structure InvNR (src0 F : List Inp) (s : St) : Prop where
  ws : ∀ x ∈ s.ws, WInv x ∧ WDead x
  pending : s.pending = (ppwLen s : Int)
  cons : ∀ i, src0.count i = s.src.count i + ppwCount i s + s.ret.count i + dropCount i s + F.count i
  noRetries : s.retries = []
  depl : s.depleted = true → s.src = []
  noerr : s.err = none
  dead : ∀ d ∈ s.dropped, d.w < s.ws.length ∧ (getW s d.w).closed = true
  /-- an input recorded as *handed* really was accepted by that worker's `enqueue` -/
  handed : ∀ d ∈ s.dropped, d.handed = true → (d.w, d.inp) ∈ s.enq
  /-- everything on a pending list was accepted by that worker's `enqueue` -/
  ppwEnq : ∀ j, j < s.ws.length → ∀ i ∈ (getW s j).ppw, (j, i) ∈ s.enq

/-! ### primitive updates -/

theorem unused_nr {c : Cfg} (hc : NoRetry c) (s : St) (inp : Inp) (fr : Bool) : unused c s inp fr = s := by
  simp [unused, hc.retry]

theorem giveUp_nr {c : Cfg} (hc : NoRetry c) (s : St) (w : Nat) (inp : Inp) :
    giveUp c s w inp = { s with dropped := s.dropped ++ [⟨w, inp, false⟩] } := by
  simp [giveUp, hc.retry]

theorem nr_nextInputs {src0 F : List Inp} {s : St} (h : InvNR src0 F s) :
    match nextInputs s with
    | (none, s') => InvNR src0 F s' ∧ s'.ws = s.ws ∧ s'.depleted = true
    | (some (_, inp), s') => InvNR src0 (inp :: F) s' ∧ s'.ws = s.ws := by
  unfold nextInputs
  cases hr : s.retries with
  | cons r rs => rw [h.noRetries] at hr; cases hr
  | nil =>
    by_cases hd : s.depleted = true
    · simp only [hd, if_true]
      exact ⟨h, by simp, by simp [hd]⟩
    · simp only [hd, Bool.false_eq_true, if_false]
      cases hs : s.src with
      | nil =>
        refine ⟨⟨h.ws, h.pending, ?_, rfl, fun _ => rfl, h.noerr, h.dead, h.handed, h.ppwEnq⟩, rfl, rfl⟩
        intro i; have := h.cons i
        simpa [ppwCount, dropCount, hs] using this
      | cons a rest =>
        refine ⟨⟨h.ws, h.pending, ?_, rfl, ?_, h.noerr, h.dead, h.handed, h.ppwEnq⟩, rfl⟩
        · intro i
          have := h.cons i
          simp only [ppwCount, dropCount, hs, List.count_cons] at this ⊢
          omega
        · intro hd'; exact absurd hd' (by simpa using hd)

/-- the input in flight is given up because worker `w` is closed -/
theorem nr_giveUp {c : Cfg} (hc : NoRetry c) {src0 F : List Inp} {s : St} {inp : Inp} {w : Nat}
    (h : InvNR src0 (inp :: F) s) (hw : w < s.ws.length) (hcl : (getW s w).closed = true) :
    InvNR src0 F (giveUp c s w inp) ∧ (giveUp c s w inp).ws = s.ws := by
  rw [giveUp_nr hc]
  refine ⟨⟨h.ws, h.pending, ?_, h.noRetries, h.depl, h.noerr, ?_, ?_, h.ppwEnq⟩, rfl⟩
  · intro i
    have := h.cons i
    simp only [ppwCount, dropCount, List.map_append, List.count_append, List.map_cons, List.map_nil,
      List.count_cons, List.count_nil] at this ⊢
    omega
  · intro d hd
    simp only [List.mem_append, List.mem_singleton] at hd
    rcases hd with hd | rfl
    · exact h.dead d hd
    · exact ⟨hw, hcl⟩
  · intro d hd hh
    simp only [List.mem_append, List.mem_singleton] at hd
    rcases hd with hd | rfl
    · exact h.handed d hd hh
    · cases hh

theorem getW_setW (s : St) (w j : Nat) (x : Worker) (hw : w < s.ws.length) :
    getW (setW s w x) j = if j = w then x else getW s j := by
  by_cases hj : j = w
  · subst hj; simp [getW_setW_same s j x hw]
  · simp [hj, getW_setW_other s w j x hj]

/-- replacing worker `w` by one that is still closed if it was keeps the `dead` clause -/
theorem dead_setW {s : St} {w : Nat} {x : Worker} (hw : w < s.ws.length)
    (h : ∀ d ∈ s.dropped, d.w < s.ws.length ∧ (getW s d.w).closed = true)
    (hx : (getW s w).closed = true → x.closed = true) :
    ∀ d ∈ (setW s w x).dropped, d.w < (setW s w x).ws.length ∧ (getW (setW s w x) d.w).closed = true := by
  intro d hd
  obtain ⟨h1, h2⟩ := h d hd
  refine ⟨by rw [setW_length]; exact h1, ?_⟩
  rw [getW_setW s w d.w x hw]
  split
  · rename_i he; rw [he] at h2; exact hx h2
  · exact h2

theorem nr_doEnqueue {src0 F : List Inp} {s : St} {inp : Inp} {w : Nat} (h : InvNR src0 (inp :: F) s)
    (hw : w < s.ws.length) (ha : (getW s w).alive = true) (hcl : (getW s w).closed = false) :
    InvNR src0 F (doEnqueue s w inp) ∧ (doEnqueue s w inp).ws.length = s.ws.length ∧
      (doEnqueue s w inp).depleted = s.depleted := by
  obtain ⟨hx, hxd⟩ := h.ws _ (getW_mem s w hw)
  let x' : Worker := { getW s w with inbox := (getW s w).inbox ++ [inp], ppw := (getW s w).ppw ++ [inp] }
  have hde : doEnqueue s w inp = { setW s w x' with pending := s.pending + 1, enq := s.enq ++ [(w, inp)] } := rfl
  refine ⟨⟨?_, ?_, ?_, ?_, ?_, ?_, ?_, ?_, ?_⟩, by simp [hde, setW], by simp [hde]⟩
  · intro y hy
    rw [hde] at hy
    rcases mem_setW hy with rfl | hy
    · refine ⟨⟨?_, ?_, ?_, ?_⟩, ⟨?_, ?_, ?_⟩⟩
      · intro _
        have := hx.open_ hcl
        have hl := hx.alive_ ha
        simp only [x', this, hl, List.append_nil, List.append_assoc]
      · intro hc'; simp [x', hcl] at hc'
      · intro _; exact hx.alive_ ha
      · intro hd; simp [x', ha] at hd
      · intro hc'; simp [x', hcl] at hc'
      · exact hxd.eof_dead
      · exact hxd.marker_dead
    · exact h.ws y hy
  · have := ppwLen_setW s w x' hw
    simp only [x', List.length_append, List.length_singleton] at this
    rw [hde]
    show s.pending + 1 = (ppwLen (setW s w x') : Int)
    rw [h.pending]
    simp only [x']
    omega
  · intro i
    have hc := h.cons i
    have := ppwCount_setW i s w x' hw
    simp only [x', List.count_append, List.count_cons, List.count_nil] at this
    rw [hde]
    show src0.count i = s.src.count i + ppwCount i (setW s w x') + s.ret.count i + dropCount i s + F.count i
    simp only [List.count_cons] at hc
    simp only [x']
    omega
  · rw [hde]; exact h.noRetries
  · rw [hde]; exact h.depl
  · rw [hde]; exact h.noerr
  · rw [hde]
    exact dead_setW (x := x') hw h.dead (fun hc' => by simp [hcl] at hc')
  · rw [hde]
    intro d hd hh
    have := h.handed d hd hh
    show (d.w, d.inp) ∈ s.enq ++ [(w, inp)]
    exact List.mem_append_left _ this
  · rw [hde]
    intro j hj i hi
    have hj' : j < s.ws.length := by simpa [setW] using hj
    show (j, i) ∈ s.enq ++ [(w, inp)]
    have hg : getW ({ setW s w x' with pending := s.pending + 1, enq := s.enq ++ [(w, inp)] } : St) j
        = getW (setW s w x') j := rfl
    rw [hg, getW_setW s w j x' hw] at hi
    split at hi
    · rename_i hjw
      subst hjw
      simp only [x', List.mem_append, List.mem_singleton] at hi
      rcases hi with hi | rfl
      · exact List.mem_append_left _ (h.ppwEnq j hj' i hi)
      · exact List.mem_append_right _ (by simp)
    · exact List.mem_append_left _ (h.ppwEnq j hj' i hi)

theorem markDead_nr {c : Cfg} (hc : NoRetry c) (s : St) (w : Nat) :
    markDead c s w =
      setW { s with dropped := s.dropped ++ (getW s w).ppw.map (fun i => ⟨w, i, true⟩),
                    pending := s.pending - (getW s w).ppw.length } w
        { getW s w with ppw := [], closed := true } := by
  simp [markDead, hc.retry, getW]

theorem count_map_drop (l : List Inp) (w : Nat) (i : Inp) :
    ((l.map (fun i => (⟨w, i, true⟩ : Drop))).map (fun d => d.inp)).count i = l.count i := by
  simp [List.map_map, Function.comp_def]

/-- `handle_death` bookkeeping on a worker that really is dead -/
theorem nr_markDead {c : Cfg} (hc : NoRetry c) {src0 F : List Inp} {s : St} {w : Nat} (h : InvNR src0 F s)
    (hw : w < s.ws.length) (hdead : (getW s w).alive = false) :
    InvNR src0 F (markDead c s w) ∧ (markDead c s w).ws.length = s.ws.length ∧
    (getW (markDead c s w) w).closed = true ∧ (markDead c s w).depleted = s.depleted := by
  obtain ⟨hx, hxd⟩ := h.ws _ (getW_mem s w hw)
  let x' : Worker := { getW s w with ppw := [], closed := true }
  let s2 : St := { s with dropped := s.dropped ++ (getW s w).ppw.map (fun i => ⟨w, i, true⟩),
                          pending := s.pending - (getW s w).ppw.length }
  have hmd : markDead c s w = setW s2 w x' := markDead_nr hc s w
  have hw2 : w < s2.ws.length := hw
  rw [hmd]
  refine ⟨⟨?_, ?_, ?_, h.noRetries, h.depl, h.noerr, ?_, ?_, ?_⟩, by simp [setW, s2],
    by rw [getW_setW_same s2 w x' hw2], rfl⟩
  · intro y hy
    rcases mem_setW hy with rfl | hy
    · exact ⟨⟨fun hcl => by simp [x'] at hcl, fun _ => rfl, hx.alive_, hx.dead_⟩,
        ⟨fun _ => hdead, hxd.eof_dead, hxd.marker_dead⟩⟩
    · exact h.ws y hy
  · have := ppwLen_setW s w x' hw
    simp only [x', List.length_nil] at this
    show s.pending - ((getW s w).ppw.length : Int) = (ppwLen (setW s2 w x') : Int)
    have e : ppwLen (setW s2 w x') = ppwLen (setW s w x') := rfl
    rw [e, h.pending]
    simp only [x']
    omega
  · intro i
    have hcn := h.cons i
    have := ppwCount_setW i s w x' hw
    simp only [x', List.count_nil] at this
    have e : ppwCount i (setW s2 w x') = ppwCount i (setW s w x') := rfl
    have e2 : dropCount i (setW s2 w x') = dropCount i s + (getW s w).ppw.count i := by
      simp only [dropCount, setW, s2, List.map_append, List.count_append]
      rw [count_map_drop]
    show src0.count i = s.src.count i + ppwCount i (setW s2 w x') + s.ret.count i + dropCount i (setW s2 w x') + F.count i
    rw [e, e2]
    simp only [x']
    omega
  · -- dropped entries name closed workers
    intro d hd
    have hd' : d ∈ s.dropped ++ (getW s w).ppw.map (fun i => (⟨w, i, true⟩ : Drop)) := hd
    simp only [List.mem_append, List.mem_map] at hd'
    refine ⟨by rw [setW_length]; rcases hd' with hd' | ⟨i, _, rfl⟩; exact (h.dead d hd').1; exact hw, ?_⟩
    rw [getW_setW s2 w d.w x' hw2]
    split
    · rfl
    · rcases hd' with hd' | ⟨i, _, rfl⟩
      · exact (h.dead d hd').2
      · rename_i hne; exact absurd rfl hne
  · intro d hd hh
    have hd' : d ∈ s.dropped ++ (getW s w).ppw.map (fun i => (⟨w, i, true⟩ : Drop)) := hd
    simp only [List.mem_append, List.mem_map] at hd'
    show (d.w, d.inp) ∈ s.enq
    rcases hd' with hd' | ⟨i, hi, rfl⟩
    · exact h.handed d hd' hh
    · exact h.ppwEnq w hw i hi
  · intro j hj i hi
    have hj' : j < s.ws.length := by simpa [setW, s2] using hj
    show (j, i) ∈ s.enq
    rw [getW_setW s2 w j x' hw2] at hi
    split at hi
    · simp [x'] at hi
    · exact h.ppwEnq j hj' i hi

/-! ### monotonicity (`Le`) of the retry-off macro steps -/

theorem le_markDead_nr {c : Cfg} (hc : NoRetry c) (s : St) (w : Nat) : Le s (markDead c s w) := by
  rw [markDead_nr hc]
  have h0 : Le s { s with dropped := s.dropped ++ (getW s w).ppw.map (fun i => (⟨w, i, true⟩ : Drop)),
                          pending := s.pending - (getW s w).ppw.length } :=
    Le.of_eq rfl (fun h => h)
  refine Le.trans h0 (le_setW _ w _ ?_)
  intro h; rw [isIdle_dead] at h; cases h

theorem le_giveUp (c : Cfg) (s : St) (w : Nat) (inp : Inp) : Le s (giveUp c s w inp) := by
  unfold giveUp
  split
  · exact Le.refl s
  · exact Le.of_eq rfl (fun h => h)

theorem le_nextInputs {s s' : St} {o : Option (Bool × Inp)} (h : nextInputs s = (o, s')) : Le s s' := by
  unfold nextInputs at h
  cases hr : s.retries with
  | cons r rs => simp only [hr] at h; cases h; exact Le.of_eq rfl (fun h => h)
  | nil =>
    simp only [hr] at h
    by_cases hd : s.depleted = true
    · simp only [hd, if_true] at h; cases h; exact Le.refl s
    · simp only [hd, Bool.false_eq_true, if_false] at h
      cases hs : s.src with
      | nil => simp only [hs] at h; cases h; exact Le.of_eq rfl (fun _ => rfl)
      | cons a rest => simp only [hs] at h; cases h; exact Le.of_eq rfl (fun h => absurd h hd)

theorem settle_nr {c : Cfg} {pick : List Nat → Option Nat} (fuel : Nat) (skip : List Nat) (s : St) (hr : s.retries = []) :
    settle c pick fuel skip s = s := by
  cases fuel with
  | zero => simp [settle, hr]
  | succ f => simp [settle, hr]

theorem nr_handleDeath {c : Cfg} (hc : NoRetry c) {pick : List Nat → Option Nat}
    {src0 F : List Inp} {s : St} {w : Nat} (h : InvNR src0 F s) (hw : w < s.ws.length)
    (hdead : (getW s w).alive = false) :
    InvNR src0 F (handleDeath c pick s w) ∧ (handleDeath c pick s w).ws.length = s.ws.length ∧
    (getW (handleDeath c pick s w) w).closed = true ∧ (handleDeath c pick s w).depleted = s.depleted ∧
    Le s (handleDeath c pick s w) := by
  obtain ⟨h1, l1, c1, d1⟩ := nr_markDead hc h hw hdead
  unfold handleDeath
  rw [settle_nr _ _ _ h1.noRetries]
  exact ⟨h1, l1, c1, d1, le_markDead_nr hc s w⟩

/-- `try_enqueue`: the invariant is kept; afterwards worker `w` holds work or is closed, unless there was no input
    left (then the source has been found depleted) -/
theorem nr_tryEnqueue {c : Cfg} (hc : NoRetry c) {pick : List Nat → Option Nat}
    {src0 F : List Inp} {s : St} {w : Nat} (h : InvNR src0 F s) (hw : w < s.ws.length) :
    InvNR src0 F (tryEnqueue c pick s w).1 ∧ (tryEnqueue c pick s w).1.ws.length = s.ws.length ∧
    (s.depleted = true → (tryEnqueue c pick s w).1.depleted = true) ∧
    (if (tryEnqueue c pick s w).2 then isIdle (getW (tryEnqueue c pick s w).1 w) = false
     else (tryEnqueue c pick s w).1.depleted = true) ∧
    Le s (tryEnqueue c pick s w).1 := by
  unfold tryEnqueue
  have hn := nr_nextInputs h
  generalize hg : nextInputs s = r at hn
  obtain ⟨o, s'⟩ := r
  have hle := le_nextInputs hg
  have hdep : s.depleted = true → s'.depleted = true := by
    intro hd
    unfold nextInputs at hg
    rw [h.noRetries] at hg
    simp only [hd, if_true] at hg
    cases hg; exact hd
  cases o with
  | none => exact ⟨hn.1, by rw [hn.2.1], hdep, hn.2.2, hle⟩
  | some p =>
    obtain ⟨fr, inp⟩ := p
    obtain ⟨h1, hws⟩ := hn
    have hw' : w < s'.ws.length := by rw [hws]; exact hw
    simp only [hc.noFn, Bool.false_eq_true, if_false]
    by_cases hcl : (getW s' w).closed = true
    · simp only [hcl, if_true]
      obtain ⟨h2, l2⟩ := nr_giveUp hc h1 hw' hcl
      rw [unused_nr hc]
      refine ⟨h2, by rw [l2, hws], ?_, ?_, Le.trans hle (le_giveUp c _ _ _)⟩
      · intro hd; rw [giveUp_nr hc]; exact hdep hd
      · have : getW (giveUp c s' w inp) w = getW s' w := by simp [getW, l2]
        simp [this, isIdle, hcl]
    · simp only [hcl, Bool.false_eq_true, if_false]
      by_cases ha : (getW s' w).alive = true
      · simp only [ha, if_true]
        obtain ⟨h2, l2, d2⟩ := nr_doEnqueue h1 hw' ha (by simpa using hcl)
        refine ⟨h2, by rw [l2, hws], fun hd => by rw [d2]; exact hdep hd, ?_, Le.trans hle (le_doEnqueue _ _ _)⟩
        exact cn_doEnqueue s' w inp hw'
      · simp only [ha, Bool.false_eq_true, if_false]
        obtain ⟨h2, l2, c2, d2, le2⟩ := nr_handleDeath hc (pick := pick) h1 hw' (by simpa using ha)
        obtain ⟨h3, l3⟩ := nr_giveUp hc h2 (by rw [l2]; exact hw') c2
        rw [unused_nr hc]
        refine ⟨h3, by rw [l3, l2, hws], ?_, ?_, Le.trans hle (Le.trans le2 (le_giveUp c _ _ _))⟩
        · intro hd; rw [giveUp_nr hc]; show (handleDeath c pick s' w).depleted = true; rw [d2]; exact hdep hd
        · have : getW (giveUp c (handleDeath c pick s' w) w inp) w = getW (handleDeath c pick s' w) w := by
            simp [getW, l3]
          simp [this, isIdle, c2]

/-! ### first_enqueue -/

theorem nr_firstRound {c : Cfg} (hc : NoRetry c) {pick : List Nat → Option Nat} {src0 F : List Inp} :
    ∀ (n k : Nat) (s : St), InvNR src0 F s → k + n ≤ s.ws.length → (∀ j, j < k → CN s j) →
      InvNR src0 F (firstRound c pick n k s).1 ∧ (firstRound c pick n k s).1.ws.length = s.ws.length ∧
      Le s (firstRound c pick n k s).1 ∧
      ((firstRound c pick n k s).2 = false → (firstRound c pick n k s).1.depleted = true) ∧
      ((firstRound c pick n k s).2 = true → ∀ j, j < k + n → CN (firstRound c pick n k s).1 j) := by
  intro n
  induction n with
  | zero =>
    intro k s h _ hcn
    simp only [firstRound]
    exact ⟨h, by simp, Le.refl s, (fun h => by cases h), fun _ j hj => hcn j (by omega)⟩
  | succ n ih =>
    intro k s h hk hcn
    simp only [firstRound]
    by_cases hcl : (getW s k).closed = true
    · simp only [hcl, if_true]
      have hcn' : ∀ j, j < k + 1 → CN s j := by
        intro j hj
        by_cases hjk : j = k
        · subst hjk; simp [CN, isIdle, hcl]
        · exact hcn j (by omega)
      obtain ⟨a, l, le, b, d⟩ := ih (k + 1) s h (by omega) hcn'
      exact ⟨a, l, le, b, fun h j hj => d h j (by omega)⟩
    · simp only [hcl, Bool.false_eq_true, if_false]
      obtain ⟨h1, l1, _, hb, hle⟩ := nr_tryEnqueue hc (pick := pick) (w := k) h (by omega)
      generalize hg : tryEnqueue c pick s k = r at h1 l1 hb hle
      obtain ⟨s', b⟩ := r
      cases b with
      | false => exact ⟨h1, l1, hle, fun _ => by simpa using hb, fun h => by cases h⟩
      | true =>
        simp only
        have hcn' : ∀ j, j < k + 1 → CN s' j := by
          intro j hj
          by_cases hjk : j = k
          · subst hjk; simpa [CN] using hb
          · exact hle.cn j (hcn j (by omega))
        simp only at l1
        obtain ⟨a, l, le, b', d⟩ := ih (k + 1) s' h1 (by omega) hcn'
        exact ⟨a, by rw [l, l1], Le.trans hle le, b', fun h j hj => d h j (by omega)⟩

theorem nr_firstEnqueue {c : Cfg} (hc : NoRetry c) {pick : List Nat → Option Nat} {src0 F : List Inp} :
    ∀ (rounds : Nat) (s : St), InvNR src0 F s → (rounds = 0 → K s) →
      InvNR src0 F (firstEnqueue c pick rounds s) ∧ (firstEnqueue c pick rounds s).ws.length = s.ws.length ∧
      K (firstEnqueue c pick rounds s) := by
  intro rounds
  induction rounds with
  | zero => intro s h hk; exact ⟨h, rfl, hk rfl⟩
  | succ r ih =>
    intro s h _
    simp only [firstEnqueue]
    obtain ⟨h1, l1, hle, hf, htr⟩ := nr_firstRound hc (pick := pick) s.ws.length 0 s h (by omega) (fun j hj => by omega)
    generalize hg : firstRound c pick s.ws.length 0 s = res at h1 l1 hle hf htr
    obtain ⟨s', b⟩ := res
    cases b with
    | false => exact ⟨h1, l1, Or.inr ⟨h1.noRetries, hf rfl⟩⟩
    | true =>
      simp only at l1
      have hk' : K s' := Or.inl (fun j hj => htr rfl j (by omega))
      obtain ⟨h2, l2, k2⟩ := ih s' h1 (fun _ => hk')
      exact ⟨h2, by rw [l2, l1], k2⟩

/-! ### the event loop -/

theorem nr_setW_samePpw {src0 F : List Inp} {s : St} {w : Nat} {x : Worker} (h : InvNR src0 F s)
    (hw : w < s.ws.length) (hx : WInv x ∧ WDead x) (hp : x.ppw = (getW s w).ppw)
    (hcl : (getW s w).closed = true → x.closed = true) : InvNR src0 F (setW s w x) := by
  refine ⟨?_, ?_, ?_, h.noRetries, h.depl, h.noerr, dead_setW hw h.dead hcl, h.handed, ?_⟩
  · intro y hy
    rcases mem_setW hy with rfl | hy
    · exact hx
    · exact h.ws y hy
  · have := ppwLen_setW s w x hw
    rw [hp] at this
    rw [setW_pending, h.pending]; omega
  · intro i
    have := ppwCount_setW i s w x hw
    rw [hp] at this
    have hc := h.cons i
    show src0.count i = s.src.count i + ppwCount i (setW s w x) + s.ret.count i + dropCount i s + F.count i
    omega
  · intro j hj i hi
    have hj' : j < s.ws.length := by simpa [setW] using hj
    rw [getW_setW s w j x hw] at hi
    split at hi
    · rename_i hjw; subst hjw; rw [hp] at hi; exact h.ppwEnq j hj' i hi
    · exact h.ppwEnq j hj' i hi

theorem K_handleDeath_nr {c : Cfg} (hc : NoRetry c) {pick : List Nat → Option Nat} {src0 F : List Inp} {s : St} {w : Nat}
    (h : InvNR src0 F s) (hw : w < s.ws.length) (hdead : (getW s w).alive = false) (hk : K s) :
    K (handleDeath c pick s w) := by
  obtain ⟨h1, l1, _, d1, hle⟩ := nr_handleDeath hc (pick := pick) h hw hdead
  rcases hk with hk | hk
  · left; intro j hj; rw [l1] at hj; exact hle.cn j (hk j hj)
  · right; exact ⟨h1.noRetries, by rw [d1]; exact hk.2⟩

theorem nr_onPoll {c : Cfg} (hc : NoRetry c) {pick : List Nat → Option Nat}
    {src0 : List Inp} {s : St} {w : Nat} (h : InvNR src0 [] s) (hw : w < s.ws.length) :
    InvNR src0 [] (onPoll c pick s w) ∧ (onPoll c pick s w).ws.length = s.ws.length ∧
    (K s → K (onPoll c pick s w)) := by
  obtain ⟨hx, hxd⟩ := h.ws _ (getW_mem s w hw)
  unfold onPoll
  dsimp only
  split
  · exact ⟨h, rfl, fun hk => hk⟩
  split
  · -- channel empty
    rename_i hch
    split
    · exact ⟨h, rfl, fun hk => hk⟩
    rename_i heof
    have heof' : (getW s w).eof = true := by simpa using heof
    have h1 : InvNR src0 [] (setW s w { getW s w with queue := false }) :=
      nr_setW_samePpw h hw ⟨⟨hx.open_, hx.closed_, hx.alive_, hx.dead_⟩, ⟨hxd.closed_dead, hxd.eof_dead, hxd.marker_dead⟩⟩ rfl (fun h => h)
    have k1 : K s → K (setW s w { getW s w with queue := false }) := fun hk => K_setW_same hk rfl rfl
    split
    · exact ⟨h1, setW_length _ _ _, k1⟩
    · have hw1 : w < (setW s w { getW s w with queue := false }).ws.length := by rw [setW_length]; exact hw
      have hd1 : (getW (setW s w { getW s w with queue := false }) w).alive = false := by
        rw [getW_setW_same s w _ hw]; exact hxd.eof_dead heof'
      obtain ⟨h2, l2, _, _, _⟩ := nr_handleDeath hc (pick := pick) h1 hw1 hd1
      exact ⟨h2, by rw [l2, setW_length], fun hk => K_handleDeath_nr hc h1 hw1 hd1 (k1 hk)⟩
  · -- end marker
    rename_i rest hch
    have hxw : WInv { getW s w with chan := rest } ∧ WDead { getW s w with chan := rest } := by
      refine ⟨⟨?_, hx.closed_, hx.alive_, hx.dead_⟩, ⟨hxd.closed_dead, hxd.eof_dead, ?_⟩⟩
      · intro hcl
        have := hx.open_ hcl
        simpa [hch, resIn] using this
      · intro hm; exact hxd.marker_dead (by rw [hch]; exact List.mem_cons_of_mem _ hm)
    have h1 : InvNR src0 [] (setW s w { getW s w with chan := rest }) := nr_setW_samePpw h hw hxw rfl (fun h => h)
    have k1 : K s → K (setW s w { getW s w with chan := rest }) := fun hk => K_setW_same hk rfl rfl
    split
    · exact ⟨h1, setW_length _ _ _, k1⟩
    · have hw1 : w < (setW s w { getW s w with chan := rest }).ws.length := by rw [setW_length]; exact hw
      have hd1 : (getW (setW s w { getW s w with chan := rest }) w).alive = false := by
        rw [getW_setW_same s w _ hw]; exact hxd.marker_dead (by rw [hch]; exact List.mem_cons_self ..)
      obtain ⟨h2, l2, _, _, _⟩ := nr_handleDeath hc (pick := pick) h1 hw1 hd1
      exact ⟨h2, by rw [l2, setW_length], fun hk => K_handleDeath_nr hc h1 hw1 hd1 (k1 hk)⟩
  · -- a result message
    rename_i i rest hch
    have hmk : Msg.endMarker ∈ rest → (getW s w).alive = false :=
      fun hm => hxd.marker_dead (by rw [hch]; exact List.mem_cons_of_mem _ hm)
    split
    · rename_i hcl
      have hcl' : (getW s w).closed = true := by simpa using hcl
      have hxw : WInv { getW s w with chan := rest } ∧ WDead { getW s w with chan := rest } :=
        ⟨⟨fun hc' => by simp [hcl'] at hc', hx.closed_, hx.alive_, hx.dead_⟩, ⟨hxd.closed_dead, hxd.eof_dead, hmk⟩⟩
      exact ⟨nr_setW_samePpw h hw hxw rfl (fun h => h), setW_length _ _ _, fun hk => K_setW_same hk rfl rfl⟩
    · rename_i hcl
      have hcl' : (getW s w).closed = false := by simpa using hcl
      have hopen := hx.open_ hcl'
      simp only [hch, resIn, List.cons_append] at hopen
      rw [getW_setW_same s w _ hw]
      split
      · rename_i hnil
        simp only [hopen] at hnil
        cases hnil
      · rename_i p ppw' hcons
        simp only [hopen] at hcons
        have hp' : p = i ∧ ppw' = resIn rest ++ (getW s w).inbox ++ (getW s w).lost := by
          simp only [List.cons.injEq] at hcons
          exact ⟨hcons.1.symm, hcons.2.symm⟩
        obtain ⟨rfl, rfl⟩ := hp'
        let x' : Worker := { getW s w with chan := rest, ppw := resIn rest ++ (getW s w).inbox ++ (getW s w).lost }
        have hset : setW (setW s w { getW s w with chan := rest }) w
            { ({ getW s w with chan := rest } : Worker) with ppw := resIn rest ++ (getW s w).inbox ++ (getW s w).lost } = setW s w x' := by
          simp [setW, x']
        rw [hset]
        simp only [hc.rr, if_true, setW_pending, setW_ret]
        let t : St := { setW s w x' with pending := s.pending - 1, ret := s.ret ++ [p] }
        have hinv : InvNR src0 [] t := by
          refine ⟨?_, ?_, ?_, h.noRetries, h.depl, h.noerr, ?_, h.handed, ?_⟩
          · intro y hy
            rcases mem_setW hy with rfl | hy
            · exact ⟨⟨fun _ => rfl, fun hc' => by simp [x', hcl'] at hc', hx.alive_, hx.dead_⟩,
                ⟨hxd.closed_dead, hxd.eof_dead, hmk⟩⟩
            · exact h.ws y hy
          · have := ppwLen_setW s w x' hw
            rw [hopen] at this
            simp only [x', List.length_cons, List.length_append] at this
            show s.pending - 1 = (ppwLen (setW s w x') : Int)
            rw [h.pending]
            simp only [x']
            omega
          · intro j
            have hcn := h.cons j
            have := ppwCount_setW j s w x' hw
            rw [hopen] at this
            simp only [x', List.count_cons, List.count_append] at this
            show src0.count j = s.src.count j + ppwCount j (setW s w x') + (s.ret ++ [p]).count j + dropCount j s + ([] : List Inp).count j
            simp only [List.count_append, List.count_cons, List.count_nil] at hcn ⊢
            simp only [x']
            omega
          · exact dead_setW (x := x') hw h.dead (fun hc' => by simp [hcl'] at hc')
          · intro j hj i' hi'
            have hj' : j < s.ws.length := by simpa [setW, t] using hj
            have hg : getW t j = getW (setW s w x') j := rfl
            rw [hg, getW_setW s w j x' hw] at hi'
            show (j, i') ∈ s.enq
            split at hi'
            · rename_i hjw
              subst hjw
              apply h.ppwEnq j hj' i'
              rw [hopen]
              exact List.mem_cons_of_mem _ hi'
            · exact h.ppwEnq j hj' i' hi'
        have hwt : w < t.ws.length := by simp [t, setW]; exact hw
        obtain ⟨h2, l2, _, hb, hle⟩ := nr_tryEnqueue hc (pick := pick) (w := w) hinv hwt
        refine ⟨h2, by rw [l2]; simp [t, setW], ?_⟩
        intro hk
        -- K: before, nobody but `w` may be idle (or the source is depleted)
        have hkt : NoIdleExcept t w ∨ Quiet t := by
          rcases hk with hk | hk
          · left
            intro j hj hjw
            have hj' : j < s.ws.length := by simpa [setW, t] using hj
            have := hk j hj'
            have hg : getW t j = getW (setW s w x') j := rfl
            simp only [CN, hg, getW_setW_other s w j x' hjw]
            exact this
          · right; exact ⟨h.noRetries, hk.2⟩
        cases hbb : (tryEnqueue c pick t w).2 with
        | false =>
          rw [hbb] at hb
          exact Or.inr ⟨h2.noRetries, hb⟩
        | true =>
          rw [hbb] at hb
          rcases hkt with hkt | hkt
          · left
            intro j hj
            rw [l2] at hj
            by_cases hjw : j = w
            · subst hjw; exact hb
            · exact hle.cn j (hkt j hj hjw)
          · right; exact ⟨h2.noRetries, hle.depl hkt.2⟩

theorem nr_step {c : Cfg} (hc : NoRetry c) {pick : List Nat → Option Nat}
    {src0 : List Inp} {s : St} (ev : Ev) (h : InvNR src0 [] s) :
    InvNR src0 [] (step c pick s ev) ∧ (step c pick s ev).ws.length = s.ws.length ∧
    (K s → K (step c pick s ev)) := by
  cases ev with
  | work w =>
    simp only [step]
    by_cases hw : w < s.ws.length
    · obtain ⟨hx, hxd⟩ := h.ws _ (getW_mem s w hw)
      split
      · exact ⟨h, rfl, fun hk => hk⟩
      · rename_i ha
        have ha' : (getW s w).alive = true := by simpa using ha
        split
        · exact ⟨h, rfl, fun hk => hk⟩
        · rename_i i rest hin
          refine ⟨nr_setW_samePpw h hw ⟨?_, ?_⟩ rfl (fun h => h), setW_length _ _ _, fun hk => K_setW_same hk rfl rfl⟩
          · refine ⟨?_, hx.closed_, hx.alive_, fun hd => by simp [ha'] at hd⟩
            intro hcl
            have := hx.open_ hcl
            simp only [hin] at this
            simp only [this, resIn_append, resIn, List.append_assoc, List.cons_append, List.nil_append]
          · refine ⟨hxd.closed_dead, hxd.eof_dead, ?_⟩
            intro hm
            simp only [List.mem_append, List.mem_singleton] at hm
            rcases hm with hm | hm
            · exact hxd.marker_dead hm
            · cases hm
    · rw [getW_oob s w hw]
      exact ⟨by simpa using h, by simp, fun hk => by simpa using hk⟩
  | die w marker =>
    simp only [step]
    by_cases hw : w < s.ws.length
    · obtain ⟨hx, hxd⟩ := h.ws _ (getW_mem s w hw)
      split
      · exact ⟨h, rfl, fun hk => hk⟩
      · rename_i ha
        have ha' : (getW s w).alive = true := by simpa using ha
        refine ⟨nr_setW_samePpw h hw ⟨?_, ?_⟩ rfl (fun h => h), setW_length _ _ _, fun hk => K_setW_same hk rfl rfl⟩
        · refine ⟨?_, hx.closed_, fun hd => by simp at hd, fun _ => ⟨rfl, rfl⟩⟩
          intro hcl
          have := hx.open_ hcl
          have hl := hx.alive_ ha'
          cases marker <;> simp [this, hl, resIn_append, resIn]
        · exact ⟨fun _ => rfl, fun _ => rfl, fun _ => rfl⟩
    · rw [getW_oob s w hw]
      simp only [Bool.not_true, Bool.false_eq_true, if_false]
      rw [setW_oob s w _ hw]
      exact ⟨h, rfl, fun hk => hk⟩
  | poll ws =>
    simp only [step]
    split
    · have key : ∀ (l : List Nat) (t : St), InvNR src0 [] t →
          InvNR src0 [] (l.foldl (fun s w => if s.err.isNone then onPoll c pick s w else s) t) ∧
          (l.foldl (fun s w => if s.err.isNone then onPoll c pick s w else s) t).ws.length = t.ws.length ∧
          (K t → K (l.foldl (fun s w => if s.err.isNone then onPoll c pick s w else s) t)) := by
        intro l
        induction l with
        | nil => intro t ht; exact ⟨ht, rfl, fun kt => kt⟩
        | cons w ws ih =>
          intro t ht
          simp only [List.foldl_cons]
          by_cases he : t.err.isNone = true
          · simp only [he, if_true]
            by_cases hw : w < t.ws.length
            · obtain ⟨h1, l1, k1⟩ := nr_onPoll hc (pick := pick) ht hw
              obtain ⟨h2, l2, k2⟩ := ih _ h1
              exact ⟨h2, by rw [l2, l1], fun kt => k2 (k1 kt)⟩
            · have : onPoll c pick t w = t := by
                unfold onPoll
                rw [getW_oob t w hw]
                simp
              rw [this]
              exact ih t ht
          · simp only [he, Bool.false_eq_true, if_false]
            exact ih t ht
      exact key ws s h
    · exact ⟨h, rfl, fun hk => hk⟩

theorem nr_runEvents {c : Cfg} (hc : NoRetry c) {pick : List Nat → Option Nat} {src0 : List Inp} :
    ∀ (evs : List Ev) (s : St), InvNR src0 [] s → K s →
      InvNR src0 [] (runEvents c pick s evs) ∧ K (runEvents c pick s evs) := by
  intro evs
  induction evs with
  | nil => intro s h hk; exact ⟨h, hk⟩
  | cons e es ih =>
    intro s h hk
    obtain ⟨h1, _, k1⟩ := nr_step hc (pick := pick) e h
    exact ih _ h1 (k1 hk)

theorem nr_init (n : Nat) (src : List Inp) : InvNR src [] (initSt n src) := by
  have hi := inv_init n src
  refine ⟨?_, hi.pending, ?_, rfl, hi.depl, rfl, ?_, ?_, ?_⟩
  · intro x hx
    refine ⟨hi.ws x hx, ?_⟩
    simp only [initSt, List.mem_replicate] at hx
    rw [hx.2]
    exact ⟨fun h => by simp at h, fun h => by simp at h, fun h => by simp at h⟩
  · intro i
    have := hi.cons i
    simp only [cnt, initSt, dropCount, List.count_nil, List.map_nil] at this ⊢
    omega
  · intro d hd; simp [initSt] at hd
  · intro d hd; simp [initSt] at hd
  · intro j hj i hi'
    simp only [initSt, List.length_replicate] at hj
    simp [getW, initSt, hj] at hi'

/-- the invariants hold when the event loop is entered, whatever happened to the workers before the run.
    (`K` needs at least one round of `first_enqueue`, which `run()` always makes.) -/
theorem nr_start {c : Cfg} (hc : NoRetry c) {pick : List Nat → Option Nat}
    (n : Nat) (src : List Inp) (pre : List Ev) :
    InvNR src [] (start c pick n src pre) ∧ K (start c pick n src pre) := by
  unfold start
  have key : ∀ (l : List Ev) (t : St), InvNR src [] t → InvNR src [] (l.foldl (step c pick) t) := by
    intro l
    induction l with
    | nil => intro t ht; exact ht
    | cons e es ih => intro t ht; exact ih _ (nr_step hc (pick := pick) e ht).1
  have h0 := key pre _ (nr_init n src)
  obtain ⟨h1, _, k1⟩ := nr_firstEnqueue hc (pick := pick) (c.extra + 1) _ h0 (fun h => by omega)
  exact ⟨h1, k1⟩

end PwVerif.Pool
