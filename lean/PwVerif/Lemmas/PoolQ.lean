import PwVerif.Lemmas.PoolT
/-!
No deadlock in the Pool model (retry on, no enqueue_fn): whenever the event loop is waiting, some worker can
answer or some registered queue is ready. Needs one more invariant: the queue of a worker is forgotten only
once the worker has been declared dead (`QInv`).
-/
namespace PwVerif.Pool

def QOK (s : St) (j : Nat) : Prop := (getW s j).closed = false → (getW s j).queue = true
def QInv (s : St) : Prop := ∀ j, j < s.ws.length → QOK s j

/-- queues are untouched, closed workers stay closed -/
structure Mon (s t : St) : Prop where
  len : t.ws.length = s.ws.length
  q : ∀ j, (getW t j).queue = (getW s j).queue
  c : ∀ j, (getW s j).closed = true → (getW t j).closed = true

theorem Mon.refl (s : St) : Mon s s := ⟨rfl, fun _ => rfl, fun _ h => h⟩
theorem Mon.trans {a b c : St} (h1 : Mon a b) (h2 : Mon b c) : Mon a c :=
  ⟨by rw [h2.len, h1.len], fun j => by rw [h2.q, h1.q], fun j h => h2.c j (h1.c j h)⟩
theorem Mon.of_ws {s t : St} (h : t.ws = s.ws) : Mon s t :=
  ⟨by rw [h], fun j => by simp [getW, h], fun j hc => by simpa [getW, h] using hc⟩

theorem Mon.qok {s t : St} (h : Mon s t) (j : Nat) (hq : QOK s j) : QOK t j := by
  intro hc
  rw [h.q]
  apply hq
  cases hs : (getW s j).closed with
  | false => rfl
  | true => rw [h.c j hs] at hc; cases hc

theorem Mon.qinv {s t : St} (h : Mon s t) (hq : QInv s) : QInv t := by
  intro j hj
  rw [h.len] at hj
  exact h.qok j (hq j hj)

theorem mon_setW (s : St) (w : Nat) (x : Worker) (hq : x.queue = (getW s w).queue)
    (hc : (getW s w).closed = true → x.closed = true) : Mon s (setW s w x) := by
  by_cases hw : w < s.ws.length
  · refine ⟨setW_length _ _ _, ?_, ?_⟩
    · intro j
      by_cases hjw : j = w
      · subst hjw; rw [getW_setW_same s j x hw]; exact hq
      · rw [getW_setW_other s w j x hjw]
    · intro j h
      by_cases hjw : j = w
      · subst hjw; rw [getW_setW_same s j x hw]; exact hc h
      · rw [getW_setW_other s w j x hjw]; exact h
  · rw [setW_oob s w x hw]; exact Mon.refl s

theorem mon_doEnqueue (s : St) (w : Nat) (inp : Inp) : Mon s (doEnqueue s w inp) :=
  Mon.trans (mon_setW s w { getW s w with inbox := (getW s w).inbox ++ [inp], ppw := (getW s w).ppw ++ [inp] } rfl (fun h => h))
    (Mon.of_ws rfl)

theorem mon_markDead {c : Cfg} (hc : Retrying c) (s : St) (w : Nat) : Mon s (markDead c s w) := by
  rw [markDead_eq hc]
  exact Mon.trans (Mon.of_ws (s := s) (t := { s with retries := s.retries ++ (getW s w).ppw, pending := s.pending - (getW s w).ppw.length }) rfl)
    (mon_setW _ w _ rfl (fun _ => rfl))

theorem closed_markDead {c : Cfg} (hc : Retrying c) (s : St) (w : Nat) (hw : w < s.ws.length) :
    (getW (markDead c s w) w).closed = true := by
  rw [markDead_eq hc, getW_setW_same _ w _ (by exact hw)]

theorem mon_unused (c : Cfg) (s : St) (inp : Inp) (fr : Bool) : Mon s (unused c s inp fr) := by
  unfold unused putBack
  split
  · exact Mon.refl s
  · split <;> exact Mon.of_ws rfl

theorem mon_settle {c : Cfg} (hc : Retrying c) {pick : List Nat → Option Nat} :
    ∀ (fuel : Nat) (skip : List Nat) (s : St), Mon s (settle c pick fuel skip s) := by
  intro fuel
  induction fuel with
  | zero =>
    intro skip s
    simp only [settle]
    split
    · exact Mon.refl s
    · split
      · exact Mon.refl s
      · exact Mon.of_ws rfl
  | succ fuel ih =>
    intro skip s
    simp only [settle, giveUp_eq hc]
    cases hr : s.retries with
    | nil => exact Mon.refl s
    | cons inp rest =>
      simp only
      cases hpk : pick (avail s skip) with
      | none => exact Mon.refl s
      | some w =>
        simp only
        have h0 : Mon s { s with retries := rest } := Mon.of_ws rfl
        refine Mon.trans ?_ (ih _ _)
        split
        · exact Mon.of_ws rfl
        · split
          · exact Mon.trans h0 (mon_doEnqueue _ w inp)
          · exact Mon.trans h0 (Mon.trans (mon_markDead hc _ w) (Mon.trans (ih _ _) (mon_unused c _ inp true)))

theorem mon_handleDeath {c : Cfg} (hc : Retrying c) {pick : List Nat → Option Nat} (s : St) (w : Nat) :
    Mon s (handleDeath c pick s w) :=
  Mon.trans (mon_markDead hc s w) (mon_settle hc _ _ _)

theorem closed_handleDeath {c : Cfg} (hc : Retrying c) {pick : List Nat → Option Nat} (s : St) (w : Nat) (hw : w < s.ws.length) :
    (getW (handleDeath c pick s w) w).closed = true :=
  (mon_settle hc _ _ _).c w (closed_markDead hc s w hw)

theorem mon_nextInputs (s : St) : Mon s (nextInputs s).2 := by
  unfold nextInputs
  split
  · exact Mon.of_ws rfl
  · split
    · exact Mon.refl s
    · split <;> exact Mon.of_ws rfl

theorem mon_tryEnqueue {c : Cfg} (hc : Retrying c) {pick : List Nat → Option Nat} (s : St) (w : Nat) :
    Mon s (tryEnqueue c pick s w).1 := by
  unfold tryEnqueue
  simp only [giveUp_eq hc, putBack_eq hc]
  have hm := mon_nextInputs s
  generalize nextInputs s = r at hm
  obtain ⟨o, s'⟩ := r
  simp only at hm
  cases o with
  | none => exact hm
  | some p =>
    obtain ⟨fr, inp⟩ := p
    dsimp only
    split
    · exact Mon.trans hm (mon_unused c _ _ _)
    · split
      · exact Mon.trans hm (mon_unused c _ _ _)
      · split
        · exact Mon.trans hm (mon_doEnqueue _ _ _)
        · exact Mon.trans hm (Mon.trans (mon_handleDeath hc _ _) (mon_unused c _ _ _))

theorem qinv_onPoll {c : Cfg} (hc : Retrying c) {pick : List Nat → Option Nat}
    {s : St} {w : Nat} (h : QInv s) (hw : w < s.ws.length) : QInv (onPoll c pick s w) := by
  unfold onPoll
  dsimp only
  split
  · exact h
  split
  · split
    · exact h
    · -- EOF: the queue is forgotten; the worker is closed already or is declared dead right now
      have hlen : (setW s w { getW s w with queue := false }).ws.length = s.ws.length := setW_length _ _ _
      split
      · rename_i hcl
        intro j hj
        rw [hlen] at hj
        by_cases hjw : j = w
        · subst hjw
          intro hc'
          rw [getW_setW_same s j _ hw] at hc'
          simp_all
        · intro hc'
          rw [getW_setW_other s w j _ hjw] at hc' ⊢
          exact h j hj hc'
      · have hm := mon_handleDeath hc (pick := pick) (setW s w { getW s w with queue := false }) w
        intro j hj
        rw [hm.len, hlen] at hj
        by_cases hjw : j = w
        · subst hjw
          intro hc'
          rw [closed_handleDeath hc _ j (by rw [hlen]; exact hw)] at hc'
          cases hc'
        · apply hm.qok j
          intro hc'
          rw [getW_setW_other s w j _ hjw] at hc' ⊢
          exact h j hj hc'
  · rename_i rest hch
    have h1 : Mon s (setW s w { getW s w with chan := rest }) := mon_setW s w _ rfl (fun h => h)
    split
    · exact h1.qinv h
    · exact (Mon.trans h1 (mon_handleDeath hc _ w)).qinv h
  · rename_i i rest hch
    have h1 : Mon s (setW s w { getW s w with chan := rest }) := mon_setW s w _ rfl (fun h => h)
    split
    · exact h1.qinv h
    · rw [getW_setW_same s w _ hw]
      split
      · exact (Mon.trans h1 (Mon.of_ws rfl)).qinv h
      · rename_i p ppw' hcons
        have h2 : Mon (setW s w { getW s w with chan := rest })
            (setW (setW s w { getW s w with chan := rest }) w { ({ getW s w with chan := rest } : Worker) with ppw := ppw' }) :=
          mon_setW _ w _ (by rw [getW_setW_same s w _ hw]) (by rw [getW_setW_same s w _ hw]; exact fun h => h)
        refine (Mon.trans ?_ (mon_tryEnqueue hc _ w)).qinv h
        exact Mon.trans h1 (Mon.trans h2 (Mon.of_ws rfl))

theorem qinv_step {c : Cfg} (hc : Retrying c) {pick : List Nat → Option Nat} {s : St} (ev : Ev) (h : QInv s) :
    QInv (step c pick s ev) := by
  cases ev with
  | work w =>
    simp only [step]
    split
    · exact h
    · split
      · exact h
      · refine Mon.qinv ?_ h
        exact mon_setW s w _ rfl (fun h => h)
  | die w marker =>
    simp only [step]
    split
    · exact h
    · refine Mon.qinv ?_ h
      exact mon_setW s w _ rfl (fun h => h)
  | poll ws =>
    simp only [step]
    split
    · have key : ∀ (l : List Nat) (t : St), QInv t →
          QInv (l.foldl (fun s w => if s.err.isNone then onPoll c pick s w else s) t) := by
        intro l
        induction l with
        | nil => intro t h'; exact h'
        | cons w ws ih =>
          intro t h'
          simp only [List.foldl_cons]
          split
          · by_cases hw : w < t.ws.length
            · exact ih _ (qinv_onPoll hc h' hw)
            · have : onPoll c pick t w = t := by
                unfold onPoll
                rw [getW_oob t w hw]
                simp
              rw [this]; exact ih t h'
          · exact ih t h'
      exact key ws s h
    · exact h

theorem qinv_runEvents {c : Cfg} (hc : Retrying c) {pick : List Nat → Option Nat} :
    ∀ (evs : List Ev) (s : St), QInv s → QInv (runEvents c pick s evs) := by
  intro evs
  induction evs with
  | nil => intro s h; exact h
  | cons e es ih => intro s h; exact ih _ (qinv_step hc e h)

theorem mon_firstRound {c : Cfg} (hc : Retrying c) {pick : List Nat → Option Nat} :
    ∀ (n k : Nat) (s : St), Mon s (firstRound c pick n k s).1 := by
  intro n
  induction n with
  | zero => intro k s; exact Mon.refl s
  | succ n ih =>
    intro k s
    simp only [firstRound]
    split
    · exact ih _ _
    · have hm := mon_tryEnqueue hc (pick := pick) s k
      generalize tryEnqueue c pick s k = r at hm
      obtain ⟨s', b⟩ := r
      cases b with
      | false => exact hm
      | true => exact Mon.trans hm (ih _ _)

theorem mon_firstEnqueue {c : Cfg} (hc : Retrying c) {pick : List Nat → Option Nat} :
    ∀ (r : Nat) (s : St), Mon s (firstEnqueue c pick r s) := by
  intro r
  induction r with
  | zero => intro s; exact Mon.refl s
  | succ r ih =>
    intro s
    simp only [firstEnqueue]
    have hm := mon_firstRound hc (pick := pick) s.ws.length 0 s
    generalize firstRound c pick s.ws.length 0 s = res at hm
    obtain ⟨s', b⟩ := res
    cases b with
    | false => exact hm
    | true => exact Mon.trans hm (ih _)

theorem qinv_start {c : Cfg} (hc : Retrying c) {pick : List Nat → Option Nat} (n : Nat) (src : List Inp) (pre : List Ev) :
    QInv (start c pick n src pre) := by
  unfold start
  apply (mon_firstEnqueue hc _ _).qinv
  have key : ∀ (l : List Ev) (t : St), QInv t → QInv (l.foldl (step c pick) t) := by
    intro l
    induction l with
    | nil => intro t h; exact h
    | cons e es ih => intro t h; exact ih _ (qinv_step hc e h)
  apply key
  intro j hj hc'
  simp only [initSt, List.length_replicate] at hj
  simp [getW, initSt, hj]

/-- some pending list is non-empty when the total is positive -/
theorem exists_ppw_of_len_pos (l : List Worker) (h : (l.map fun x => x.ppw.length).sum ≠ 0) :
    ∃ j, ∃ hj : j < l.length, l[j].ppw ≠ [] := by
  induction l with
  | nil => simp at h
  | cons a as ih =>
    simp only [List.map_cons, List.sum_cons] at h
    by_cases ha : a.ppw = []
    · have : (as.map fun x => x.ppw.length).sum ≠ 0 := by simp [ha] at h; exact h
      obtain ⟨j, hj, hp⟩ := ih this
      exact ⟨j + 1, by simpa using hj, by simpa using hp⟩
    · exact ⟨0, by simp, by simpa using ha⟩

/-- **no deadlock**: while the event loop runs (something is pending and a worker is usable) some live worker
    holds an unprocessed input, or some registered queue holds a message or has reached EOF -/
theorem progress_possible {src0 : List Inp} {s : St} (hinv : Inv src0 [] s) (hq : QInv s)
    (hrun : running s = true) (herr : s.err = none) :
    ∃ w, effective s (.work w) = true ∨ effective s (.poll [w]) = true := by
  have hpend : s.pending ≠ 0 := by
    simp only [running, Bool.and_eq_true, decide_eq_true_eq] at hrun
    exact hrun.1
  have hlen : ppwLen s ≠ 0 := by
    intro h0
    apply hpend
    rw [hinv.pending, h0]; rfl
  obtain ⟨j, hj, hp⟩ := exists_ppw_of_len_pos s.ws hlen
  have hx := hinv.ws _ (getW_mem s j hj)
  have hget : getW s j = s.ws[j] := getW_eq s j hj
  have hcl : (getW s j).closed = false := by
    cases hc : (getW s j).closed with
    | false => rfl
    | true => exact absurd (by rw [hget] at hc; simpa [hget] using hx.closed_ (by rw [hget]; exact hc)) hp
  have hopen := hx.open_ hcl
  have hqueue := hq j hj hcl
  refine ⟨j, ?_⟩
  by_cases hin : (getW s j).inbox = []
  · right
    -- nothing to process: a result waits in the pipe, or the worker is dead (EOF)
    have hready : ready s j = true := by
      simp only [ready, hj, decide_true, hqueue, Bool.true_and, Bool.or_eq_true, Bool.not_eq_true', List.isEmpty_eq_false_iff]
      by_cases hch : (getW s j).chan = []
      · right
        have hlost : (getW s j).lost ≠ [] := by
          intro hl
          apply hp
          rw [← hget, hopen, hch, hin, hl]; rfl
        cases ha : (getW s j).alive with
        | true => exact absurd (hx.alive_ ha) hlost
        | false => exact (hx.dead_ ha).2
      · left; simpa using hch
    simp [effective, hrun, herr, hready]
  · left
    have ha : (getW s j).alive = true := by
      cases ha : (getW s j).alive with
      | true => rfl
      | false => exact absurd (hx.dead_ ha).1 hin
    simp [effective, hj, ha, hin]

end PwVerif.Pool
