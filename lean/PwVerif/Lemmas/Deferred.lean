import PwVerif.Model.Lifecycle
import PwVerif.Gen.RunLoops
/-!
Deferred delivery of a terminate request (see `Async.deferred`), evaluated once per (kind, target) over
**every** reachable arrival point and **every** delay on the programs regenerated from /repo; the
property files `Props/C01Deferred.lean` and `Props/C03Deferred.lean` take their statements from here
(`deferredAll_mono`). One kernel evaluation per (kind, target) keeps the cost of the table down.
-/
namespace PwVerif.Deferred
open PwVerif.Py PwVerif.Lifecycle PwVerif.Gen

/-- C01's shape: the target's own outcome, "terminated", or "nothing could be reported" -/
def shape (t : Target) (o : Obs) : Bool := o == own t || o == terminated || o == unreported

/-- C03: terminated, or the worker's own (undisturbed) outcome - unless the exception is finally raised inside
    one of the run loop's own `except` handlers (the known finding of C03); raised while the target runs
    (line 0): terminated -/
def dich (kd : Kind) (hl : List Nat) (st0 st : St) : Bool :=
  let o := observe kd st
  let ownObs := observe kd st0
  match st.raisedAt with
  | some l => hl.contains l || (l == 0 && o == terminated) || (l != 0 && (o == terminated || o == ownObs))
  | none => o == ownObs

def both (prog : List Stmt) (kd : Kind) (t : Target) (st0 st : St) : Bool :=
  shape t (observe kd st) && dich kd (handlerLinesL prog) st0 st

def table (prog : List Stmt) (start : Nat) (kd : Kind) (t : Target) : Bool :=
  deferredAll prog { target := t } [] start (both prog kd t)

theorem process_returns : table processRun processRunStart .process .returns = true := by decide +kernel
theorem process_raisesUser : table processRun processRunStart .process .raisesUser = true := by decide +kernel
theorem process_raisesBase : table processRun processRunStart .process .raisesBase = true := by decide +kernel
theorem remote_returns : table remoteRun remoteRunStart .remote .returns = true := by decide +kernel
theorem remote_raisesUser : table remoteRun remoteRunStart .remote .raisesUser = true := by decide +kernel
theorem remote_raisesBase : table remoteRun remoteRunStart .remote .raisesBase = true := by decide +kernel

end PwVerif.Deferred
