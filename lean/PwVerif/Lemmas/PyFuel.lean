import PwVerif.Model.Py
/-!
Fuel monotonicity of the statement-language interpreter (`Model/Py.lean`): a run that does not end with
`Out.fuel` gives the same result with any larger fuel. With it, statements about runs of unbounded length
(persistent loops over any number of items) can be made without fuel arithmetic.
-/
namespace PwVerif.Py

/-- more fuel never changes a result that did not run out of fuel (one step) -/
theorem fuel_succ (env : Env) : ∀ f : Nat,
    (∀ st s r, exec env f st s = r → r.2 ≠ .fuel → exec env (f + 1) st s = r) ∧
    (∀ st b r, execBlock env f st b = r → r.2 ≠ .fuel → execBlock env (f + 1) st b = r) ∧
    (∀ st e hs r, execHandlers env f st e hs = r → r.2 ≠ .fuel → execHandlers env (f + 1) st e hs = r) := by
  intro f
  induction f with
  | zero =>
    refine ⟨?_, ?_, ?_⟩
    · intro st s r h hr; simp only [exec] at h; subst h; exact absurd rfl hr
    · intro st b r h hr; simp only [execBlock] at h; subst h; exact absurd rfl hr
    · intro st e hs r h hr; simp only [execHandlers] at h; subst h; exact absurd rfl hr
  | succ f ih =>
    obtain ⟨ihE, ihB, ihH⟩ := ih
    -- helper forms of the induction hypothesis: either the smaller run ran out of fuel, or the bigger run agrees
    have hB : ∀ st b, (execBlock env f st b).2 = .fuel ∨ execBlock env (f + 1) st b = execBlock env f st b := by
      intro st b
      by_cases h : (execBlock env f st b).2 = .fuel
      · exact Or.inl h
      · exact Or.inr (ihB st b _ rfl h)
    have hE : ∀ st s, (exec env f st s).2 = .fuel ∨ exec env (f + 1) st s = exec env f st s := by
      intro st s
      by_cases h : (exec env f st s).2 = .fuel
      · exact Or.inl h
      · exact Or.inr (ihE st s _ rfl h)
    have hH : ∀ st e hs, (execHandlers env f st e hs).2 = .fuel ∨
        execHandlers env (f + 1) st e hs = execHandlers env f st e hs := by
      intro st e hs
      by_cases h : (execHandlers env f st e hs).2 = .fuel
      · exact Or.inl h
      · exact Or.inr (ihH st e hs _ rfl h)
    refine ⟨?_, ?_, ?_⟩
    · -- exec
      intro st s r h hr
      subst h
      cases s with
      | line ln acts => rfl
      | ret ln acts => rfl
      | brk ln => rfl
      | call ln body after =>
        simp only [exec] at hr ⊢
        cases hle : lineEvent st ln with
        | mk st1 o =>
          cases o with
          | some o => rfl
          | none =>
            simp only [hle] at hr ⊢
            rcases hB st1 body with hfu | heq
            · exfalso
              generalize execBlock env f st1 body = rb at hfu hr
              obtain ⟨s2, o2⟩ := rb
              simp only at hfu; subst hfu
              exact hr rfl
            · rw [heq]
      | ifS ln c thn els =>
        simp only [exec] at hr ⊢
        cases hle : lineEvent st ln with
        | mk st1 o =>
          cases o with
          | some o => rfl
          | none =>
            simp only [hle] at hr ⊢
            split
            · rename_i hc
              simp only [hc, if_true] at hr
              rcases hB st1 thn with hfu | heq
              · exact absurd hfu hr
              · exact heq
            · rename_i hc
              simp only [hc, Bool.false_eq_true, if_false] at hr
              rcases hB st1 els with hfu | heq
              · exact absurd hfu hr
              · exact heq
      | whileS ln c body =>
        simp only [exec] at hr ⊢
        cases hle : lineEvent st ln with
        | mk st1 o =>
          cases o with
          | some o => rfl
          | none =>
            simp only [hle] at hr ⊢
            split
            · rename_i hc
              simp only [hc, if_true] at hr
              rcases hB st1 body with hfu | heq
              · exfalso
                generalize execBlock env f st1 body = rb at hfu hr
                obtain ⟨s2, o2⟩ := rb
                simp only at hfu; subst hfu
                exact hr rfl
              · rw [heq]
                generalize execBlock env f st1 body = rb at hr
                obtain ⟨s2, o2⟩ := rb
                cases o2 with
                | normal =>
                  simp only at hr ⊢
                  rcases hE s2 (.whileS ln c body) with hfu | heq2
                  · exact absurd hfu hr
                  · exact heq2
                | _ => rfl
            · rfl
      | tryS ln body handlers fin =>
        simp only [exec] at hr ⊢
        cases hle : lineEvent st ln with
        | mk st1 o =>
          cases o with
          | some o => rfl
          | none =>
            simp only [hle] at hr ⊢
            -- body
            rcases hB st1 body with hfu | heq
            · exfalso
              generalize execBlock env f st1 body = rb at hfu hr
              obtain ⟨s2, o2⟩ := rb
              simp only at hfu; subst hfu
              exact hr rfl
            · rw [heq]
              generalize execBlock env f st1 body = rb at hr
              obtain ⟨s2, o2⟩ := rb
              -- handlers
              have key : ∀ (p : St × Out) (q : St × Out), q = p ∨ (p.2 = .fuel) →
                  ((match p.2 with
                    | .killed => (p.1, p.2) | .stuck => (p.1, p.2) | .fuel => (p.1, p.2)
                    | _ => match execBlock env f p.1 fin with
                      | (st, .normal) => (st, p.2)
                      | r => r).2 ≠ .fuel) →
                  (match q.2 with
                    | .killed => (q.1, q.2) | .stuck => (q.1, q.2) | .fuel => (q.1, q.2)
                    | _ => match execBlock env (f + 1) q.1 fin with
                      | (st, .normal) => (st, q.2)
                      | r => r) =
                  (match p.2 with
                    | .killed => (p.1, p.2) | .stuck => (p.1, p.2) | .fuel => (p.1, p.2)
                    | _ => match execBlock env f p.1 fin with
                      | (st, .normal) => (st, p.2)
                      | r => r) := by
                intro p q hq hne
                obtain ⟨ps, po⟩ := p
                rcases hq with rfl | hq
                · cases po with
                  | killed => rfl
                  | stuck => rfl
                  | fuel => rfl
                  | normal | raised _ | returned | broke =>
                    simp only at hne ⊢
                    rcases hB ps fin with hfu | heq3
                    · exfalso
                      generalize execBlock env f ps fin = rb at hfu hne
                      obtain ⟨s3, o3⟩ := rb
                      simp only at hfu; subst hfu
                      exact hne rfl
                    · rw [heq3]
                · simp only at hq; subst hq
                  exact absurd rfl hne
              cases o2 with
              | raised e =>
                simp only at hr ⊢
                rcases hH s2 e handlers with hfu | heq2
                · exfalso
                  generalize execHandlers env f s2 e handlers = rh at hfu hr
                  obtain ⟨s3, o3⟩ := rh
                  simp only at hfu; subst hfu
                  exact hr rfl
                · rw [heq2]
                  generalize execHandlers env f s2 e handlers = rh at hr
                  obtain ⟨s3, o3⟩ := rh
                  exact key (s3, o3) (s3, o3) (Or.inl rfl) hr
              | normal => exact key (s2, .normal) (s2, .normal) (Or.inl rfl) hr
              | returned => exact key (s2, .returned) (s2, .returned) (Or.inl rfl) hr
              | broke => exact key (s2, .broke) (s2, .broke) (Or.inl rfl) hr
              | killed => rfl
              | stuck => rfl
              | fuel => exact absurd rfl hr
    · -- execBlock
      intro st b r h hr
      subst h
      cases b with
      | nil => rfl
      | cons s rest =>
        simp only [execBlock] at hr ⊢
        rcases hE st s with hfu | heq
        · exfalso
          generalize exec env f st s = rb at hfu hr
          obtain ⟨s2, o2⟩ := rb
          simp only at hfu; subst hfu
          exact hr rfl
        · rw [heq]
          generalize exec env f st s = rb at hr
          obtain ⟨s2, o2⟩ := rb
          cases o2 with
          | normal =>
            simp only at hr ⊢
            rcases hB s2 rest with hfu | heq2
            · exact absurd hfu hr
            · exact heq2
          | _ => rfl
    · -- execHandlers
      intro st e hs r h hr
      subst h
      cases hs with
      | nil => rfl
      | cons hd rest =>
        obtain ⟨c, ln, body⟩ := hd
        simp only [execHandlers] at hr ⊢
        cases hle : lineEvent st ln with
        | mk st1 o =>
          cases o with
          | some o => rfl
          | none =>
            simp only [hle] at hr ⊢
            split
            · rename_i hc
              simp only [hc, if_true] at hr
              rcases hB { st1 with cur := some e } body with hfu | heq
              · exact absurd hfu hr
              · exact heq
            · rename_i hc
              simp only [hc, Bool.false_eq_true, if_false] at hr
              rcases hH st1 e rest with hfu | heq
              · exact absurd hfu hr
              · exact heq

theorem exec_mono (env : Env) {f : Nat} {st : St} {s : Stmt} {r : St × Out} (h : exec env f st s = r) (hr : r.2 ≠ .fuel) :
    ∀ g, f ≤ g → exec env g st s = r := by
  intro g hg
  obtain ⟨d, rfl⟩ := Nat.exists_eq_add_of_le hg
  induction d with
  | zero => exact h
  | succ d ih => exact (fuel_succ env (f + d)).1 st s r (ih (by omega)) hr

theorem execBlock_mono (env : Env) {f : Nat} {st : St} {b : List Stmt} {r : St × Out} (h : execBlock env f st b = r)
    (hr : r.2 ≠ .fuel) : ∀ g, f ≤ g → execBlock env g st b = r := by
  intro g hg
  obtain ⟨d, rfl⟩ := Nat.exists_eq_add_of_le hg
  induction d with
  | zero => exact h
  | succ d ih => exact (fuel_succ env (f + d)).2.1 st b r (ih (by omega)) hr

end PwVerif.Py
