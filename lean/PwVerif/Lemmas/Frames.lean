import PwVerif.Model.Frames
/-! Helper lemmas for the frame-stack model. -/
namespace PwVerif.Frames

theorem runEvents_append (s : St) (a b : List Ev) :
    runEvents s (a ++ b) = (match runEvents s a with
      | .ok s' => runEvents s' b
      | .error e => .error e) := by
  induction a generalizing s with
  | nil => simp [runEvents]
  | cons e es ih =>
    simp only [List.cons_append, runEvents]
    cases step s e with
    | ok s' => simpa using ih s'
    | error err => rfl

/-- Invariant of a load without top-level patches: the current frame is the top of the stack
    and every frame is a dummy. -/
def J (s : St) : Prop :=
  s.iter1 = s.stack.length ∧ (∀ f ∈ s.stack, f = dummy) ∧ ∀ e ∈ s.delivered, e.2 = []

theorem subFrames_nil_patches (it1 : Nat) (names : List Nat) (k : Nat) :
    ∀ f ∈ subFrames it1 [] names k, f = dummy := by
  induction names generalizing k with
  | nil => simp [subFrames]
  | cons n ns ih =>
    intro f hf
    simp only [subFrames, lookup, List.mem_cons] at hf
    rcases hf with h | h
    · exact h
    · exact ih _ f h

theorem subFrames_length (it1 : Nat) (p : Patches) (names : List Nat) (k : Nat) :
    (subFrames it1 p names k).length = names.length := by
  induction names generalizing k with
  | nil => rfl
  | cons n ns ih => simp [subFrames, ih]

theorem curFrame_J {s : St} (h : J s) : ∃ f, curFrame? s = some f ∧ f.patches = [] ∧ f.parent1 = 0 ∧ f.name = none := by
  unfold curFrame?
  by_cases h0 : s.iter1 = 0
  · simp [h0, dummy]
  · simp only [h0, if_false]
    have hlt : s.iter1 - 1 < s.stack.length := by have := h.1; omega
    refine ⟨s.stack[s.iter1 - 1], by simp [hlt], ?_⟩
    have := h.2.1 _ (List.getElem_mem hlt)
    rw [this]; simp [dummy]

/-- `recreate` with at most one named child keeps `J`; the stack grows by `names.length`. -/
theorem step_recreate_J {s : St} (h : J s) (id : Nat) (names : List Nat) (hn : names.length ≤ 1) :
    ∃ s', step s (.recreate id names) = .ok s' ∧ J s' ∧
      s'.stack.length = s.stack.length + names.length ∧ s'.unused = s.unused := by
  obtain ⟨f, hf, hp, _, _⟩ := curFrame_J h
  match names, hn with
  | [], _ =>
    refine ⟨s, ?_, h, by simp, rfl⟩
    simp [step, hf, subFrames]
  | [n], _ =>
    refine ⟨{ s with stack := insertAt s.stack s.iter1 [dummy], iter1 := s.iter1 + 1 }, ?_, ?_, ?_, rfl⟩
    · simp [step, hf, hp, subFrames, lookup]
    · refine ⟨?_, ?_, h.2.2⟩
      · simp [insertAt, h.1]
      · intro fr hfr
        simp only [insertAt, h.1, List.take_length, List.drop_length, List.append_nil,
          List.mem_append, List.mem_cons, List.not_mem_nil, or_false] at hfr
        rcases hfr with h1 | h1
        · exact h.2.1 _ h1
        · exact h1
    · simp [insertAt, h.1]

/-- `setstate` under `J` never fails, keeps `J`, pops one frame if there is one. -/
theorem step_setstate_J {s : St} (h : J s) (id : Nat) :
    ∃ s', step s (.setstate id) = .ok s' ∧ J s' ∧
      s'.stack.length = s.stack.length - 1 ∧ s'.unused = false := by
  obtain ⟨f, hf, hp, hpar, hname⟩ := curFrame_J h
  by_cases h0 : s.stack.length = 0
  · have hnil : s.stack = [] := List.length_eq_zero_iff.mp h0
    refine ⟨{ s with delivered := s.delivered ++ [(id, f.patches)], unused := false, stack := s.stack }, ?_, ?_, ?_, rfl⟩
    · simp [step, hf, h.1, hpar, hname, h0]
    · refine ⟨h.1, h.2.1, ?_⟩
      intro e he
      simp only [List.mem_append, List.mem_singleton] at he
      rcases he with he | he
      · exact h.2.2 e he
      · subst he; exact hp
    · simp [hnil]
  · refine ⟨{ s with delivered := s.delivered ++ [(id, f.patches)], unused := false,
                     stack := s.stack.eraseIdx (s.stack.length - 1), iter1 := s.stack.length - 1 }, ?_, ?_, ?_, rfl⟩
    · simp [step, hf, h.1, hpar, hname, h0]
    · refine ⟨?_, ?_, ?_⟩
      · simp
      · intro fr hfr
        exact h.2.1 _ (List.mem_of_mem_eraseIdx hfr)
      · intro e he
        simp only [List.mem_append, List.mem_singleton] at he
        rcases he with he | he
        · exact h.2.2 e he
        · subst he; exact hp
    · simp

end PwVerif.Frames
