/-
Family S, the owner's reads - `PersistentWorker.next_result` (`persistent.py`): when does a read wait for the
child and when does it only look at what is already in the pipe? The condition of the `if` is **regenerated
from /repo** into `Gen/Consumer.lean` (T-next); `results_iter()` and `call()` go through `next_result`.
-/
namespace PwVerif.Consumer

/-- messages on the results pipe, as far as a read is concerned -/
inductive M where
  | item (v : Nat)
  | endMarker
deriving Repr, DecidableEq

structure Cfg where
  nowaitWhenDead : Bool      -- the non-blocking branch is taken when `not self.is_alive()`
  nowaitWhenClosed : Bool    -- ... when `self._closed`
deriving Repr, DecidableEq

inductive Rd where
  | value (v : Nat)
  | empty          -- queue.Empty: "the stream has ended"
  | waits          -- blocks until the child writes something
deriving Repr, DecidableEq

/-- one `next_result()` given what the owner knows (closed flag, liveness) and what is buffered -/
def nextResult (cfg : Cfg) (closed alive : Bool) (pipe : List M) : Rd :=
  match pipe with
  | .item v :: _ => .value v
  | .endMarker :: _ => .empty
  | [] => if (cfg.nowaitWhenDead && !alive) || (cfg.nowaitWhenClosed && closed) then .empty else .waits

end PwVerif.Consumer
