/-
Family R — the server's context table (`remote_server.py:117-156`, `remote_context.py:64-104`).
Hand-written model of the dispatch on `(ctx_id, is_worker)` as the code does it (an association list
standing for the dict `self.contexts`), and the dictionary specification it refines.
Tied by `harness/c18.py` (same operation sequences on a real server).
-/
namespace PwVerif.Contexts

inductive Op where
  | create (i p : Nat)     -- RemoteContext(i, ...): header (i, False) + pickled context `p` (target and defaults)
  | delete (i : Nat)       -- header (i, False) + None
  | workerIn (i : Nat)     -- header (i, True): start a worker inside context i
deriving Repr, DecidableEq

inductive Reply where
  | ok            -- create/delete: True; workerIn: the context's helper took the request
  | exists        -- create: False (client raises ValueError)
  | refused       -- workerIn an unknown context: the socket is closed (client constructor raises)
deriving Repr, DecidableEq

/-- `self.contexts` as (id, payload) pairs; the payload stands for the pickled context (its target and defaults) -/
abbrev Table := List (Nat × Nat)

def has (t : Table) (i : Nat) : Bool := t.any (·.1 == i)

def step (t : Table) : Op → Table × Reply
  | .create i p => if has t i then (t, .exists) else (t ++ [(i, p)], .ok)
  | .delete i => (t.filter (·.1 != i), .ok)          -- `contexts.pop(i, None)`; the reply is True either way
  | .workerIn i => if has t i then (t, .ok) else (t, .refused)

def run : Table → List Op → Table × List Reply
  | t, [] => (t, [])
  | t, op :: ops =>
    let (t', r) := step t op
    let (t'', rs) := run t' ops
    (t'', r :: rs)

/-- `self.contexts[i]`: the context whose helper is handed a worker request naming `i` -/
def serves : Table → Nat → Option Nat
  | [], _ => none
  | (k, p) :: t, i => if k == i then some p else serves t i

/-! ### specification: a set of registered ids -/

def specStep (s : Nat → Bool) : Op → (Nat → Bool) × Reply
  | .create i _ => if s i then (s, .exists) else ((fun j => j == i || s j), .ok)
  | .delete i => ((fun j => j != i && s j), .ok)
  | .workerIn i => if s i then (s, .ok) else (s, .refused)

def specRun : (Nat → Bool) → List Op → (Nat → Bool) × List Reply
  | s, [] => (s, [])
  | s, op :: ops =>
    let (s', r) := specStep s op
    let (s'', rs) := specRun s' ops
    (s'', r :: rs)

/-! ### specification of what a worker request is served with: a dictionary id -> context -/

def specServe (d : Nat → Option Nat) : Op → (Nat → Option Nat)
  | .create i p => if (d i).isSome then d else fun j => if j == i then some p else d j
  | .delete i => fun j => if j == i then none else d j
  | .workerIn _ => d

def specServeRun : (Nat → Option Nat) → List Op → (Nat → Option Nat)
  | d, [] => d
  | d, op :: ops => specServeRun (specServe d op) ops

end PwVerif.Contexts
