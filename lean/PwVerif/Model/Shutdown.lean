/-
Family R — server shutdown (`remote_server.py:162-178` finally block, `58-68` SIGTERM handler;
server-side `RemoteWorker.terminate`, `remote.py`): what happens to each child the server spawned
and what the corresponding parent-side worker observes.
Hand-written; the shape of the two shutdown paths is regenerated from /repo (`Gen.shutdown`).
-/
namespace PwVerif.Shutdown

/-- what a child of the server is doing when the server stops -/
inductive Child where
  | cooperative     -- running a target that lets WorkerTerminatedError propagate
  | swallowing      -- running a target that swallows exceptions
  | idlePersistent  -- persistent worker waiting for input
  | finished        -- already dead, result delivered
deriving Repr, DecidableEq

/-- parent-side observation after the shutdown: `has_error` and whether the error is WorkerTerminatedError -/
structure ParentObs where
  dead : Bool
  hasError : Option Bool
  errorIsWte : Bool
deriving Repr, DecidableEq

structure Path where
  iteratesChildren : Bool     -- every worker child is visited
  iteratesContexts : Bool     -- every context helper is visited (finally path only)
  perChildGuarded : Bool      -- an exception while stopping one child does not stop the iteration
  forcedTerminate : Bool      -- terminate(force=True) / SIGTERM: an uncooperative child is killed
  killFallback : Bool         -- `if child.is_alive(): os.kill(child.pid, SIGTERM)`
deriving Repr, DecidableEq

/-- fate of one child on a path that visits it -/
def stop (p : Path) (c : Child) : Bool × ParentObs :=
  match c with
  | .finished => (true, ⟨true, some false, false⟩)             -- keeps its own outcome
  | .cooperative => (true, ⟨true, some true, true⟩)            -- reports WorkerTerminatedError
  | .idlePersistent => (true, ⟨true, some true, true⟩)         -- released from its input wait, reports it
  | .swallowing =>
    if p.forcedTerminate || p.killFallback then (true, ⟨true, some true, false⟩)   -- killed; (False, None) fabricated / connection closed
    else (false, ⟨false, none, false⟩)

/-- the children after the shutdown: all visited if the path iterates them and no exception can cut the loop -/
def shutdown (p : Path) (cs : List Child) : List (Bool × ParentObs) :=
  if p.iteratesChildren && p.perChildGuarded then cs.map (stop p) else []

end PwVerif.Shutdown
