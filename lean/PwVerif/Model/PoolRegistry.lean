/-
Family Q, the pool's registry of workers - `Pool.add_worker`, `Pool.restart_workers`, `Pool._close`
(`pool.py`): which workers the pool owns, and what leaving the pool does to each of them.

The shape of the three functions (statement order in the restart loop, what the failure handler of
`add_worker` does, the per-worker clean-up procedure of `_close` and its condition for terminating) is
**regenerated from /repo** into `Gen/PoolRegistry.lean` (T-reg). The model is validated by the real-pool
histories of `harness/c09.py` (stuck workers, failing constructors / registrations, all four ways of leaving).
-/
namespace PwVerif.PoolRegistry

structure Cfg where
  -- restart_workers, per worker
  restartBeforeForget : Bool     -- `w.restart(...)` comes before `del self._workers[oldid]` / `self._queues.pop(oldid)`
  registersNew : Bool            -- `self._workers[w.id] = w` and a fresh queue are registered afterwards
  -- add_worker, failure handler
  addForgets : Bool              -- pops the worker (and its queue) from the tables
  addTerminates : Bool           -- `worker.terminate()`
  addReraises : Bool
  -- _close
  closeVisitsAll : Bool          -- iterates `self._workers.values()`, one thread per worker, all joined
  closeGuarded : Bool            -- each clean-up runs in its own `try/except Exception`
  closeTerminatesIf : Bool       -- `if alive and (force is not False or not graceful): worker.terminate(timeout=timeout, **force_args)`
  closePassesForce : Bool        -- `force_args = {'force': force}` exactly when force is not None
  closeMarksAfterJoin : Bool     -- `self._pool_closed = True` only behind the (successful) join of every clean-up thread
  closeReraises : Bool           -- an exception that interrupts the join aborts the clean-up threads and is re-raised
  closeSkipsWhenClosed : Bool    -- `if self._pool_closed: return` at the top
deriving Repr, DecidableEq

/-- a worker as the registry sees it -/
structure W where
  id : Nat
  alive : Bool
  stuck : Bool        -- does not end by close()/wait()/graceful terminate: only a forced terminate stops it
deriving Repr, DecidableEq

abbrev Reg := List W

/-! ### restart_workers -/

inductive RestartOutcome where
  | ok (newId : Nat)       -- the old incarnation was stopped, a new child runs
  | raises                 -- `restart()` raised ("Could not stop a worker!"): the old child is still running
deriving Repr, DecidableEq

/-- `restart_workers` over the workers `todo` (a snapshot of the registry), with the given outcomes; returns the
    registry afterwards and whether the call raised. `done` = workers already handled (registered again). -/
def restartLoop (cfg : Cfg) : (done : Reg) → (todo : Reg) → List RestartOutcome → Reg × Bool
  | done, [], _ => (done, false)
  | done, todo, [] => (done ++ todo, false)         -- (outcome list exhausted: nothing more happens)
  | done, w :: rest, .ok newId :: outs =>
    let w' : W := { id := newId, alive := true, stuck := w.stuck }
    restartLoop cfg (if cfg.registersNew then done ++ [w'] else done) rest outs
  | done, w :: rest, .raises :: _ =>
    -- the exception leaves the loop: `w` is still registered only if it had not been forgotten before the call
    ((if cfg.restartBeforeForget then done ++ [w] else done) ++ rest, true)

def restartWorkers (cfg : Cfg) (reg : Reg) (outs : List RestartOutcome) : Reg × Bool := restartLoop cfg [] reg outs

/-! ### _close -/

/-- what the per-worker clean-up of `_close` does to one registered worker -/
def cleanupWorker (cfg : Cfg) (force : Option Bool) (graceful : Bool) (w : W) : W :=
  if !w.alive then w
  else
    -- close(); wait(timeout): a cooperative worker ends here
    if !w.stuck then { w with alive := false }
    else if cfg.closeTerminatesIf && (force != some false || !graceful) then
      -- terminate(timeout, **force_args): the worker's own default for `force` is True
      let eff := if cfg.closePassesForce then force.getD true else true
      if eff then { w with alive := false } else w
    else w

def closeAll (cfg : Cfg) (force : Option Bool) (graceful : Bool) (reg : Reg) : Reg :=
  if cfg.closeVisitsAll && cfg.closeGuarded then reg.map (cleanupWorker cfg force graceful) else reg

/-! ### leaving the pool, possibly interrupted

`close()` / `terminate()` / `__exit__` all end in `_close`. A `BaseException` (Ctrl-C) can interrupt the thread that waits
for the clean-up threads: they are aborted wherever they are - no worker is known to be dead - and the exception goes on to
the caller; leaving a `with` block then calls `terminate()`. -/

structure PoolSt where
  reg : Reg
  closed : Bool
deriving Repr, DecidableEq

/-- a complete `_close(timeout, force, graceful)` -/
def closePool (cfg : Cfg) (force : Option Bool) (graceful : Bool) (s : PoolSt) : PoolSt :=
  if cfg.closeSkipsWhenClosed && s.closed then s
  else { reg := closeAll cfg force graceful s.reg, closed := true }

/-- `_close` interrupted while joining: nobody was stopped for sure; the pool counts as closed only if the flag is set on
    that path too -/
def closeInterrupted (cfg : Cfg) (s : PoolSt) : PoolSt :=
  if cfg.closeSkipsWhenClosed && s.closed then s
  else { s with closed := !cfg.closeMarksAfterJoin }

/-! ### add_worker -/

inductive AddOutcome where
  | ok
  | ctorFails           -- the worker constructor raised: no worker object exists
  | registrationFails   -- the worker was created (a child runs) but `handle_new_worker` / the id check raised
deriving Repr, DecidableEq

/-- registry afterwards, and the worker that was created but is not owned by the pool (if any) -/
def addWorker (cfg : Cfg) (reg : Reg) (w : W) : AddOutcome → Reg × Option W
  | .ok => (reg ++ [w], none)
  | .ctorFails => (reg, none)
  | .registrationFails =>
    let reg' := if cfg.addForgets then reg else reg ++ [w]
    let w' : W := if cfg.addTerminates then { w with alive := false } else w     -- terminate() with its default force=True
    (reg', if cfg.addForgets then some w' else none)

end PwVerif.PoolRegistry
