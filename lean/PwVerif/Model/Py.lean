/-
Family L — a small structured-statement language for the child-side run loops
(`ThreadWorker._run`, `ProcessWorker._run`, `RemoteWorker._run_backend` and the persistent
`do_work` / `_send_result` / `_cleanup` / `_init_child` they call), and its semantics under
one asynchronous event landing at a chosen *line event*.

Programs in this language are **generated** from `/repo`'s source on every run by
`harness/translate.py` (→ `PwVerif/Gen/RunLoops.lean`). The semantics is validated against
the real interpreter by `harness/inject.py`: the sequence of traced line events of an
undisturbed run must equal `lineTrace`, and for every landing index the outcome of the real
run with the event injected at that line event must equal the outcome computed here.

A *line event* is what CPython's tracing reports as `'line'`: one per simple statement, one
for `try:`, for an `except ...:` clause that is reached, for `if`/`while` headers.
-/
namespace PwVerif.Py

/-- exception kinds that matter to the run loops -/
inductive Exc where
  | wte       -- WorkerTerminatedError (an `Exception`)
  | user      -- an `Exception` raised by the target
  | base      -- a `BaseException` that is not an `Exception` (KeyboardInterrupt, SystemExit)
  | closed    -- ConnectionClosedError (an `Exception`)
  | empty     -- queue.Empty (an `Exception`)
  | os        -- OSError raised by a send / recv on a pipe end this process has already closed (an `Exception`)
  | nothing   -- not an exception: the `None` in an outcome pair `(False, None)`
deriving Repr, DecidableEq

inductive Catch where
  | exception           -- `except Exception`
  | baseException       -- `except BaseException` / bare `except:`
  | only (es : List Exc) -- a specific class (tuple)
deriving Repr, DecidableEq

def Catch.catches : Catch → Exc → Bool
  | .exception, e => e != .base
  | .baseException, _ => true
  | .only es, e => es.contains e

/-- abstract effects of source lines; `cur` in a name = "the exception being handled" -/
inductive Act where
  | nop
  | setTid                 -- child records its identity (tid/ident/pid)
  | startupSet             -- `_startup_sync.set()`: the constructor may return from now on
  | startCtrl              -- start the child's control thread and wait for it
  | closeParentComms
  | sendInfo               -- runtime info (pid, tid, ident) to the parent
  | recvSync               -- remote backend waits for the server's go-ahead
  | initChild              -- `_init_child()` of a one-shot worker (no-op)
  | initCounter            -- persistent `_init_child`: `_counter = 0; _stop = False`
  | callTarget             -- `self._target(*args, **kwargs)`
  | setOk                  -- thread: `self._result = (True, value)`
  | setErrCur              -- thread: `self._result = (False, e)`
  | sendFinalOk            -- process: `put(((True, result), user_state))`
  | sendFinalErrCur        -- process: `put(((False, e), user_state))`
  | varOk                  -- remote: `result = (True, result)`
  | varErrCur              -- remote: `result = (False, e)`
  | varNone                -- remote: `result = None`
  | varUnreported          -- remote: `result = (False, None)`
  | sendVar                -- remote: `send_msg(socket, result)`
  | sendUserState          -- remote: `send_msg(socket, user_state)`
  | shutdownSock | closeSock | closeComms
  | releaseCtrl            -- tell the own control thread to finish (`_ctrl_comms.parent_end.send(None)`)
  | joinCtrl               -- `_ctrl_thread(_loc).join()`: returns only when the control thread has finished, i.e.
                           -- after it has turned a request it already received into the exception
  | loadPayload            -- remote: unpickle (target, args, kwargs)
  | copyDefaults           -- persistent: deepcopy of default args / kwargs
  | recvArgs               -- persistent: receive the next (args, kwargs) or the release marker
  | mergeArgs              -- persistent: overlay the received arguments on the defaults
  | bumpCounter            -- persistent: `_counter += 1`
  | sendItem               -- persistent: result message (counter, True, value, id)
  | sendEnd                -- persistent: end marker (counter, False, None, id)
  | closeResults           -- persistent: close the child end of the results pipe
  | setCleaned             -- persistent: `_cleaned_up = True`
  | retCounter             -- persistent do_work: `return self._counter`
  | log                    -- logger call
deriving Repr, DecidableEq

inductive Cond where
  | tt | ff
  | setNames               -- `self._set_names` (default True)
  | targetNone             -- `self._target is None`
  | notStop                -- `not self._stop`
  | extraNone              -- `extra is None`
  | cleanedUp              -- `self._cleaned_up`
  | ctrlAliveNoReq         -- process: `_ctrl_thread.is_alive() and not _terminate_req`
  | ctrlAlive              -- remote: `_ctrl_thread_loc.is_alive()`
  | hasCtrlAlive           -- remote outer handler: `hasattr(self, '_ctrl_thread_loc') and is_alive()`
  | noTarget               -- remote: `not hasattr(self, '_target')`
  | mainPath               -- remote: `self._main_path` truthy (modelled false: no main-script re-execution)
  | windows                -- `is_windows()` (false)
  | hasClose               -- thread persistent: `hasattr(child_end, 'close')`
  | resetSigterm           -- remote: `_reset_sigterm_hnd`
deriving Repr, DecidableEq

inductive Stmt where
  | line (ln : Nat) (acts : List Act)
  /-- a line that calls an inlined method: line event, callee body, then `after` effects
      (e.g. `self._result = (True, self.do_work())`: body = do_work, after = [setOk]) -/
  | call (ln : Nat) (body : List Stmt) (after : List Act)
  | ret (ln : Nat) (acts : List Act)                       -- `return ...` (leaves the inlined callee)
  | brk (ln : Nat)                                         -- `break`
  | ifS (ln : Nat) (c : Cond) (thn els : List Stmt)
  | whileS (ln : Nat) (c : Cond) (body : List Stmt)
  | tryS (ln : Nat) (body : List Stmt) (handlers : List (Catch × Nat × List Stmt)) (fin : List Stmt)
deriving Repr

/-- what the target does when called -/
inductive Target where
  | returns | raisesUser | raisesBase
deriving Repr, DecidableEq

/-- what the next `recvArgs` yields -/
inductive Input where
  | item        -- an (args, kwargs) pair
  | release     -- the `None` marker sent by close()/wait()
  | eof         -- the parent's end is closed (queue.Empty / ConnectionClosedError → leaves the loop)
deriving Repr, DecidableEq

/-- the asynchronous event -/
inductive Async where
  | raiseWte (viaCtrl : Bool)   -- WorkerTerminatedError; `viaCtrl` = delivered by the child's control
                                -- thread after a real terminate() (which also sets `_terminate_req`
                                -- and lets that thread finish) rather than raised by the test hook
  | kill                        -- SIGKILL
  | deferred (d : Nat)          -- a real terminate() whose request the child's control thread *receives* at the
                                -- landing point (it sets `_terminate_req`) but turns into the exception only `d`
                                -- line events of the working thread later (the control thread is descheduled
                                -- between `recv()` and `foreign_raise`) - or at the `join()` of that thread,
                                -- whichever comes first
deriving Repr, DecidableEq

/-- a message on a channel towards the parent: `final none` = (True, value), `final (some e)` = (False, e) -/
inductive Msg where
  | info                         -- runtime info
  | final (err : Option Exc) (ustate : Nat := 0)  -- process: ((ok, v), user_state); remote: the result tuple
  | noneResult                   -- remote: `send_msg(socket, None)` (local `result` never assigned)
  | userState (v : Nat := 0)
  | item (counter : Nat)         -- persistent result message
  | endMarker (counter : Nat)
deriving Repr, DecidableEq

structure St where
  cur : Option Exc := none       -- exception bound by the innermost entered `except ... as e`
  result : Option (Option Exc) := none   -- thread: `self._result` (none = unset)
  var : Option (Option Exc) := none      -- remote: local `result` (none = None)
  comms : List Msg := []         -- process: messages put on `_comms`; remote: on the data socket
  results : List Msg := []       -- persistent: messages on the results pipe / data socket
  counter : Nat := 0
  ustate : Nat := 0              -- the child's `user_state` (0 = the initial value, 1 = the last value assigned by the target)
  rtrace : List Nat := []        -- line events seen (line numbers), NEWEST first (cheap to extend; see `St.trace`)
  inputs : List Input := []      -- what recvArgs will yield
  left : Option Nat := none      -- line events still to pass before the async event fires
  inflight : Option Nat := none  -- `deferred`: request received by the control thread, line events left before it raises
  raisedAt : Option Nat := none  -- line at which the asynchronous WorkerTerminatedError was raised (0 = inside the target)
  async : Async := .kill
  commsClosed : Bool := false    -- `_comms.child_end.close()` has been executed: later sends / recvs on it raise OSError
  stop : Bool := false
  cleaned : Bool := false
  extraNone : Bool := false
  ctrlAlive : Bool := false
  terminateReq : Bool := false
deriving Repr

/-- line events seen, oldest first -/
def St.trace (st : St) : List Nat := st.rtrace.reverse

inductive Out where
  | normal
  | raised (e : Exc)
  | returned
  | broke
  | killed
  | stuck           -- blocked for ever in recvArgs (no input, no event)
  | fuel
deriving Repr, DecidableEq

structure Env where
  target : Target := .returns
  targetNone : Bool := false
  assigns : Bool := false       -- the work assigns `self.user_state` (C16)
deriving Repr

def evalCond (st : St) (env : Env) : Cond → Bool
  | .tt => true | .ff => false
  | .setNames => true
  | .targetNone => env.targetNone
  | .notStop => !st.stop
  | .extraNone => st.extraNone
  | .cleanedUp => st.cleaned
  | .ctrlAliveNoReq => st.ctrlAlive && !st.terminateReq
  | .ctrlAlive => st.ctrlAlive
  | .hasCtrlAlive => st.ctrlAlive
  | .noTarget => true
  | .mainPath => false
  | .windows => false
  | .hasClose => true
  | .resetSigterm => true

/-- a line event: returns `some out` if the asynchronous event fires here -/
def lineEvent (st : St) (ln : Nat) : St × Option Out :=
  let st := { st with rtrace := ln :: st.rtrace }
  match st.inflight with
  | some 0 => ({ st with inflight := none, ctrlAlive := false, raisedAt := some ln }, some (.raised .wte))
  | some (n + 1) => ({ st with inflight := some n }, none)
  | none =>
  match st.left with
  | none => (st, none)
  | some 0 =>
    match st.async with
    | .kill => ({ st with left := none }, some .killed)
    | .raiseWte via =>
      if via && !st.ctrlAlive then
        -- a real terminate() after the child's control thread has been released: nobody is
        -- left to raise the exception in the working thread, the request is lost
        ({ st with left := none }, none)
      else
      ({ st with left := none, terminateReq := st.terminateReq || via,
                 ctrlAlive := if via then false else st.ctrlAlive, raisedAt := some ln }, some (.raised .wte))
    | .deferred d =>
      if !st.ctrlAlive then ({ st with left := none }, none)
      else ({ st with left := none, terminateReq := true, inflight := some d }, none)
  | some (k + 1) => ({ st with left := some k }, none)

/-- one effect; may raise by itself. The target call contains one pseudo line event (line 0):
    the asynchronous event may land while the target runs. -/
def doAct (env : Env) (st : St) (a : Act) : St × Option Out :=
  let done := st
  match a with
  | .callTarget =>
    -- (C16: a state-assigning target assigns `user_state` after its first line - the pseudo line
    --  event - and before it returns or raises)
    match lineEvent st 0 with
    | (st, some o) => (st, some o)
    | (st, none) =>
      let done := { st with ustate := if env.assigns then 1 else st.ustate }
      match env.target with
      | .returns => (done, none)
      | .raisesUser => (done, some (.raised .user))
      | .raisesBase => (done, some (.raised .base))
  | .setOk => ({ done with result := some none }, none)
  | .setErrCur => ({ done with result := some st.cur }, none)
  | .sendInfo => if st.commsClosed then (st, some (.raised .os)) else ({ done with comms := st.comms ++ [.info] }, none)
  | .recvSync => if st.commsClosed then (st, some (.raised .os)) else (done, none)
  | .closeComms => ({ done with commsClosed := true }, none)
  | .sendFinalOk => if st.commsClosed then (st, some (.raised .os)) else ({ done with comms := st.comms ++ [.final none st.ustate] }, none)
  | .sendFinalErrCur => if st.commsClosed then (st, some (.raised .os)) else ({ done with comms := st.comms ++ [.final st.cur st.ustate] }, none)
  | .varNone => ({ done with var := none }, none)
  | .varUnreported => ({ done with var := some (some .nothing) }, none)
  | .varOk => ({ done with var := some none }, none)
  | .varErrCur => ({ done with var := some st.cur }, none)
  | .sendVar => ({ done with comms := st.comms ++ [match st.var with | none => .noneResult | some r => .final r st.ustate] }, none)
  | .sendUserState => ({ done with comms := st.comms ++ [.userState st.ustate] }, none)
  | .bumpCounter => ({ done with counter := st.counter + 1 }, none)
  | .sendItem => ({ done with results := st.results ++ [.item st.counter] }, none)
  | .sendEnd => ({ done with results := st.results ++ [.endMarker st.counter] }, none)
  | .startCtrl => ({ done with ctrlAlive := true }, none)
  | .releaseCtrl => ({ done with ctrlAlive := st.inflight.isSome }, none)   -- a thread that still has to raise stays alive
  | .joinCtrl =>
    match st.inflight with
    | some _ => ({ st with inflight := none, ctrlAlive := false, raisedAt := st.rtrace.head? }, some (.raised .wte))
    | none => (done, none)
  | .initCounter => ({ done with stop := false, counter := 0 }, none)
  | .setCleaned => ({ done with cleaned := true }, none)
  | .recvArgs =>
    match st.inputs with
    | [] => (st, some .stuck)
    | .item :: rest => ({ done with inputs := rest, extraNone := false }, none)
    | .release :: rest => ({ done with inputs := rest, extraNone := true }, none)
    | .eof :: rest => ({ st with inputs := rest }, some (.raised .empty))
  | _ => (done, none)

def doActs (env : Env) : St → List Act → St × Out
  | st, [] => (st, .normal)
  | st, a :: as =>
    match doAct env st a with
    | (st, some o) => (st, o)
    | (st, none) => doActs env st as

mutual
def exec (env : Env) : Nat → St → Stmt → St × Out
  | 0, st, _ => (st, .fuel)
  | fuel + 1, st, s =>
    match s with
    | .line ln acts =>
      match lineEvent st ln with
      | (st, some o) => (st, o)
      | (st, none) => doActs env st acts
    | .ret ln acts =>
      match lineEvent st ln with
      | (st, some o) => (st, o)
      | (st, none) =>
        match doActs env st acts with
        | (st, .normal) => (st, .returned)
        | r => r
    | .brk ln =>
      match lineEvent st ln with
      | (st, some o) => (st, o)
      | (st, none) => (st, .broke)
    | .call ln body after =>
      match lineEvent st ln with
      | (st, some o) => (st, o)
      | (st, none) =>
        match execBlock env fuel st body with
        | (st, .normal) => doActs env st after
        | (st, .returned) => doActs env st after
        | r => r
    | .ifS ln c thn els =>
      match lineEvent st ln with
      | (st, some o) => (st, o)
      | (st, none) => if evalCond st env c then execBlock env fuel st thn else execBlock env fuel st els
    | .whileS ln c body =>
      match lineEvent st ln with
      | (st, some o) => (st, o)
      | (st, none) =>
        if evalCond st env c then
          match execBlock env fuel st body with
          | (st, .normal) => exec env fuel st (.whileS ln c body)
          | (st, .broke) => (st, .normal)
          | r => r
        else (st, .normal)
    | .tryS ln body handlers fin =>
      match lineEvent st ln with
      | (st, some o) => (st, o)           -- the event lands on the `try:` line: outside the block
      | (st, none) =>
        let (st, o) := execBlock env fuel st body
        let (st, o) :=
          match o with
          | .raised e => execHandlers env fuel st e handlers
          | _ => (st, o)
        -- finally (not run when the process was killed / is stuck / out of fuel)
        match o with
        | .killed => (st, o)
        | .stuck => (st, o)
        | .fuel => (st, o)
        | _ =>
          match execBlock env fuel st fin with
          | (st, .normal) => (st, o)
          | r => r                        -- an exception (or return) in finally replaces the pending one
def execBlock (env : Env) : Nat → St → List Stmt → St × Out
  | 0, st, _ => (st, .fuel)
  | _ + 1, st, [] => (st, .normal)
  | fuel + 1, st, s :: rest =>
    match exec env fuel st s with
    | (st, .normal) => execBlock env fuel st rest
    | r => r
def execHandlers (env : Env) : Nat → St → Exc → List (Catch × Nat × List Stmt) → St × Out
  | 0, st, _, _ => (st, .fuel)
  | _ + 1, st, e, [] => (st, .raised e)
  | fuel + 1, st, e, (c, ln, body) :: rest =>
    -- the `except <class> as e:` line is a line event of its own: the class test is evaluated
    -- there whether or not it matches
    match lineEvent st ln with
    | (st, some o) => (st, o)
    | (st, none) =>
      if c.catches e then execBlock env fuel { st with cur := some e } body
      else execHandlers env fuel st e rest
end

/-- Run a whole program. `k = none`: undisturbed. -/
def run (prog : List Stmt) (env : Env) (inputs : List Input) (k : Option Nat) (a : Async) : St × Out :=
  execBlock env 400 { inputs := inputs, left := k, async := a } prog

/-- the traced line numbers of an undisturbed run -/
def lineTrace (prog : List Stmt) (env : Env) (inputs : List Input) : List Nat :=
  (run prog env inputs none .kill).1.trace

end PwVerif.Py

namespace PwVerif.Py
mutual
/-- line numbers of every `except` clause and of the statements inside its handler -/
def handlerLines : Stmt → List Nat
  | .line _ _ => []
  | .ret _ _ => []
  | .brk _ => []
  | .call _ body _ => handlerLinesL body
  | .ifS _ _ thn els => handlerLinesL thn ++ handlerLinesL els
  | .whileS _ _ body => handlerLinesL body
  | .tryS _ body hs fin => handlerLinesL body ++ handlerLinesH hs ++ handlerLinesL fin
def handlerLinesL : List Stmt → List Nat
  | [] => []
  | s :: rest => handlerLines s ++ handlerLinesL rest
def handlerLinesH : List (Catch × Nat × List Stmt) → List Nat
  | [] => []
  | (_, ln, body) :: rest => ln :: (allLinesL body ++ handlerLinesH rest)
/-- every line number of a block (used for handler bodies) -/
def allLines : Stmt → List Nat
  | .line ln _ => [ln]
  | .ret ln _ => [ln]
  | .brk ln => [ln]
  | .call ln body _ => ln :: allLinesL body
  | .ifS ln _ thn els => ln :: (allLinesL thn ++ allLinesL els)
  | .whileS ln _ body => ln :: allLinesL body
  | .tryS ln body hs fin => ln :: (allLinesL body ++ allLinesH hs ++ allLinesL fin)
def allLinesL : List Stmt → List Nat
  | [] => []
  | s :: rest => allLines s ++ allLinesL rest
def allLinesH : List (Catch × Nat × List Stmt) → List Nat
  | [] => []
  | (_, ln, body) :: rest => ln :: (allLinesL body ++ allLinesH rest)
end
end PwVerif.Py

namespace PwVerif.Py
mutual
/-- line numbers of the statements inside `finally` blocks -/
def finallyLines : Stmt → List Nat
  | .line _ _ => []
  | .ret _ _ => []
  | .brk _ => []
  | .call _ body _ => finallyLinesL body
  | .ifS _ _ thn els => finallyLinesL thn ++ finallyLinesL els
  | .whileS _ _ body => finallyLinesL body
  | .tryS _ body hs fin => finallyLinesL body ++ finallyLinesH hs ++ allLinesL fin
def finallyLinesL : List Stmt → List Nat
  | [] => []
  | s :: rest => finallyLines s ++ finallyLinesL rest
def finallyLinesH : List (Catch × Nat × List Stmt) → List Nat
  | [] => []
  | (_, _, body) :: rest => finallyLinesL body ++ finallyLinesH rest
end
end PwVerif.Py
