/-
Family S, parent side — `PersistentWorker.restart` (`persistent.py:86-95`):
wait → (terminate) → still alive? raise → sync → clear `__dict__` → re-run `__init__` with the saved
constructor arguments and a fresh (or caller-supplied) results pipe.
Hand-written; tied by `harness/c17.py`; the list of saved constructor arguments is regenerated
from /repo (`Gen/Tables.lean`).
-/
namespace PwVerif.Restart

/-- what identifies "the same worker" for the user -/
structure Ctor where
  target : Nat
  defaults : List Nat
  name : Nat
  userid : Nat
  host : Nat
  context : Nat
deriving Repr, DecidableEq

structure W where
  ctor : Ctor
  ident : Nat               -- child identity (pid / tid): incarnation number in the model
  alive : Bool
  closed : Bool
  counter : Nat             -- child-side result counter of this incarnation
  stream : List (Nat × Nat) -- unread results: (incarnation that produced it, value)
  userState : Nat
  stoppable : Bool          -- wait()/terminate() can stop the current child
deriving Repr, DecidableEq

inductive Res where
  | ok (w : W)
  | raised (w : W)          -- RuntimeError('Could not stop a worker!'): the object is left as it was
deriving Repr, DecidableEq

/-- `restart()`; `fresh` = the identity the OS gives the new child -/
def restart (w : W) (fresh : Nat) : Res :=
  if w.alive && !w.stoppable then .raised w
  else
    -- old child stopped (or already dead); final state synchronised; everything else rebuilt by __init__
    .ok { ctor := w.ctor, ident := fresh, alive := true, closed := false, counter := 0, stream := [],
          userState := w.userState, stoppable := true }

/-- the new child processes one enqueue -/
def work (w : W) (v : Nat) : W :=
  if w.alive && !w.closed then { w with counter := w.counter + 1, stream := w.stream ++ [(w.ident, v)] } else w

def works (w : W) : List Nat → W
  | [] => w
  | v :: vs => works (work w v) vs

end PwVerif.Restart
